//! C17 — correspondence + spec oracle for `anapaya_edge_tun::fragmenting`.
//!
//! A case is a *schedule*: queue count + a sequence of frames fed to one real `Defragmenter` and to the
//! Lean model (`drv_frag`).  Compared per frame: `pkt <stream> <bytes>` | `none` | `err <label>` | `panic`.
//! Spec oracle (independent of the model), applied to the implementation's output:
//!  * integrity: every byte of a packet emitted from a reassembly queue was received, at that position, in a
//!    frame with the same stream offset fed *after the previous emission of that stream offset from a queue*
//!    (payload bytes are random, so stale slot content is detected; a re-emission cannot reuse old frames);
//!    a packet emitted on the single-frame fast path is exactly the payload of that frame;
//!  * honest streams: an emitted packet is byte-identical to the packet sent under that stream offset;
//!  * at most once: a second emission of an honest packet is a known finding only in its two specific
//!    classes (single-frame duplicate; whole packet duplicated *and* a frame of another packet fed in
//!    between, which can have reclaimed the slot); anything else is a violation;
//!  * liveness, per packet and under any duplication / interleaving / loss of other packets' frames: let
//!    `t0` be the first and `t1` the completing frame of a multi-frame packet S.  If the streams that can hold
//!    a slot up to `t1` (every other stream offset with a multi-frame frame fed up to `t1`, except those that
//!    were emitted before `t0` and silent since) number at most Q-1, no busy slot can have been evicted, so S
//!    must be emitted exactly at `t1`.  Every honest single-frame packet must be emitted on arrival;
//!  * no panic.
//!
//! A second stream (`e2e`, see the section before `main`) drives the production data path around the
//! reassembler - a real `EdgeTunServerState` and `EdgeTunClientState` after a WireGuard handshake, in both
//! directions - with delivery schedules of the encrypted datagrams, and applies the same clauses to what the
//! receiving side hands to the tunnel (keys `C17:e2e:*`).  A third stream (`e2e multi`, section before `main`)
//! connects 2..3 clients with distinct identities to ONE server and sends client->server multi-frame packets at
//! coinciding stream offsets; the clauses are judged per client identity (keys `C17:e2e:multi:*`).
use std::{
    collections::{HashMap, HashSet, VecDeque},
    net::{IpAddr, Ipv4Addr, SocketAddr},
    sync::Arc,
    time::Instant,
};

use ana_gotatun::{
    noise::{TunnResult, rate_limiter::RateLimiter},
    packet::{Packet, WgKind},
    x25519,
};
use anapaya_edge_tun::data::{
    client_state::{EdgeTunClientConfig, EdgeTunClientState},
    common::{AsIpAddr, EdgePacketBufPool},
    server::{EdgeTunAuthz, EdgeTunServerState, InboundTrafficPolicy},
};
use anapaya_edge_tun::fragmenting::metrics::{DefragmentMetrics, FragmentMetrics};

use anapaya_edge_tun::fragmenting::{
    DefragmentInsertError, Defragmenter, Fragmenter, FragmenterSendError, MAX_MTU, MAX_PACKET_SIZE, MIN_MTU,
    MIN_PAYLOAD_SIZE,
};
use serde_json::json;
use verif_harness::*;

const HDR: usize = 16;

#[derive(Clone)]
struct Schedule {
    kind: &'static str,
    queues: usize,
    frames: Vec<Vec<u8>>,
    /// honest packets by stream offset (empty for hostile schedules)
    sent: HashMap<u64, Vec<u8>>,
    /// frame offsets of every honest packet, as produced by the Fragmenter
    sent_offs: HashMap<u64, Vec<usize>>,
}

fn mk_frame(so: u64, fo: u16, flags: u16, payload: &[u8], reserved: u32) -> Vec<u8> {
    let mut v = Vec::with_capacity(HDR + payload.len());
    v.extend_from_slice(&so.to_be_bytes());
    v.extend_from_slice(&fo.to_be_bytes());
    v.extend_from_slice(&flags.to_be_bytes());
    v.extend_from_slice(&reserved.to_be_bytes());
    v.extend_from_slice(payload);
    v
}

/// (stream offset, frame offset, LAST) of a frame that has a complete header
fn hd(f: &[u8]) -> Option<(u64, usize, bool)> {
    if f.len() < HDR {
        return None;
    }
    Some((
        u64::from_be_bytes(f[0..8].try_into().unwrap()),
        u16::from_be_bytes(f[8..10].try_into().unwrap()) as usize,
        f[10] & 0x80 != 0,
    ))
}

/// frame takes the stateless single-frame fast path of `recv_fallible`
fn is_fast(f: &[u8]) -> bool {
    matches!(hd(f), Some((_, 0, true)))
}

fn impl_out(r: Result<Result<Option<(u64, Vec<u8>)>, DefragmentInsertError>, String>) -> String {
    match r {
        Err(_) => "panic".into(),
        Ok(Ok(Some((so, p)))) => format!("pkt {so} {}", hex(&p)),
        Ok(Ok(None)) => "none".into(),
        Ok(Err(e)) => {
            let l = match e {
                DefragmentInsertError::QueueNotAccepting => "queue_idle",
                DefragmentInsertError::InvalidHeader => "invalid_header",
                DefragmentInsertError::InvalidHeaderValue(_, m) => m,
                DefragmentInsertError::OutOfBounds(_) => "segment_out_of_bounds",
                DefragmentInsertError::Duplicate(_) => "duplicate_segment",
                DefragmentInsertError::TooOld(_) => "segment_too_old",
            };
            format!("err {l}")
        }
    }
}

struct Outcome {
    /// first index at which model and implementation differ, with both outputs
    disagree: Option<(usize, String, String)>,
    /// spec failures (key, what)
    spec: Vec<(String, String)>,
    labels: Vec<String>,
    emitted_from_queue: usize,
    /// number of packets the liveness oracle demanded (premise discharged by the counting argument)
    liveness_claims: usize,
    /// … of which with a duplicate of one of its own frames or a frame of another stream before completion
    liveness_claims_disturbed: usize,
}

/// run one schedule against the implementation and (optionally) the model, apply the spec oracle
fn run_schedule(s: &Schedule, lean: &mut Option<&mut Lean>) -> Outcome {
    let mut out = Outcome { disagree: None, spec: vec![], labels: vec![], emitted_from_queue: 0, liveness_claims: 0, liveness_claims_disturbed: 0 };
    let mut d = match catch(|| Defragmenter::new_unobserved(s.queues)) {
        Ok(d) => d,
        Err(m) => {
            out.spec.push(("C17:panic".into(), format!("Defragmenter::new panicked: {m}")));
            return out;
        }
    };
    if let Some(l) = lean.as_mut() {
        l.ask(&format!("new {}", s.queues));
    }
    let honest = !s.sent.is_empty();
    // frames fed so far, by stream offset: (index in the schedule, frame_offset, payload)
    let mut fed: HashMap<u64, Vec<(usize, usize, &[u8])>> = HashMap::new();
    // indices at which a stream offset was emitted from a reassembly queue / on the fast path
    let mut q_emits: HashMap<u64, Vec<usize>> = HashMap::new();
    let mut fast_emits: HashMap<u64, usize> = HashMap::new();
    for (i, f) in s.frames.iter().enumerate() {
        let r = catch(|| d.recv(f).map(|o| o.map(|p| (p.stream_offset, p.payload.to_vec()))));
        if let Some((so, fo, _)) = hd(f) {
            fed.entry(so).or_default().push((i, fo, &f[HDR..]));
        }
        let single = is_fast(f);
        if let Ok(Ok(Some((so, p)))) = &r {
            // integrity
            if single {
                if hd(f).map(|h| h.0) != Some(*so) || &f[HDR..] != &p[..] {
                    out.spec.push(("C17:integrity".into(), format!("single-frame packet emitted for frame #{i} is not that frame's payload / stream offset")));
                }
            } else {
                out.emitted_from_queue += 1;
                let since = q_emits.get(so).and_then(|v| v.last().copied());
                let frames: Vec<&(usize, usize, &[u8])> =
                    fed.get(so).map(|v| v.iter().filter(|(k, _, _)| since.map_or(true, |e| *k > e)).collect()).unwrap_or_default();
                let mut bad = None;
                for (pos, b) in p.iter().enumerate() {
                    if !frames.iter().any(|(_, fo, pl)| *fo <= pos && pos < fo + pl.len() && pl[pos - fo] == *b) {
                        bad = Some(pos);
                        break;
                    }
                }
                if let Some(pos) = bad {
                    out.spec.push((
                        "C17:integrity".into(),
                        format!("emitted packet stream_offset={so} len={} has byte at {pos} that was never received in a frame of that packet (frame #{i})", p.len()),
                    ));
                }
            }
            if honest {
                match s.sent.get(so) {
                    Some(orig) if orig == p => {}
                    Some(orig) => out.spec.push((
                        "C17:honest-identical".into(),
                        format!("honest packet stream_offset={so} sent {} B, emitted {} B differing", orig.len(), p.len()),
                    )),
                    None => out.spec.push(("C17:honest-identical".into(), format!("emitted unknown stream offset {so}"))),
                }
                // at most once
                if single {
                    let n = fast_emits.entry(*so).or_insert(0);
                    *n += 1;
                    if *n > 1 {
                        out.spec.push(("C17:at-most-once:single-frame-duplicate".into(), format!("single-frame packet stream_offset={so} emitted {} times (frame #{i})", *n)));
                    }
                } else if let Some(prev) = q_emits.get(so).and_then(|v| v.last().copied()) {
                    let n = q_emits[so].len() + 1;
                    // was the whole packet delivered again after the previous emission, and was a frame of
                    // another multi-frame packet fed in between (only such a frame can reclaim the idle slot)?
                    let offs: HashSet<usize> = s.sent_offs.get(so).map(|v| v.iter().copied().collect()).unwrap_or_default();
                    let again: HashSet<usize> = fed[so].iter().filter(|(k, _, _)| *k > prev).map(|(_, fo, _)| *fo).collect();
                    let whole_dup = !offs.is_empty() && offs.is_subset(&again);
                    let foreign_between = s.frames[prev + 1..i].iter().any(|g| !is_fast(g) && hd(g).map_or(false, |h| h.0 != *so));
                    let key = if whole_dup && foreign_between {
                        "C17:at-most-once:whole-packet-duplicated"
                    } else if whole_dup {
                        "C17:at-most-once:slot-not-reclaimed"
                    } else {
                        "C17:at-most-once"
                    };
                    out.spec.push((key.into(), format!("packet stream_offset={so} emitted {n} times (frames #{prev} and #{i})")));
                }
            }
            if !single {
                q_emits.entry(*so).or_default().push(i);
            }
        } else if honest && single && r.is_ok() {
            out.spec.push(("C17:complete-not-emitted:single-frame".into(), format!("honest single-frame packet (frame #{i}) not emitted")));
        }
        if r.is_err() {
            out.spec.push(("C17:panic".into(), format!("recv panicked on frame #{i}")));
        }
        let io = impl_out(r);
        out.labels.push(io.split(' ').take(if io.starts_with("err") { 2 } else { 1 }).collect::<Vec<_>>().join(" "));
        if let Some(l) = lean.as_mut() {
            let mo = l.ask(&format!("recv {}", hex(f)));
            if l.differs(&mo, &io) && out.disagree.is_none() {
                let cut = |s: &str| if s.len() > 160 { format!("{}…", &s[..160]) } else { s.to_string() };
                out.disagree = Some((i, cut(&io), cut(&mo)));
            }
        }
    }
    // liveness of every honest multi-frame packet whose slot cannot have been reclaimed (see module doc)
    if honest && s.queues >= 1 {
        // first/last index of a multi-frame frame per stream
        let multi: Vec<(usize, u64)> = s.frames.iter().enumerate().filter(|(_, f)| !is_fast(f)).filter_map(|(i, f)| hd(f).map(|h| (i, h.0))).collect();
        for (so, offs) in &s.sent_offs {
            if offs.len() < 2 {
                continue;
            }
            let want: HashSet<usize> = offs.iter().copied().collect();
            let mut seen: HashSet<usize> = HashSet::new();
            let (mut t0, mut t1) = (None, None);
            let mut disturbed = false;
            for (k, fo, _) in fed.get(so).map(|v| v.as_slice()).unwrap_or(&[]) {
                if t0.is_none() {
                    t0 = Some(*k);
                }
                if !seen.insert(*fo) {
                    disturbed = true;
                }
                if seen.is_superset(&want) {
                    t1 = Some(*k);
                    break;
                }
            }
            let (Some(t0), Some(t1)) = (t0, t1) else { continue };
            let mut holders: HashSet<u64> = HashSet::new();
            for (k, x) in &multi {
                if *k > t1 || x == so {
                    continue;
                }
                if *k > t0 {
                    disturbed = true;
                }
                holders.insert(*x);
            }
            let competing = holders
                .iter()
                .filter(|x| {
                    // retired: emitted from a queue before t0 and no multi-frame frame of it fed since (up to t1)
                    let e = q_emits.get(x).and_then(|v| v.iter().copied().filter(|e| *e < t0).max());
                    !e.map_or(false, |e| !multi.iter().any(|(k, y)| y == *x && *k > e && *k <= t1))
                })
                .count();
            if competing + 1 > s.queues {
                continue;
            }
            out.liveness_claims += 1;
            if disturbed {
                out.liveness_claims_disturbed += 1;
            }
            if !q_emits.get(so).map_or(false, |v| v.contains(&t1)) {
                let key = if *so == u64::MAX { "C17:complete-not-emitted:stream-offset-u64-max" } else { "C17:complete-not-emitted" };
                out.spec.push((
                    key.into(),
                    format!(
                        "packet stream_offset={so}: first frame #{t0}, all {} frames delivered by frame #{t1}, at most {competing} other packets can hold one of the {} slots, but it was not emitted at frame #{t1} (result there: {})",
                        want.len(), s.queues, out.labels[t1]
                    ),
                ));
            }
        }
    }
    out
}

fn sizes_interesting(rng: &mut Rng, p: usize) -> usize {
    let c = [1, 2, p - 1, p, p + 1, 2 * p - 1, 2 * p, 2 * p + 1, 3 * p, 5 * p + 7, MAX_PACKET_SIZE, MAX_PACKET_SIZE - 1];
    let v = if rng.chance(2, 3) { *rng.pick(&c) } else { rng.range(1, (p * 12) as u64) as usize };
    v.clamp(1, MAX_PACKET_SIZE)
}

fn mtu_interesting(rng: &mut Rng) -> usize {
    let c = [0, 1, MIN_MTU - 1, MIN_MTU, MIN_MTU + 1, 300, 1280, 1500, MAX_MTU - 1, MAX_MTU, MAX_MTU + 1, 70000];
    if rng.chance(2, 3) { *rng.pick(&c) } else { rng.range(MIN_MTU as u64, MAX_MTU as u64) as usize }
}

/// stream offsets an honest sender reaches only after sending that many bytes (set through the
/// `verif_set_stream_offset` hook): around the u64 wrap, where `wrapping_add` matters and where the
/// never-used sentinel `u64::MAX` of the reassembly queues lives
fn start_offset(rng: &mut Rng) -> u64 {
    match rng.below(8) {
        0 => u64::MAX,
        1 => u64::MAX - 1,
        2 => u64::MAX - rng.below(600),
        3 => u64::MAX - rng.below(70_000),
        4 => u64::MAX - 65_535 - rng.below(70_000),
        5 => 1u64 << 63,
        6 => (1u64 << 32) - 1 - rng.below(300),
        _ => rng.next(),
    }
}

/// honest schedule; also checks the Fragmenter against the model (`fsend`) and its own spec
fn gen_honest(rng: &mut Rng, rep: &mut Report, lean: &mut Lean) -> Schedule {
    let queues = *rng.pick(&[1usize, 1, 2, 2, 2, 3, 3, 4, 5, 6, 9, 0]);
    // 0..3: windows of ≤ Q packets (in order / reversed / shuffled / shuffled + duplicates + loss);
    // 4, 5: overload – Q+1 or Q+2 multi-frame packets in flight at once, frames interleaved round-robin
    // (4) or shuffled with duplicates (5): eviction must choose among several busy queues
    let mode = rng.below(6);
    let overload = mode >= 4;
    let npk = if overload { queues + 1 + rng.below(3) as usize } else { rng.range(1, (queues + 3) as u64) as usize };
    let mtu0 = mtu_interesting(rng);
    let mut fr = Fragmenter::new_unobserved(mtu0);
    let lm = lean.ask(&format!("fnew {mtu0}"));
    if lean.differs(&lm, &format!("mtu {}", fr.mtu())) {
        rep.disagree("fragmenter-mtu", json!({"mtu": mtu0}), &format!("mtu {}", fr.mtu()), &lm);
    }
    if rng.chance(1, 3) {
        let so = start_offset(rng);
        fr.verif_set_stream_offset(so);
        let lm = lean.ask(&format!("fso {so}"));
        if lean.differs(&lm, "ok") {
            rep.disagree("fragmenter", json!({"set_stream_offset": so.to_string()}), "ok", &lm);
        }
        rep.hit(if so > u64::MAX - 70_000 { "honest start offset within 70000 of u64::MAX" } else { "honest start offset large" });
    }
    let mut packets: Vec<(u64, Vec<Vec<u8>>)> = vec![];
    let mut sent = HashMap::new();
    let mut sent_offs = HashMap::new();
    let big = rng.chance(1, 6);
    for _ in 0..npk {
        if rng.chance(1, 3) {
            let m = mtu_interesting(rng);
            fr.set_mtu(m);
            let lm = lean.ask(&format!("fsetmtu {m}"));
            if lean.differs(&lm, &format!("mtu {}", fr.mtu())) {
                rep.disagree("fragmenter-mtu", json!({"mtu": m}), &format!("mtu {}", fr.mtu()), &lm);
            }
        }
        let p = fr.mtu() - HDR;
        let mut size = sizes_interesting(rng, p);
        if !big && size > 6 * p {
            size = size % (6 * p) + 1;
        }
        if overload && size <= p {
            size = (p + 1 + rng.below(2 * p as u64) as usize).min(MAX_PACKET_SIZE);
        }
        // oversize packets are rejected by both (and do not advance the stream offset)
        if rng.chance(1, 12) {
            let over = *rng.pick(&[MAX_PACKET_SIZE + 1, MAX_PACKET_SIZE + 2, 70_000, 2 * MAX_PACKET_SIZE + 1]);
            let mut n = 0usize;
            let r = catch(|| fr.send(&vec![0u8; over], |_| n += 1));
            let lm = lean.ask(&format!("fsendlen {over}"));
            let im = match &r {
                Ok(Err(FragmenterSendError::PacketTooLarge)) if n == 0 => "err too_large".to_string(),
                other => format!("{other:?} after {n} frames"),
            };
            rep.hit("oversize packet sent");
            if im != "err too_large" {
                rep.spec_fail("C17:fragmenter-accepts-oversize", &format!("Fragmenter::send on {over} bytes: {im}"), json!({"size": over}));
            }
            if lean.differs(&lm, &im) {
                rep.disagree("fragmenter", json!({"oversize": over}), &im, &lm);
            }
        }
        let data = rng.bytes(size);
        let mut frames = vec![];
        let r = catch(|| fr.send(&data, |f| frames.push(f.to_vec())));
        let so = match r {
            Ok(Ok(so)) => so,
            Err(m) => {
                rep.spec_fail("C17:panic", &format!("Fragmenter::send panicked on {size} bytes: {m}"), json!({"size": size, "mtu": fr.mtu()}));
                lean.ask(&format!("fsend {}", hex(&data)));
                continue;
            }
            Ok(Err(e)) => {
                rep.spec_fail("C17:fragmenter-rejects", &format!("Fragmenter::send failed on {size} bytes: {e:?}"), json!({"size": size}));
                lean.ask(&format!("fsend {}", hex(&data)));
                continue;
            }
        };
        // model of the fragmenter
        let lm = lean.ask(&format!("fsend {}", hex(&data)));
        let im = format!("frames {so} {}{}", frames.len(), frames.iter().map(|f| format!(" {}", hex(f))).collect::<String>());
        if lean.differs(&lm, &im) {
            rep.disagree("fragmenter", json!({"mtu": fr.mtu(), "size": size, "stream_offset": so.to_string()}), &im[..im.len().min(120)], &lm[..lm.len().min(120)]);
        }
        // fragmenter spec: ≤ MAX_FRAMES frames, each ≤ mtu, payloads concatenate to data, offsets = prefix sums,
        // every frame carries the packet's stream offset; stream offsets advance by the packet length (mod 2^64)
        let mut cat = vec![];
        for (k, f) in frames.iter().enumerate() {
            let (fso, fo, last) = hd(f).unwrap();
            if fso != so || fo != cat.len() || last != (k == frames.len() - 1) || f.len() > fr.mtu() {
                rep.spec_fail("C17:fragmenter-shape", "stream offset / frame offset / LAST flag / size wrong", json!({"mtu": fr.mtu(), "size": size, "frame": k}));
            }
            cat.extend_from_slice(&f[HDR..]);
        }
        if cat != data || frames.len() > 256 {
            rep.spec_fail("C17:fragmenter-shape", "payloads do not concatenate to the packet or too many frames", json!({"mtu": fr.mtu(), "size": size}));
        }
        if let Some((pso, pf)) = packets.last() {
            let plen: usize = pf.iter().map(|f| f.len() - HDR).sum();
            if so != pso.wrapping_add(plen as u64) {
                rep.spec_fail("C17:fragmenter-shape", "stream offset did not advance by the previous packet's length (mod 2^64)", json!({"prev": pso.to_string(), "len": plen, "next": so.to_string()}));
            }
            if so < *pso {
                rep.hit("honest stream offset wrapped around u64");
            }
        }
        if so == u64::MAX {
            rep.hit("honest packet at stream offset u64::MAX");
        }
        rep.hit(&format!("honest frames/packet {}", match frames.len() { 1 => "1", 2 => "2", 3..=8 => "3-8", _ => "9+" }));
        sent.insert(so, data);
        sent_offs.insert(so, frames.iter().map(|f| hd(f).unwrap().1).collect::<Vec<_>>());
        packets.push((so, frames));
    }
    // empty packets are rejected by both
    if rng.chance(1, 10) {
        let r = fr.send(&[], |_| {});
        let lm = lean.ask("fsend -");
        if !(matches!(r, Err(FragmenterSendError::EmptyPacket)) && !lean.differs(&lm, "err empty")) {
            rep.disagree("fragmenter", json!("empty packet"), &format!("{r:?}"), &lm);
        }
    }
    let mut frames: Vec<Vec<u8>> = vec![];
    let wsize = if overload { packets.len().max(1) } else { queues.max(1) };
    for win in packets.chunks(wsize) {
        let mut w: Vec<Vec<u8>> = vec![];
        if mode == 4 {
            // round-robin: frame k of every packet of the window, then frame k+1, …
            let longest = win.iter().map(|(_, fs)| fs.len()).max().unwrap_or(0);
            for k in 0..longest {
                for (_, fs) in win {
                    if let Some(f) = fs.get(k) {
                        w.push(f.clone());
                    }
                }
            }
        } else {
            for (_, fs) in win {
                let mut fs = fs.clone();
                if mode == 1 {
                    fs.reverse();
                }
                if mode == 3 && fs.len() > 1 && rng.chance(1, 8) {
                    let k = rng.below(fs.len() as u64) as usize;
                    fs.remove(k); // lose one frame of this packet
                }
                w.extend(fs);
            }
        }
        if mode == 2 || mode == 3 || mode == 5 {
            rng.shuffle(&mut w);
        }
        if mode == 3 || mode == 5 {
            // the network duplicates some frames (single-frame packets included)
            let n = w.len();
            for k in 0..n {
                if rng.chance(1, 4) {
                    let pos = rng.range(0, w.len() as u64) as usize;
                    let dup = w[k].clone();
                    w.insert(pos, dup);
                }
            }
        }
        frames.extend(w);
    }
    let kind = match mode { 0 => "honest in-order", 1 => "honest reversed", 2 => "honest shuffled", 3 => "honest shuffled+dup+loss", 4 => "honest overload round-robin", _ => "honest overload shuffled+dup" };
    Schedule { kind, queues, frames, sent, sent_offs }
}

/// next permutation of a sequence with repeated elements (lexicographic); false when it was the last one
fn next_perm(v: &mut [usize]) -> bool {
    if v.len() < 2 {
        return false;
    }
    let mut i = v.len() - 1;
    while i > 0 && v[i - 1] >= v[i] {
        i -= 1;
    }
    if i == 0 {
        return false;
    }
    let mut j = v.len() - 1;
    while v[j] <= v[i - 1] {
        j -= 1;
    }
    v.swap(i - 1, j);
    v[i..].reverse();
    true
}

/// exhaustive delivery schedules of small honest packets (real Fragmenter output at the minimum MTU):
/// every permutation of the frames of `frames_per_packet` packets, every permutation with one frame
/// duplicated, every permutation with one frame lost – for every queue count in `queues`
fn gen_exhaustive(rng: &mut Rng, rep: &mut Report, frames_per_packet: &[usize], queues: &[usize], with_dup_drop: bool, out: &mut Vec<Schedule>) {
    let mut fr = Fragmenter::new_unobserved(MIN_MTU);
    if rng.chance(1, 2) {
        fr.verif_set_stream_offset(u64::MAX - rng.below(400));
    }
    let p = MIN_MTU - HDR;
    let mut all: Vec<Vec<u8>> = vec![];
    let mut sent = HashMap::new();
    let mut sent_offs = HashMap::new();
    for n in frames_per_packet {
        let size = (n - 1) * p + rng.range(1, p as u64) as usize;
        let data = rng.bytes(size);
        let mut frames = vec![];
        let so = match catch(|| fr.send(&data, |f| frames.push(f.to_vec()))) {
            Ok(Ok(so)) if frames.len() == *n => so,
            other => {
                rep.spec_fail("C17:panic", &format!("Fragmenter::send of {size} bytes at MTU {MIN_MTU} (stream offset near u64::MAX: {}) panicked or failed: {:?}", sent.keys().next().map_or(true, |k: &u64| *k > u64::MAX - 70_000), other.map(|r| r.ok())), json!({"size": size, "mtu": MIN_MTU}));
                return;
            }
        };
        sent.insert(so, data);
        sent_offs.insert(so, frames.iter().map(|f| hd(f).unwrap().1).collect::<Vec<_>>());
        all.extend(frames);
    }
    let n = all.len();
    let mut multisets: Vec<Vec<usize>> = vec![(0..n).collect()];
    if with_dup_drop {
        for k in 0..n {
            let mut d: Vec<usize> = (0..n).collect();
            d.push(k);
            d.sort();
            multisets.push(d);
            multisets.push((0..n).filter(|x| *x != k).collect());
        }
    }
    for q in queues {
        for ms in &multisets {
            let mut perm = ms.clone();
            loop {
                out.push(Schedule {
                    kind: "exhaustive",
                    queues: *q,
                    frames: perm.iter().map(|k| all[*k].clone()).collect(),
                    sent: sent.clone(),
                    sent_offs: sent_offs.clone(),
                });
                if !next_perm(&mut perm) {
                    break;
                }
            }
        }
    }
}

fn gen_hostile(rng: &mut Rng) -> Schedule {
    let queues = *rng.pick(&[1usize, 1, 2, 2, 3, 4, 0, 7]);
    let n = rng.range(2, 14) as usize;
    let windows = [MIN_PAYLOAD_SIZE, MIN_PAYLOAD_SIZE + 1, 300, 512, 1000, 8984, MIN_PAYLOAD_SIZE - 1];
    let w = *rng.pick(&windows);
    let streams: Vec<u64> = vec![0, 1, 7, 1000, u64::MAX, u64::MAX - 1, rng.next()];
    let nstreams = rng.range(1, 3) as usize;
    let mut frames = vec![];
    for _ in 0..n {
        let extra = if rng.chance(1, 10) { 4 } else { 0 };
        let so = streams[rng.below(nstreams as u64 + extra) as usize % streams.len()];
        if rng.chance(1, 25) {
            let k = rng.below(HDR as u64) as usize;
            frames.push(rng.bytes(k));
            continue;
        }
        let last = rng.chance(1, 3);
        let idx = match rng.below(10) {
            0..=5 => rng.below(5),
            6 => rng.below(260),
            7 => 254,
            8 => 255,
            _ => 65535 / w as u64,
        } as usize;
        let mut fo = idx * w;
        if rng.chance(1, 10) {
            fo = fo.wrapping_add(rng.range(1, 3) as usize);
        }
        let fo = (fo % 65536) as u16;
        let len = if last {
            match rng.below(8) {
                0 => 0,
                1 => 1,
                2 => w,
                3 => w + 1,
                4 => 2 * w,
                5 => (65535usize).saturating_sub(fo as usize),
                6 => (65536usize).saturating_sub(fo as usize),
                _ => rng.range(1, w as u64) as usize,
            }
        } else {
            match rng.below(10) {
                0 => w + 1,
                1 => w - 1,
                2 => 0,
                3 => (65536usize).saturating_sub(fo as usize),
                _ => w,
            }
        };
        let flags = if last { 0x8000 } else { 0 } | if rng.chance(1, 6) { (rng.next() as u16) & 0x7fff } else { 0 };
        let reserved = if rng.chance(1, 6) { rng.next() as u32 } else { 0 };
        let pl = rng.bytes(len.min(65600));
        frames.push(mk_frame(so, fo, flags, &pl, reserved));
    }
    // often precede with an honest packet in the same slot so that stale content is non-zero
    if rng.chance(2, 3) {
        let mut pre = vec![];
        let mut fr = Fragmenter::new_unobserved(w + HDR);
        let k = rng.range(w as u64 + 1, (4 * w) as u64).min(65535) as usize;
        let data = rng.bytes(k);
        let _ = fr.send(&data, |f| pre.push(f.to_vec()));
        // move it to a stream offset not used by the hostile frames
        for f in pre.iter_mut() {
            f[0..8].copy_from_slice(&500_000u64.to_be_bytes());
        }
        pre.extend(frames);
        frames = pre;
    }
    Schedule { kind: "hostile", queues, frames, sent: HashMap::new(), sent_offs: HashMap::new() }
}

/// "count matches, coverage does not": `a` regular frames chosen from a pool that includes indices at and beyond
/// the LAST frame and around the 128-bit word boundary of the receive mask, plus a LAST frame at index `a`
/// (so that the number of received frames equals the expected number) – in random order, after an honest
/// packet has filled the slot with non-zero bytes
fn gen_count_match(rng: &mut Rng) -> Schedule {
    let queues = rng.range(1, 2) as usize;
    let w = *rng.pick(&[MIN_PAYLOAD_SIZE, MIN_PAYLOAD_SIZE + 1, 300]);
    let a = *rng.pick(&[1usize, 2, 2, 3, 3, 4, 5, 126, 127, 128, 129, 130]);
    let mut pool: Vec<usize> = (0..a + 3).collect();
    pool.extend([126usize, 127, 128, 129, 130, 131, 200, 253, 254]);
    pool.sort();
    pool.dedup();
    pool.retain(|i| *i != a && i * w + w <= 65535);
    rng.shuffle(&mut pool);
    // mostly the honest set 0..a with one or two members swapped for others
    let mut chosen: Vec<usize> = (0..a).collect();
    let swaps = rng.range(0, 2);
    for _ in 0..swaps {
        if chosen.is_empty() { break; }
        let k = rng.below(chosen.len() as u64) as usize;
        if let Some(n) = pool.iter().find(|i| !chosen.contains(i)) {
            chosen[k] = *n;
        }
    }
    // one third: a low run 0..a plus a run that starts at the first bit of the second mask word, LAST frame
    // placed so that the count matches (a + b regular frames, LAST at index a + b)
    let mut a = a;
    if rng.chance(1, 3) {
        let lo = rng.range(1, 4) as usize;
        let hi = rng.range(1, 3) as usize;
        chosen = (0..lo).chain(128..128 + hi).collect();
        a = lo + hi;
    }
    let so = 7u64;
    let mut frames: Vec<Vec<u8>> = chosen.iter().map(|i| { let pl = rng.bytes(w); mk_frame(so, (i * w) as u16, 0, &pl, 0) }).collect();
    let last_len = *rng.pick(&[1usize, 10, w - 1, w]);
    if a * w + last_len <= 65535 {
        let pl = rng.bytes(last_len);
        frames.push(mk_frame(so, (a * w) as u16, 0x8000, &pl, 0));
    }
    rng.shuffle(&mut frames);
    // fill the slot first
    let mut pre = vec![];
    let mut fr = Fragmenter::new_unobserved(9000);
    let data = rng.bytes(65535);
    let _ = fr.send(&data, |f| pre.push(f.to_vec()));
    for f in pre.iter_mut() {
        f[0..8].copy_from_slice(&500_000u64.to_be_bytes());
    }
    pre.extend(frames);
    Schedule { kind: "count-match", queues, frames: pre, sent: HashMap::new(), sent_offs: HashMap::new() }
}

/// corpus line: `[honest] <queues> <hexframe> <hexframe> …`.  With the `honest` prefix the frames are copies of
/// real Fragmenter output: the packets sent are reconstructed from them so that the honest-sender oracles apply.
fn parse_corpus_line(l: &str) -> Option<Schedule> {
    let mut it = l.split_whitespace().peekable();
    let honest = it.peek() == Some(&"honest");
    if honest {
        it.next();
    }
    let queues = it.next()?.parse().ok()?;
    let frames: Vec<Vec<u8>> = it.map(unhex).collect::<Option<Vec<_>>>()?;
    let mut sent = HashMap::new();
    let mut sent_offs = HashMap::new();
    if honest {
        let mut by: HashMap<u64, Vec<(usize, &[u8])>> = HashMap::new();
        for f in &frames {
            let (so, fo, _) = hd(f)?;
            let e = by.entry(so).or_default();
            if !e.iter().any(|(o, _)| *o == fo) {
                e.push((fo, &f[HDR..]));
            }
        }
        for (so, mut v) in by {
            v.sort();
            sent.insert(so, v.iter().flat_map(|(_, p)| p.iter().copied()).collect::<Vec<u8>>());
            sent_offs.insert(so, v.iter().map(|(o, _)| *o).collect::<Vec<_>>());
        }
    }
    Some(Schedule { kind: if honest { "corpus honest" } else { "corpus" }, queues, frames, sent, sent_offs })
}

fn sched_json(s: &Schedule) -> serde_json::Value {
    json!({"kind": s.kind, "queues": s.queues, "frames": s.frames.iter().map(|f| {
        match hd(f) {
            Some((so, fo, last)) => json!({"stream": so.to_string(), "frame_offset": fo, "last": last, "len": f.len() - HDR}),
            None => json!({"short": f.len()}),
        }
    }).collect::<Vec<_>>()})
}

/// replayable form (a shrunk honest schedule keeps all frames of the packets the failure is about only if
/// they are needed; the reconstruction in `parse_corpus_line` is from the frames that are left)
fn sched_line(s: &Schedule) -> String {
    format!("{}{} {}", if s.sent.is_empty() { "" } else { "honest " }, s.queues, s.frames.iter().map(|f| hex(f)).collect::<Vec<_>>().join(" "))
}

/// delta-debugging over the frame list
fn shrink(s: &Schedule, lean: &mut Lean, fails: &dyn Fn(&Outcome) -> bool) -> Schedule {
    let mut cur = s.clone();
    let mut chunk = (cur.frames.len() / 2).max(1);
    let mut budget = 200;
    while budget > 0 {
        let mut progressed = false;
        let mut i = 0;
        while i < cur.frames.len() && budget > 0 {
            let mut cand = cur.clone();
            let end = (i + chunk).min(cand.frames.len());
            cand.frames.drain(i..end);
            budget -= 1;
            let o = run_schedule(&cand, &mut Some(lean));
            if !cand.frames.is_empty() && fails(&o) {
                cur = cand;
                progressed = true;
            } else {
                i += chunk;
            }
        }
        if chunk == 1 && !progressed {
            break;
        }
        chunk = (chunk / 2).max(1);
    }
    cur
}

// ------------------------------------------------------------------------------------------------
// e2e stream: the production data path (data/server.rs + data/client_state.rs), both directions
// ------------------------------------------------------------------------------------------------
//
// A real `EdgeTunServerState` and a real `EdgeTunClientState` complete a WireGuard handshake; packets are
// handed to the sending side (`handle_outgoing_packet`), the encrypted datagrams it produces are delivered to
// the receiving side (`handle_incoming_packet`) in the order of the schedule (reordered, interleaved, lost,
// late, duplicated), and what the receiving side hands to the tunnel (`TunnResult::WriteToTunnel`) is judged:
//  * C17:e2e:integrity      every packet handed to the tunnel is byte-identical to a packet that was sent;
//  * C17:e2e:at-most-once   no packet is handed over twice (WireGuard's anti-replay drops exact copies of a
//                           datagram, so neither open finding of the bare reassembler is reachable here: strict);
//  * C17:e2e:not-delivered  liveness by the counting argument of the bare stream: t0 = first, t1 = completing
//                           datagram of a multi-frame packet S (copies of a datagram already delivered do not
//                           count: the transport drops them).  Streams that can hold a slot up to t1 = other
//                           multi-frame packets with a datagram delivered up to t1, except those already handed
//                           to the tunnel before t0.  At most Q-1 of them => no busy slot was ever evicted => S
//                           must be handed over exactly at t1;
//  * C17:e2e:not-delivered:older-packets-cannot-reclaim   the same argument counting only packets sent AFTER S.
//                           A busy slot is reclaimed only for a packet that is given a slot while no slot is
//                           idle, the victim is the oldest busy slot (property record: "eviction of oldest"), and
//                           a packet older than every slot is refused, never given one (module doc of
//                           fragmenting.rs, TooOld).  So S loses its slot only when Q-1 other slots hold newer
//                           packets and one more newer packet arrives: with at most Q-1 newer competitors S must
//                           be handed over at t1, however many OLDER packets' late frames arrive in between;
//  * C17:e2e:not-delivered:single-frame   a single-datagram packet is handed over when it first arrives;
//  * C17:e2e:panic          no call panics.
// Model correspondence: the plaintext frames are recomputed with a `Fragmenter` of the same MTU fed the same
// packets (the sender's is private, its output is encrypted); the frames of the datagrams the transport accepts
// are fed, in arrival order, to the Lean model of the Defragmenter with the receiver's queue count, and the model's
// emissions are compared with what the glue handed to the tunnel.

#[derive(Debug, Clone, Copy, PartialEq, Eq, Hash)]
struct Net(SocketAddr);
impl AsIpAddr for Net {
    fn ip(&self) -> Option<IpAddr> {
        Some(self.0.ip())
    }
}
struct Authz(x25519::PublicKey, IpAddr);
impl EdgeTunAuthz<IpAddr> for Authz {
    fn is_authorized(&self, _now: Instant, identity: &x25519::PublicKey) -> Option<IpAddr> {
        (identity == &self.0).then_some(self.1)
    }
}
struct AllowAll;
impl InboundTrafficPolicy<IpAddr> for AllowAll {
    fn check_inbound_policy(&self, _: &x25519::PublicKey, _: &IpAddr, _: &[u8]) -> bool {
        true
    }
}

/// WireGuard data message: 16 B header + 16 B tag around the plaintext (ana-gotatun does not pad)
const WG_OVERHEAD: usize = 32;
/// WireGuard anti-replay window of ana-gotatun (session.rs N_BITS); schedules stay far below it so that only
/// exact copies are dropped by the transport
const WG_REORDER_WINDOW: usize = 1024;
const E2E_MAX_DATAGRAMS: usize = 600;
const TRIGGER: [u8; 1] = [0xEE];

#[derive(Clone)]
struct E2e {
    kind: String,
    /// true: server sends, client reassembles (`queues` slots); false: client sends, server reassembles
    to_client: bool,
    /// `defrag_queue_counts` of the client
    queues: usize,
    /// MTU / fragment size configured on both sides (clamped to MIN_MTU..MAX_MTU by the Fragmenter)
    mtu: u16,
    seed: u64,
    sizes: Vec<usize>,
    /// delivery schedule: (packet, index of the datagram among those the sender produced for it)
    order: Vec<(usize, usize)>,
}

fn e2e_payload(seed: u64, idx: usize, size: usize) -> Vec<u8> {
    let mut r = Rng::new(seed ^ ((idx as u64 + 1).wrapping_mul(0x9E37_79B9_7F4A_7C15)));
    let mut d = r.bytes(size);
    if let Some(b) = d.first_mut() {
        *b = idx as u8; // packets of one case are pairwise different (fewer than 256 packets per case)
    }
    d
}

fn e2e_line(c: &E2e) -> String {
    format!(
        "e2e {} {} {} {} {} {}",
        if c.to_client { "s2c" } else { "c2s" },
        c.queues,
        c.mtu,
        c.seed,
        if c.sizes.is_empty() { "-".to_string() } else { c.sizes.iter().map(|s| s.to_string()).collect::<Vec<_>>().join(",") },
        c.order.iter().map(|(p, f)| format!("{p}.{f}")).collect::<Vec<_>>().join(" ")
    )
}

fn parse_e2e_line(l: &str) -> Option<E2e> {
    let mut it = l.split_whitespace();
    if it.next()? != "e2e" {
        return None;
    }
    let to_client = match it.next()? {
        "s2c" => true,
        "c2s" => false,
        _ => return None,
    };
    let queues = it.next()?.parse().ok()?;
    let mtu = it.next()?.parse().ok()?;
    let seed = it.next()?.parse().ok()?;
    let sz = it.next()?;
    let sizes = if sz == "-" { vec![] } else { sz.split(',').map(|x| x.parse().ok()).collect::<Option<Vec<usize>>>()? };
    let order = it
        .map(|t| {
            let (a, b) = t.split_once('.')?;
            Some((a.parse().ok()?, b.parse().ok()?))
        })
        .collect::<Option<Vec<(usize, usize)>>>()?;
    Some(E2e { kind: "corpus e2e".into(), to_client, queues, mtu, seed, sizes, order })
}

/// queue count of the per-tunnel Defragmenter of the server, read from the source the harness is built against
fn server_queue_count() -> Option<usize> {
    let src = std::fs::read_to_string("/repo/crates/libs/anapaya-edge-tun/src/data/server.rs").ok()?;
    let mut found: Vec<usize> = vec![];
    let pat = "Defragmenter::new(";
    let code = src.split("#[cfg(test)]").next().unwrap_or(&src);
    let mut rest = code;
    while let Some(i) = rest.find(pat) {
        rest = &rest[i + pat.len()..];
        let arg: String = rest.chars().take_while(|c| *c != ',').collect();
        found.push(arg.trim().replace('_', "").parse().ok()?);
    }
    if found.len() == 1 { Some(found[0]) } else { None }
}

struct Pair {
    srv: EdgeTunServerState<Authz, AllowAll, Net, IpAddr>,
    client: EdgeTunClientState<Net>,
    pool: EdgePacketBufPool,
    taddr: IpAddr,
}

enum Rx {
    Pkt(Vec<u8>),
    Done,
    Err(String),
    Other(String),
}

fn e2e_net() -> Net {
    Net("127.0.0.1:51820".parse().unwrap())
}

impl Pair {
    fn new(mtu: u16, client_queues: usize) -> Pair {
        let keypair = |seed: u8| {
            let mut k = [0u8; 32];
            k[1] = seed;
            let s = x25519::StaticSecret::from(k);
            let p = x25519::PublicKey::from(&s);
            (s, p)
        };
        let pool = EdgePacketBufPool::new(16);
        let (server_secret, server_public) = keypair(1);
        let (client_secret, client_public) = keypair(2);
        let taddr = IpAddr::V4(Ipv4Addr::new(10, 0, 0, 1));
        // the metrics registry type is not a dependency of the harness crate: `Default` is inferred
        let srv = EdgeTunServerState::new(
            server_secret,
            Arc::new(RateLimiter::new(&server_public, 100)),
            Arc::new(Authz(client_public, taddr)),
            Arc::new(AllowAll),
            pool.clone(),
            mtu,
            FragmentMetrics::new(&Default::default()),
            DefragmentMetrics::new(&Default::default()),
        );
        let client = EdgeTunClientState::new(
            pool.clone(),
            EdgeTunClientConfig {
                peer_static: server_public,
                static_secret: client_secret,
                rate_limit: 100,
                mtu,
                defrag_queue_counts: client_queues,
                persistent_keep_alive: None,
            },
            FragmentMetrics::new(&Default::default()),
            DefragmentMetrics::new(&Default::default()),
        );
        Pair { srv, client, pool, taddr }
    }

    fn packet(&self, payload: &[u8]) -> Packet {
        if payload.len() > 60000 {
            return Packet::from_bytes(bytes::BytesMut::from(payload));
        }
        let mut p = self.pool.get();
        let buf = p.buf_mut();
        buf.truncate(0);
        buf.extend_from_slice(payload);
        p
    }

    /// client -> init, server -> response, client -> the queued trigger packet (confirms the session)
    fn handshake(&mut self) -> Result<(), String> {
        let mut cq = VecDeque::new();
        self.client.handle_outgoing_packet(self.packet(&TRIGGER), &mut cq);
        let init = cq.pop_front().ok_or("client produced no handshake initiation")?;
        let mut sq = VecDeque::new();
        let r = self.srv.handle_incoming_packet(e2e_net(), Packet::from(init).into_bytes(), &mut sq);
        if !matches!(r, TunnResult::Done) {
            return Err(format!("server on handshake initiation: {r:?}"));
        }
        let resp = sq.pop_front().ok_or("server produced no handshake response")?;
        let mut cq = VecDeque::new();
        let r = self.client.handle_incoming_packet(e2e_net(), Packet::from(resp).into_bytes(), &mut cq);
        if !matches!(r, TunnResult::Done) {
            return Err(format!("client on handshake response: {r:?}"));
        }
        let mut got = vec![];
        for wg in cq {
            let mut sq = VecDeque::new();
            if let TunnResult::WriteToTunnel(p) = self.srv.handle_incoming_packet(e2e_net(), Packet::from(wg).into_bytes(), &mut sq) {
                got.push(p.to_vec());
            }
        }
        if got != vec![TRIGGER.to_vec()] {
            return Err(format!("the packet that triggered the handshake was not handed to the server's tunnel exactly once ({} deliveries)", got.len()));
        }
        Ok(())
    }

    /// hand one packet to the sending side; the datagrams it wants on the network
    fn send(&mut self, to_client: bool, data: &[u8]) -> Result<Vec<Vec<u8>>, String> {
        let pkt = self.packet(data);
        let mut out = vec![];
        let mut bad = None;
        let mut take = |wg: WgKind| {
            if !matches!(wg, WgKind::Data(_)) {
                bad = Some("sender produced a WireGuard message that is not a data message");
            }
            out.push(Packet::from(wg).into_bytes().to_vec());
        };
        if to_client {
            let mut q: VecDeque<(Net, WgKind)> = VecDeque::new();
            self.srv.handle_outgoing_packet(pkt, &self.taddr, &mut q);
            q.into_iter().for_each(|(_, wg)| take(wg));
        } else {
            let mut q: VecDeque<WgKind> = VecDeque::new();
            self.client.handle_outgoing_packet(pkt, &mut q);
            q.into_iter().for_each(|wg| take(wg));
        }
        match bad {
            Some(m) => Err(m.into()),
            None => Ok(out),
        }
    }

    /// deliver one datagram to the receiving side
    fn deliver(&mut self, to_client: bool, datagram: &[u8]) -> Rx {
        let pkt = Packet::from_bytes(bytes::BytesMut::from(datagram));
        let mut q = VecDeque::new();
        let r = if to_client { self.client.handle_incoming_packet(e2e_net(), pkt, &mut q) } else { self.srv.handle_incoming_packet(e2e_net(), pkt, &mut q) };
        match r {
            TunnResult::WriteToTunnel(p) => Rx::Pkt(p.to_vec()),
            TunnResult::Done => Rx::Done,
            TunnResult::Err(e) => Rx::Err(format!("{e:?}")),
            TunnResult::WriteToNetwork(_) => Rx::Other("WriteToNetwork".into()),
        }
    }
}

#[derive(Default)]
struct E2eOut {
    spec: Vec<(String, String)>,
    disagree: Option<(usize, String, String)>,
    /// per delivery step
    labels: Vec<String>,
    frames_per_packet: Vec<usize>,
    handed_over: usize,
    handed_over_reassembled: usize,
    complete_not_handed_over: usize,
    dup_dropped: usize,
    claims: usize,
    claims_older_only: usize,
    claims_disturbed: usize,
    singles_claimed: usize,
    model_frames: usize,
}

fn run_e2e(c: &E2e, lean: &mut Option<&mut Lean>, server_q: Option<usize>) -> E2eOut {
    let mut out = E2eOut::default();
    let dir = if c.to_client { "server->client" } else { "client->server" };
    let q_eff = if c.to_client { Some(c.queues) } else { server_q };
    let mut pair = match catch(|| Pair::new(c.mtu, c.queues)) {
        Ok(p) => p,
        Err(m) => {
            out.spec.push(("C17:e2e:panic".into(), format!("constructing the server/client state (mtu {}, {} queues) panicked: {m}", c.mtu, c.queues)));
            return out;
        }
    };
    match catch(|| pair.handshake()) {
        Ok(Ok(())) => {}
        Ok(Err(m)) => {
            out.spec.push(("C17:e2e:handshake".into(), m));
            return out;
        }
        Err(m) => {
            out.spec.push(("C17:e2e:panic".into(), format!("handshake panicked: {m}")));
            return out;
        }
    }
    // plaintext frames, recomputed: same MTU, same packets in the same order (the client's fragmenter has
    // already sent the trigger packet)
    let mut shadow = Fragmenter::new_unobserved(c.mtu as usize);
    let mut trigger_frame = vec![];
    if !c.to_client {
        let _ = shadow.send(&TRIGGER, |f| trigger_frame = f.to_vec());
    }
    let mut sent: Vec<Vec<u8>> = vec![];
    let mut grams: Vec<Vec<Vec<u8>>> = vec![];
    let mut frames: Vec<Vec<Vec<u8>>> = vec![];
    let mut shape_ok = true;
    for (i, size) in c.sizes.iter().enumerate() {
        let data = e2e_payload(c.seed, i, *size);
        let g = match catch(|| pair.send(c.to_client, &data)) {
            Ok(Ok(g)) => g,
            Ok(Err(m)) => {
                out.spec.push(("C17:e2e:sender-output".into(), format!("{dir}: packet #{i} ({size} B): {m}")));
                shape_ok = false;
                vec![]
            }
            Err(m) => {
                out.spec.push(("C17:e2e:panic".into(), format!("{dir}: handle_outgoing_packet panicked on packet #{i} ({size} B, mtu {}): {m}", c.mtu)));
                shape_ok = false;
                vec![]
            }
        };
        let mut fs: Vec<Vec<u8>> = vec![];
        let _ = shadow.send(&data, |f| fs.push(f.to_vec()));
        if g.len() != fs.len() || g.iter().zip(&fs).any(|(d, f)| d.len() != f.len() + WG_OVERHEAD) {
            if shape_ok {
                out.spec.push((
                    "C17:e2e:sender-shape".into(),
                    format!("{dir}: packet #{i} ({size} B, mtu {}): the sender produced {} datagrams of sizes {:?}, a Fragmenter of that MTU yields {} frames of sizes {:?} (+{WG_OVERHEAD} each)", c.mtu, g.len(), g.iter().map(|d| d.len()).take(6).collect::<Vec<_>>(), fs.len(), fs.iter().map(|f| f.len()).take(6).collect::<Vec<_>>()),
                ));
            }
            shape_ok = false;
        }
        out.frames_per_packet.push(g.len());
        sent.push(data);
        grams.push(g);
        frames.push(fs);
    }
    let total: usize = grams.iter().map(|g| g.len()).sum();
    if total + 2 >= WG_REORDER_WINDOW {
        out.spec.push(("C17:e2e:harness-limit".into(), format!("{total} datagrams in one session: beyond the transport's reorder window, the oracle's transport model does not hold")));
        return out;
    }
    let mut use_model = shape_ok && q_eff.is_some();
    if let (true, Some(l)) = (use_model, lean.as_mut()) {
        l.ask(&format!("new {}", q_eff.unwrap()));
        if !c.to_client {
            let mo = l.ask(&format!("recv {}", hex(&trigger_frame)));
            if l.differs(&mo, &format!("pkt 0 {}", hex(&TRIGGER))) {
                out.disagree = Some((0, "trigger packet handed to the tunnel".into(), mo));
            }
        }
    } else {
        use_model = false;
    }
    // ---- delivery ----
    let n = sent.len();
    let mut seen: HashSet<(usize, usize)> = HashSet::new();
    // accepted deliveries (first copies) per packet: (step, datagram index)
    let mut acc: Vec<Vec<(usize, usize)>> = vec![vec![]; n];
    // steps at which packet i was handed to the tunnel
    let mut handed: Vec<Vec<usize>> = vec![vec![]; n];
    for (k, (p, f)) in c.order.iter().enumerate() {
        let Some(d) = grams.get(*p).and_then(|g| g.get(*f)) else {
            out.labels.push("skipped (no such datagram)".into());
            continue;
        };
        let first = seen.insert((*p, *f));
        let r = catch(|| pair.deliver(c.to_client, d));
        let mut got: Option<Vec<u8>> = None;
        let label = match r {
            Err(m) => {
                out.spec.push(("C17:e2e:panic".into(), format!("{dir}: handle_incoming_packet panicked at step #{k} (datagram {p}.{f}): {m}")));
                "panic".to_string()
            }
            Ok(Rx::Pkt(b)) => {
                got = Some(b);
                String::new()
            }
            Ok(Rx::Done) => if first { "done".into() } else { "copy: done".into() },
            Ok(Rx::Err(e)) => {
                if first {
                    out.spec.push(("C17:e2e:transport-rejected".into(), format!("{dir}: step #{k}: the first copy of datagram {p}.{f} was rejected by the transport ({e}); the oracle assumes only exact copies are dropped")));
                }
                if first { format!("err {e}") } else { format!("copy: err {e}") }
            }
            Ok(Rx::Other(e)) => {
                out.spec.push(("C17:e2e:unexpected-result".into(), format!("{dir}: step #{k} (datagram {p}.{f}): {e}")));
                e
            }
        };
        if first {
            acc[*p].push((k, *f));
        } else {
            out.dup_dropped += 1;
        }
        let label = if let Some(b) = &got {
            out.handed_over += 1;
            match sent.iter().position(|s| s == b) {
                Some(i) => {
                    handed[i].push(k);
                    if grams[i].len() > 1 {
                        out.handed_over_reassembled += 1;
                    }
                    if handed[i].len() > 1 {
                        out.spec.push(("C17:e2e:at-most-once".into(), format!("{dir}: packet #{i} ({} B, {} datagrams) handed to the tunnel {} times (steps {:?})", sent[i].len(), grams[i].len(), handed[i].len(), handed[i])));
                    }
                    if !first {
                        out.spec.push(("C17:e2e:at-most-once".into(), format!("{dir}: step #{k}: a second copy of datagram {p}.{f} made the receiver hand packet #{i} to the tunnel")));
                    }
                    format!("{}pkt #{i}", if first { "" } else { "copy: " })
                }
                None => {
                    let s = &sent[*p];
                    let pos = s.iter().zip(b.iter()).position(|(x, y)| x != y);
                    out.spec.push((
                        "C17:e2e:integrity".into(),
                        format!("{dir}: step #{k} (datagram {p}.{f}): {} B handed to the tunnel that are not a packet that was sent (packet #{p} has {} B; first differing byte at {:?})", b.len(), s.len(), pos),
                    ));
                    "pkt UNKNOWN".to_string()
                }
            }
        } else {
            label
        };
        // model: only datagrams the transport accepts reach the reassembler
        if use_model && first {
            if let Some(l) = lean.as_mut() {
                let mo = l.ask(&format!("recv {}", hex(&frames[*p][*f])));
                out.model_frames += 1;
                let model_pkt = mo.strip_prefix("pkt ").and_then(|r| r.split_once(' ')).map(|(_, h)| h.to_string());
                let agrees = match (&model_pkt, &got) {
                    (Some(h), Some(b)) => *h == hex(b),
                    (None, None) => mo == "none" || mo.starts_with("err "),
                    _ => false,
                };
                if l.enabled && !agrees && out.disagree.is_none() {
                    let cut = |s: &str| if s.len() > 120 { format!("{}…", &s[..120]) } else { s.to_string() };
                    out.disagree = Some((k, cut(&label), cut(&mo)));
                }
            }
        }
        out.labels.push(label);
    }
    // ---- liveness ----
    for i in 0..n {
        let nf = grams[i].len();
        if nf == 0 || acc[i].is_empty() {
            continue;
        }
        if nf == 1 {
            out.singles_claimed += 1;
            let t = acc[i][0].0;
            if !handed[i].contains(&t) {
                out.spec.push(("C17:e2e:not-delivered:single-frame".into(), format!("{dir}: packet #{i} ({} B, one datagram) arrived at step #{t} and was not handed to the tunnel there ({})", sent[i].len(), out.labels[t])));
            }
            continue;
        }
        if acc[i].len() < nf {
            continue;
        }
        let t0 = acc[i][0].0;
        let t1 = acc[i].last().unwrap().0;
        if !handed[i].contains(&t1) {
            out.complete_not_handed_over += 1;
        }
        let Some(q) = q_eff else { continue };
        if q == 0 {
            continue;
        }
        let mut all = 0usize;
        let mut newer = 0usize;
        let mut disturbed = false;
        for j in 0..n {
            if j == i || grams[j].len() < 2 {
                continue;
            }
            let Some(first_j) = acc[j].first().map(|x| x.0) else { continue };
            if first_j > t1 {
                continue;
            }
            if acc[j].iter().any(|(k, _)| *k > t0 && *k < t1) {
                disturbed = true;
            }
            // retired: handed to the tunnel before t0 (all its datagrams are then copies the transport drops)
            if handed[j].iter().any(|k| *k < t0) {
                continue;
            }
            all += 1;
            if j > i {
                newer += 1;
            }
        }
        let key = if all + 1 <= q {
            "C17:e2e:not-delivered"
        } else if newer + 1 <= q {
            out.claims_older_only += 1;
            "C17:e2e:not-delivered:older-packets-cannot-reclaim"
        } else {
            continue;
        };
        out.claims += 1;
        if disturbed {
            out.claims_disturbed += 1;
        }
        if !handed[i].contains(&t1) {
            out.spec.push((
                key.into(),
                format!(
                    "{dir}, {q} reassembly slots: packet #{i} ({} B, {nf} datagrams): first datagram at step #{t0}, all {nf} delivered by step #{t1}; {all} other packets can hold a slot up to then, {newer} of them sent after it; it was not handed to the tunnel at step #{t1} (result there: {}; handed over at steps {:?})",
                    sent[i].len(), out.labels[t1], handed[i]
                ),
            ));
        }
    }
    out
}

fn e2e_json(c: &E2e, o: &E2eOut) -> serde_json::Value {
    json!({
        "stream": "e2e", "kind": c.kind, "direction": if c.to_client { "server->client (client reassembles)" } else { "client->server (server reassembles)" },
        "client_queues": c.queues, "mtu": c.mtu, "packet_sizes": c.sizes, "datagrams_per_packet": o.frames_per_packet,
        "schedule (packet.datagram)": c.order.iter().map(|(p, f)| format!("{p}.{f}")).collect::<Vec<_>>().join(" "),
        "results": o.labels, "line": e2e_line(c),
    })
}

/// delta-debugging over the delivery schedule, then over trailing packets
fn shrink_e2e(c: &E2e, server_q: Option<usize>, key: &str) -> E2e {
    let fails = |x: &E2e| run_e2e(x, &mut None, server_q).spec.iter().any(|(k, _)| k == key);
    let mut cur = c.clone();
    let mut chunk = (cur.order.len() / 2).max(1);
    let mut budget = 150;
    while budget > 0 {
        let mut progressed = false;
        let mut i = 0;
        while i < cur.order.len() && budget > 0 {
            let mut cand = cur.clone();
            let end = (i + chunk).min(cand.order.len());
            cand.order.drain(i..end);
            budget -= 1;
            if fails(&cand) {
                cur = cand;
                progressed = true;
            } else {
                i += chunk;
            }
        }
        if chunk == 1 && !progressed {
            break;
        }
        chunk = (chunk / 2).max(1);
    }
    // packets after the last one the schedule mentions are not needed
    let used = cur.order.iter().map(|(p, _)| p + 1).max().unwrap_or(0);
    if used < cur.sizes.len() {
        let mut cand = cur.clone();
        cand.sizes.truncate(used);
        if fails(&cand) {
            cur = cand;
        }
    }
    cur
}

/// number of datagrams the sender is expected to produce (used only to build schedules)
fn e2e_nframes(size: usize, mtu: u16) -> usize {
    let p = (mtu as usize).clamp(MIN_MTU, MAX_MTU) - HDR;
    if size == 0 || size > MAX_PACKET_SIZE { 0 } else { size.div_ceil(p) }
}

fn e2e_mtu(rng: &mut Rng) -> u16 {
    let c = [0usize, 1, MIN_MTU - 1, MIN_MTU, MIN_MTU + 1, 300, 576, 1280, 1420, 1500, MAX_MTU - 1, MAX_MTU, MAX_MTU + 1, 65535];
    (if rng.chance(3, 4) { *rng.pick(&c) } else { rng.range(MIN_MTU as u64, 2000) as usize }) as u16
}

/// boundary-directed packet size for payload size `p` per frame; `multi` forces at least two frames
fn e2e_size(rng: &mut Rng, p: usize, multi: bool, big: bool) -> usize {
    let c = [1, 2, p - 1, p, p + 1, 2 * p - 1, 2 * p, 2 * p + 1, 3 * p, 3 * p + 1, 4 * p + 7, 5 * p];
    let mut v = if rng.chance(2, 3) { *rng.pick(&c) } else { rng.range(1, (6 * p) as u64) as usize };
    if big && rng.chance(1, 2) {
        v = *rng.pick(&[MAX_PACKET_SIZE, MAX_PACKET_SIZE - 1, MAX_PACKET_SIZE + 1, 0, 40 * p, 127 * p + 1, 128 * p, 129 * p]);
        if multi && (v == 0 || v > MAX_PACKET_SIZE) {
            v = MAX_PACKET_SIZE;
        }
    }
    if multi && v <= p {
        v = p + 1 + rng.below(2 * p as u64) as usize;
    }
    v.min(MAX_PACKET_SIZE + 1)
}

fn gen_e2e(rng: &mut Rng, server_q: Option<usize>) -> E2e {
    let to_client = rng.chance(3, 4);
    let queues = if to_client { *rng.pick(&[1usize, 1, 1, 2, 2, 2, 2, 3, 3, 3, 4, 0]) } else { *rng.pick(&[1usize, 2, 8]) };
    let q = if to_client { queues } else { server_q.unwrap_or(8) };
    let mtu = e2e_mtu(rng);
    let p = (mtu as usize).clamp(MIN_MTU, MAX_MTU) - HDR;
    let mode = rng.below(9);
    let big = rng.chance(1, 10);
    let seed = rng.next();
    let mut sizes: Vec<usize> = vec![];
    let mut order: Vec<(usize, usize)> = vec![];
    let all_frames = |sizes: &[usize], i: usize| -> Vec<(usize, usize)> { (0..e2e_nframes(sizes[i], mtu)).map(|f| (i, f)).collect() };
    let kind;
    match mode {
        // windows of at most Q packets in flight: in order / frames reversed / shuffled / shuffled + copies + loss
        0..=3 => {
            let npk = rng.range(1, (q.max(1) + 3) as u64) as usize;
            for _ in 0..npk {
                sizes.push(e2e_size(rng, p, false, big));
            }
            let idx: Vec<usize> = (0..npk).collect();
            for win in idx.chunks(q.max(1)) {
                let mut w: Vec<(usize, usize)> = vec![];
                for i in win {
                    let mut fs = all_frames(&sizes, *i);
                    if mode == 1 {
                        fs.reverse();
                    }
                    if mode == 3 && fs.len() > 1 && rng.chance(1, 6) {
                        fs.remove(rng.below(fs.len() as u64) as usize);
                    }
                    w.extend(fs);
                }
                if mode >= 2 {
                    rng.shuffle(&mut w);
                }
                if mode == 3 {
                    for k in 0..w.len() {
                        if rng.chance(1, 4) {
                            let pos = rng.range(0, w.len() as u64) as usize;
                            let d = w[k];
                            w.insert(pos, d);
                        }
                    }
                }
                order.extend(w);
            }
            kind = ["e2e in-order", "e2e reversed", "e2e shuffled", "e2e shuffled+copies+loss"][mode as usize];
        }
        // overload: Q+1..Q+3 multi-frame packets in flight at once, round-robin or shuffled (+ copies)
        4 | 5 => {
            let npk = q + 1 + rng.below(3) as usize;
            for _ in 0..npk {
                sizes.push(e2e_size(rng, p, true, false));
            }
            if mode == 4 {
                let longest = (0..npk).map(|i| e2e_nframes(sizes[i], mtu)).max().unwrap_or(0);
                for f in 0..longest {
                    for i in 0..npk {
                        if f < e2e_nframes(sizes[i], mtu) {
                            order.push((i, f));
                        }
                    }
                }
            } else {
                for i in 0..npk {
                    order.extend(all_frames(&sizes, i));
                }
                rng.shuffle(&mut order);
                for k in 0..order.len() {
                    if rng.chance(1, 5) {
                        let pos = rng.range(0, order.len() as u64) as usize;
                        let d = order[k];
                        order.insert(pos, d);
                    }
                }
            }
            kind = if mode == 4 { "e2e overload round-robin" } else { "e2e overload shuffled+copies" };
        }
        // late frames of older packets: `older` packets are sent first but (mostly) arrive late, while the Q
        // packets sent after them occupy every slot; then the rest of everything
        6 | 7 => {
            let older = rng.range(1, 2) as usize;
            let npk = older + q.max(1);
            for _ in 0..npk {
                sizes.push(e2e_size(rng, p, true, false));
            }
            let mut late: Vec<(usize, usize)> = vec![];
            for i in 0..older {
                let mut fs = all_frames(&sizes, i);
                if mode == 7 {
                    rng.shuffle(&mut fs);
                }
                // sometimes the older packet got a slot first (and is evicted by the newer ones)
                if rng.chance(1, 3) && fs.len() > 1 {
                    order.push(fs.remove(0));
                }
                late.extend(fs);
            }
            let mut rest: Vec<(usize, usize)> = vec![];
            for i in older..npk {
                let mut fs = all_frames(&sizes, i);
                if mode == 7 {
                    rng.shuffle(&mut fs);
                }
                if fs.is_empty() {
                    continue;
                }
                let head = rng.range(1, (fs.len() - 1).max(1) as u64) as usize;
                order.extend(fs.drain(..head.min(fs.len())));
                rest.extend(fs);
            }
            // some or all late frames, then the rest of the newer packets (per packet or interleaved), then what is left
            let cut = rng.range(1, late.len().max(1) as u64) as usize;
            let tail: Vec<(usize, usize)> = late.split_off(cut.min(late.len()));
            order.extend(late);
            if mode == 7 {
                rng.shuffle(&mut rest);
            }
            if rng.chance(1, 2) {
                // a late frame in the middle of the rest as well
                let mut tail = tail;
                if !tail.is_empty() && !rest.is_empty() {
                    let pos = rng.range(0, rest.len() as u64) as usize;
                    rest.insert(pos, tail.remove(0));
                }
                order.extend(rest);
                order.extend(tail);
            } else {
                order.extend(rest);
                order.extend(tail);
            }
            kind = if mode == 6 { "e2e late older packets" } else { "e2e late older packets, shuffled" };
        }
        // network model: per-datagram delay (mostly small, sometimes long), loss, copies
        _ => {
            let npk = rng.range(2, (q.max(1) + 4) as u64) as usize;
            for _ in 0..npk {
                let multi = rng.chance(2, 3);
                sizes.push(e2e_size(rng, p, multi, big));
            }
            let mut timed: Vec<(u64, (usize, usize))> = vec![];
            let mut t = 0u64;
            for i in 0..npk {
                for d in all_frames(&sizes, i) {
                    t += 10;
                    if rng.chance(1, 12) {
                        continue; // lost
                    }
                    let delay = match rng.below(6) {
                        0 => rng.below(400),
                        1 => rng.below(60),
                        _ => rng.below(15),
                    };
                    timed.push((t + delay, d));
                    if rng.chance(1, 8) {
                        timed.push((t + delay + rng.below(200), d));
                    }
                }
            }
            timed.sort();
            order = timed.into_iter().map(|(_, d)| d).collect();
            kind = "e2e network model (delay/loss/copies)";
        }
    }
    // stay well inside the transport's reorder window
    let mut total = 0usize;
    for s in sizes.iter_mut() {
        let nf = e2e_nframes(*s, mtu);
        if total + nf > E2E_MAX_DATAGRAMS {
            *s = p + 1;
        }
        total += e2e_nframes(*s, mtu);
    }
    let nfr: Vec<usize> = sizes.iter().map(|s| e2e_nframes(*s, mtu)).collect();
    order.retain(|(i, f)| *f < nfr[*i]);
    E2e { kind: kind.into(), to_client, queues, mtu, seed, sizes, order }
}

/// every delivery order of all datagrams of small multi-frame packets (server -> client, minimum MTU)
fn gen_e2e_exhaustive(rng: &mut Rng, frames_per_packet: &[usize], queues: usize, out: &mut Vec<E2e>) {
    let p = MIN_MTU - HDR;
    let sizes: Vec<usize> = frames_per_packet.iter().map(|n| (n - 1) * p + rng.range(1, p as u64) as usize).collect();
    let mut all: Vec<(usize, usize)> = vec![];
    for (i, n) in frames_per_packet.iter().enumerate() {
        all.extend((0..*n).map(|f| (i, f)));
    }
    let seed = rng.next();
    let mut perm: Vec<usize> = (0..all.len()).collect();
    loop {
        out.push(E2e { kind: "e2e exhaustive".into(), to_client: true, queues, mtu: MIN_MTU as u16, seed, sizes: sizes.clone(), order: perm.iter().map(|k| all[*k]).collect() });
        if !next_perm(&mut perm) {
            break;
        }
    }
}

// ---------------------------------------------------------------------------------------------------------
// e2e multi-client stream (client -> server only): ONE real EdgeTunServerState and 2..3 EdgeTunClientStates with
// distinct static identities, tunnel addresses and network addresses, each after its own WireGuard handshake.
// Every client's fragmenter counts its stream offsets from 0 (1 after the trigger packet), so clients that have
// sent the same number of bytes send their next packets at COINCIDING stream offsets.  The property speaks about
// "frames of that same packet" and "an honest sender": a packet belongs to the sender that fragmented it, so the
// clauses are judged per client identity.  The identity is observed where the server itself states it: the
// (identity, tunnel address, bytes) triple it submits to the inbound traffic policy right before it returns
// WriteToTunnel (a recording allow-all policy).  Oracles (keys C17:e2e:multi:*):
//  * :integrity      every packet handed to the tunnel under identity X is byte-identical to a packet client X sent
//                    (a packet of another client, or a mix of fragments of several clients, is a violation);
//  * :identity       a packet is handed over only as the result of a datagram of the client whose identity is
//                    submitted to the policy, with that client's tunnel address, and the bytes returned are the
//                    bytes submitted;
//  * :at-most-once   a packet of client X is handed over at most once (copies of a datagram are dropped by the
//                    transport, as in the single-client stream);
//  * :not-delivered  (and :older-packets-cannot-reclaim, :single-frame) the counting argument of the single-client
//                    stream with X's OWN packets only: packets of other senders are not "other packets" of X's
//                    stream - each sender is promised Q slots (server.rs: one Defragmenter(8) per tunnel), so a
//                    packet of X all of whose datagrams arrive while at most Q-1 other multi-frame packets OF X
//                    can hold a slot must be handed over at the completing datagram, whatever other clients send;
//  * :panic          no call panics.
// Model correspondence (stream e2e-glue-multi): one Lean Defragmenter per client, fed that client's accepted
// frames in arrival order; its emissions are compared with what the server handed over at those steps.

struct AuthzMany(Vec<(x25519::PublicKey, IpAddr)>);
impl EdgeTunAuthz<IpAddr> for AuthzMany {
    fn is_authorized(&self, _now: Instant, identity: &x25519::PublicKey) -> Option<IpAddr> {
        self.0.iter().find(|(k, _)| k == identity).map(|(_, a)| *a)
    }
}

/// allow-all inbound policy that records what the server submits: (identity, tunnel address, packet)
#[derive(Default)]
struct RecPolicy(std::sync::Mutex<Vec<([u8; 32], IpAddr, Vec<u8>)>>);
impl InboundTrafficPolicy<IpAddr> for RecPolicy {
    fn check_inbound_policy(&self, id: &x25519::PublicKey, t: &IpAddr, pkt: &[u8]) -> bool {
        if let Ok(mut g) = self.0.lock() {
            g.push((*id.as_bytes(), *t, pkt.to_vec()));
        }
        true
    }
}

const MULTI_MAX_PACKETS_PER_CLIENT: usize = 80;

#[derive(Clone)]
struct Multi {
    kind: String,
    mtu: u16,
    seed: u64,
    /// sizes[c]: sizes of the packets client c sends, in sending order (its k-th packet starts at stream offset
    /// 1 + sum of the sizes before it: the trigger packet of the handshake has one byte)
    sizes: Vec<Vec<usize>>,
    /// delivery schedule at the server: (client, packet of that client, datagram of that packet)
    order: Vec<(usize, usize, usize)>,
}

fn multi_payload(seed: u64, client: usize, idx: usize, size: usize) -> Vec<u8> {
    let mut r = Rng::new(seed ^ ((client as u64 + 1) << 56) ^ ((idx as u64 + 1).wrapping_mul(0x9E37_79B9_7F4A_7C15)));
    let mut d = r.bytes(size);
    if let Some(b) = d.first_mut() {
        *b = (client * MULTI_MAX_PACKETS_PER_CLIENT + idx) as u8; // pairwise different over all clients of a case
    }
    d
}

fn multi_line(c: &Multi) -> String {
    format!(
        "e2em {} {} {} {}",
        c.mtu,
        c.seed,
        c.sizes.iter().map(|v| if v.is_empty() { "-".to_string() } else { v.iter().map(|s| s.to_string()).collect::<Vec<_>>().join(",") }).collect::<Vec<_>>().join("/"),
        c.order.iter().map(|(c, p, f)| format!("{c}.{p}.{f}")).collect::<Vec<_>>().join(" ")
    )
}

fn parse_multi_line(l: &str) -> Option<Multi> {
    let mut it = l.split_whitespace();
    if it.next()? != "e2em" {
        return None;
    }
    let mtu = it.next()?.parse().ok()?;
    let seed = it.next()?.parse().ok()?;
    let sizes = it
        .next()?
        .split('/')
        .map(|v| if v == "-" { Some(vec![]) } else { v.split(',').map(|x| x.parse().ok()).collect::<Option<Vec<usize>>>() })
        .collect::<Option<Vec<Vec<usize>>>>()?;
    if sizes.is_empty() || sizes.len() > 3 || sizes.iter().any(|v| v.len() > MULTI_MAX_PACKETS_PER_CLIENT) {
        return None;
    }
    let order = it
        .map(|t| {
            let mut x = t.split('.');
            let r = (x.next()?.parse().ok()?, x.next()?.parse().ok()?, x.next()?.parse().ok()?);
            if x.next().is_some() { None } else { Some(r) }
        })
        .collect::<Option<Vec<(usize, usize, usize)>>>()?;
    Some(Multi { kind: "corpus e2e multi".into(), mtu, seed, sizes, order })
}

struct Group {
    srv: EdgeTunServerState<AuthzMany, RecPolicy, Net, IpAddr>,
    policy: Arc<RecPolicy>,
    clients: Vec<EdgeTunClientState<Net>>,
    ids: Vec<[u8; 32]>,
    taddrs: Vec<IpAddr>,
    naddrs: Vec<Net>,
    pool: EdgePacketBufPool,
}

impl Group {
    fn new(mtu: u16, n: usize) -> Group {
        let keypair = |seed: u8| {
            let mut k = [0u8; 32];
            k[1] = seed;
            let s = x25519::StaticSecret::from(k);
            let p = x25519::PublicKey::from(&s);
            (s, p)
        };
        let pool = EdgePacketBufPool::new(16);
        let (server_secret, server_public) = keypair(1);
        let keys: Vec<_> = (0..n).map(|c| keypair(2 + c as u8)).collect();
        let taddrs: Vec<IpAddr> = (0..n).map(|c| IpAddr::V4(Ipv4Addr::new(10, 0, 0, 1 + c as u8))).collect();
        let naddrs: Vec<Net> = (0..n).map(|c| Net(SocketAddr::new(IpAddr::V4(Ipv4Addr::new(127, 0, 0, 1 + c as u8)), 51820 + c as u16))).collect();
        let policy = Arc::new(RecPolicy::default());
        let srv = EdgeTunServerState::new(
            server_secret,
            Arc::new(RateLimiter::new(&server_public, 100)),
            Arc::new(AuthzMany(keys.iter().zip(&taddrs).map(|((_, p), t)| (*p, *t)).collect())),
            policy.clone(),
            pool.clone(),
            mtu,
            FragmentMetrics::new(&Default::default()),
            DefragmentMetrics::new(&Default::default()),
        );
        let ids = keys.iter().map(|(_, p)| *p.as_bytes()).collect();
        let clients = keys
            .into_iter()
            .map(|(secret, _)| {
                EdgeTunClientState::new(
                    pool.clone(),
                    EdgeTunClientConfig { peer_static: server_public, static_secret: secret, rate_limit: 100, mtu, defrag_queue_counts: 8, persistent_keep_alive: None },
                    FragmentMetrics::new(&Default::default()),
                    DefragmentMetrics::new(&Default::default()),
                )
            })
            .collect();
        Group { srv, policy, clients, ids, taddrs, naddrs, pool }
    }

    fn packet(&self, payload: &[u8]) -> Packet {
        if payload.len() > 60000 {
            return Packet::from_bytes(bytes::BytesMut::from(payload));
        }
        let mut p = self.pool.get();
        let buf = p.buf_mut();
        buf.truncate(0);
        buf.extend_from_slice(payload);
        p
    }

    fn take_policy_log(&self) -> Vec<([u8; 32], IpAddr, Vec<u8>)> {
        self.policy.0.lock().map(|mut g| std::mem::take(&mut *g)).unwrap_or_default()
    }

    /// handshake of client `c`; the trigger packet must be handed over once, under c's identity
    fn handshake(&mut self, c: usize) -> Result<(), String> {
        let addr = self.naddrs[c];
        let mut cq = VecDeque::new();
        let trig = self.packet(&TRIGGER);
        self.clients[c].handle_outgoing_packet(trig, &mut cq);
        let init = cq.pop_front().ok_or("client produced no handshake initiation")?;
        let mut sq = VecDeque::new();
        let r = self.srv.handle_incoming_packet(addr, Packet::from(init).into_bytes(), &mut sq);
        if !matches!(r, TunnResult::Done) {
            return Err(format!("server on handshake initiation: {r:?}"));
        }
        let resp = sq.pop_front().ok_or("server produced no handshake response")?;
        let mut cq = VecDeque::new();
        let r = self.clients[c].handle_incoming_packet(addr, Packet::from(resp).into_bytes(), &mut cq);
        if !matches!(r, TunnResult::Done) {
            return Err(format!("client on handshake response: {r:?}"));
        }
        self.take_policy_log();
        let mut got = vec![];
        for wg in cq {
            let mut sq = VecDeque::new();
            if let TunnResult::WriteToTunnel(p) = self.srv.handle_incoming_packet(addr, Packet::from(wg).into_bytes(), &mut sq) {
                got.push(p.to_vec());
            }
        }
        if got != vec![TRIGGER.to_vec()] {
            return Err(format!("the packet that triggered the handshake was not handed to the server's tunnel exactly once ({} deliveries)", got.len()));
        }
        let log = self.take_policy_log();
        if log.len() != 1 || log[0].0 != self.ids[c] || log[0].1 != self.taddrs[c] {
            return Err("the trigger packet was not submitted to the inbound policy exactly once under the client's identity and tunnel address".into());
        }
        Ok(())
    }

    fn send(&mut self, c: usize, data: &[u8]) -> Result<Vec<Vec<u8>>, String> {
        let pkt = self.packet(data);
        let mut q: VecDeque<WgKind> = VecDeque::new();
        self.clients[c].handle_outgoing_packet(pkt, &mut q);
        let mut out = vec![];
        for wg in q {
            if !matches!(wg, WgKind::Data(_)) {
                return Err("sender produced a WireGuard message that is not a data message".into());
            }
            out.push(Packet::from(wg).into_bytes().to_vec());
        }
        Ok(out)
    }

    fn deliver(&mut self, c: usize, datagram: &[u8]) -> Rx {
        let pkt = Packet::from_bytes(bytes::BytesMut::from(datagram));
        let mut q = VecDeque::new();
        match self.srv.handle_incoming_packet(self.naddrs[c], pkt, &mut q) {
            TunnResult::WriteToTunnel(p) => Rx::Pkt(p.to_vec()),
            TunnResult::Done => Rx::Done,
            TunnResult::Err(e) => Rx::Err(format!("{e:?}")),
            TunnResult::WriteToNetwork(_) => Rx::Other("WriteToNetwork".into()),
        }
    }
}

#[derive(Default)]
struct MultiOut {
    spec: Vec<(String, String)>,
    disagree: Option<(usize, String, String)>,
    labels: Vec<String>,
    /// per client, per packet
    frames_per_packet: Vec<Vec<usize>>,
    /// per client: stream offset of every packet (1 + bytes sent before)
    offsets: Vec<Vec<u64>>,
    handed_over: usize,
    handed_over_reassembled: usize,
    complete_not_handed_over: usize,
    dup_dropped: usize,
    claims: usize,
    claims_older_only: usize,
    claims_other_client_interleaved: usize,
    claims_other_client_same_offset: usize,
    singles_claimed: usize,
    model_frames: usize,
    /// multi-frame packets of different clients at the same stream offset with a datagram delivered
    coinciding: usize,
}

fn run_multi(c: &Multi, lean: &mut Option<&mut Lean>, server_q: Option<usize>) -> MultiOut {
    const K: &str = "C17:e2e:multi";
    let mut out = MultiOut::default();
    let nc = c.sizes.len();
    let mut g = match catch(|| Group::new(c.mtu, nc)) {
        Ok(g) => g,
        Err(m) => {
            out.spec.push((format!("{K}:panic"), format!("constructing the server and {nc} clients (mtu {}) panicked: {m}", c.mtu)));
            return out;
        }
    };
    for cl in 0..nc {
        match catch(|| g.handshake(cl)) {
            Ok(Ok(())) => {}
            Ok(Err(m)) => {
                out.spec.push((format!("{K}:handshake"), format!("client {cl} of {nc}: {m}")));
                return out;
            }
            Err(m) => {
                out.spec.push((format!("{K}:panic"), format!("handshake of client {cl} of {nc} panicked: {m}")));
                return out;
            }
        }
    }
    // every client fragments and encrypts all its packets; plaintext frames recomputed per client
    let mut sent: Vec<Vec<Vec<u8>>> = vec![vec![]; nc];
    let mut grams: Vec<Vec<Vec<Vec<u8>>>> = vec![vec![]; nc];
    let mut frames: Vec<Vec<Vec<Vec<u8>>>> = vec![vec![]; nc];
    let mut trigger_frames: Vec<Vec<u8>> = vec![vec![]; nc];
    let mut shape_ok = true;
    for cl in 0..nc {
        let mut shadow = Fragmenter::new_unobserved(c.mtu as usize);
        let _ = shadow.send(&TRIGGER, |f| trigger_frames[cl] = f.to_vec());
        let mut off = TRIGGER.len() as u64;
        let mut offs = vec![];
        let mut nfs = vec![];
        for (i, size) in c.sizes[cl].iter().enumerate() {
            let data = multi_payload(c.seed, cl, i, *size);
            let gr = match catch(|| g.send(cl, &data)) {
                Ok(Ok(x)) => x,
                Ok(Err(m)) => {
                    out.spec.push((format!("{K}:sender-output"), format!("client {cl} packet #{i} ({size} B): {m}")));
                    shape_ok = false;
                    vec![]
                }
                Err(m) => {
                    out.spec.push((format!("{K}:panic"), format!("client {cl}: handle_outgoing_packet panicked on packet #{i} ({size} B, mtu {}): {m}", c.mtu)));
                    shape_ok = false;
                    vec![]
                }
            };
            let mut fs: Vec<Vec<u8>> = vec![];
            let _ = shadow.send(&data, |f| fs.push(f.to_vec()));
            if gr.len() != fs.len() || gr.iter().zip(&fs).any(|(d, f)| d.len() != f.len() + WG_OVERHEAD) {
                if shape_ok {
                    out.spec.push((format!("{K}:sender-shape"), format!("client {cl} packet #{i} ({size} B, mtu {}): the sender produced {} datagrams, a Fragmenter of that MTU yields {} frames", c.mtu, gr.len(), fs.len())));
                }
                shape_ok = false;
            }
            offs.push(off);
            if !gr.is_empty() {
                off = off.wrapping_add(*size as u64);
            }
            nfs.push(gr.len());
            sent[cl].push(data);
            grams[cl].push(gr);
            frames[cl].push(fs);
        }
        out.offsets.push(offs);
        out.frames_per_packet.push(nfs);
        let total: usize = grams[cl].iter().map(|x| x.len()).sum();
        if total + 2 >= WG_REORDER_WINDOW {
            out.spec.push((format!("{K}:harness-limit"), format!("client {cl}: {total} datagrams in one session: beyond the transport's reorder window")));
            return out;
        }
    }
    // ---- delivery ----
    let mut seen: HashSet<(usize, usize, usize)> = HashSet::new();
    // accepted deliveries (first copies) per (client, packet): (step, datagram index)
    let mut acc: Vec<Vec<Vec<(usize, usize)>>> = c.sizes.iter().map(|v| vec![vec![]; v.len()]).collect();
    let mut handed: Vec<Vec<Vec<usize>>> = c.sizes.iter().map(|v| vec![vec![]; v.len()]).collect();
    // per step: (client, packet, datagram, first copy, what was handed over)
    let mut steps: Vec<Option<(usize, usize, usize, bool, Option<Vec<u8>>)>> = vec![];
    g.take_policy_log();
    for (k, (cl, p, f)) in c.order.iter().enumerate() {
        let Some(d) = grams.get(*cl).and_then(|x| x.get(*p)).and_then(|x| x.get(*f)) else {
            out.labels.push("skipped (no such datagram)".into());
            steps.push(None);
            continue;
        };
        let (cl, p, f) = (*cl, *p, *f);
        let first = seen.insert((cl, p, f));
        let r = catch(|| g.deliver(cl, d));
        let log = g.take_policy_log();
        let mut got: Option<Vec<u8>> = None;
        let who = format!("client {cl} datagram {p}.{f}");
        let label = match r {
            Err(m) => {
                out.spec.push((format!("{K}:panic"), format!("handle_incoming_packet panicked at step #{k} ({who}): {m}")));
                "panic".to_string()
            }
            Ok(Rx::Pkt(b)) => {
                got = Some(b);
                String::new()
            }
            Ok(Rx::Done) => if first { "done".into() } else { "copy: done".into() },
            Ok(Rx::Err(e)) => {
                if first {
                    out.spec.push((format!("{K}:transport-rejected"), format!("step #{k}: the first copy of {who} was rejected by the transport ({e}); the oracle assumes only exact copies are dropped")));
                }
                if first { format!("err {e}") } else { format!("copy: err {e}") }
            }
            Ok(Rx::Other(e)) => {
                out.spec.push((format!("{K}:unexpected-result"), format!("step #{k} ({who}): {e}")));
                e
            }
        };
        if first {
            acc[cl][p].push((k, f));
        } else {
            out.dup_dropped += 1;
        }
        // identity under which the server handed the packet over = what it told the policy
        let mut ident = cl;
        match (&got, log.as_slice()) {
            (None, []) => {}
            (Some(b), [(id, t, pb)]) => {
                match g.ids.iter().position(|x| x == id) {
                    Some(x) => ident = x,
                    None => out.spec.push((format!("{K}:identity"), format!("step #{k} ({who}): packet submitted to the inbound policy under an identity that is none of the {nc} clients"))),
                }
                if ident != cl || *t != g.taddrs[cl] || pb != b {
                    out.spec.push((format!("{K}:identity"), format!("step #{k}: a datagram of client {cl} (tunnel address {}) made the server hand over {} B; the inbound policy was asked about {} B under the identity of client {ident}, tunnel address {t}", g.taddrs[cl], b.len(), pb.len())));
                }
            }
            (gp, lg) => {
                out.spec.push((format!("{K}:identity"), format!("step #{k} ({who}): {} packet handed to the tunnel, {} submitted to the inbound policy", if gp.is_some() { "one" } else { "no" }, lg.len())));
            }
        }
        let label = if let Some(b) = &got {
            out.handed_over += 1;
            match sent[ident].iter().position(|s| s == b) {
                Some(i) => {
                    handed[ident][i].push(k);
                    if grams[ident][i].len() > 1 {
                        out.handed_over_reassembled += 1;
                    }
                    if handed[ident][i].len() > 1 {
                        out.spec.push((format!("{K}:at-most-once"), format!("packet #{i} of client {ident} ({} B, {} datagrams) handed to the tunnel {} times (steps {:?})", b.len(), grams[ident][i].len(), handed[ident][i].len(), handed[ident][i])));
                    }
                    if !first {
                        out.spec.push((format!("{K}:at-most-once"), format!("step #{k}: a second copy of {who} made the server hand packet #{i} of client {ident} to the tunnel")));
                    }
                    format!("{}client {ident} pkt #{i}", if first { "" } else { "copy: " })
                }
                None => {
                    // say where the bytes come from: the longest common prefix / suffix with any client's packet
                    let mut best_pre = (0usize, 0usize, 0usize);
                    let mut best_suf = (0usize, 0usize, 0usize);
                    let mut whole: Option<(usize, usize)> = None;
                    for (x, ps) in sent.iter().enumerate() {
                        for (j, s) in ps.iter().enumerate() {
                            if s == b {
                                whole = Some((x, j));
                            }
                            let pre = s.iter().zip(b.iter()).take_while(|(a, b)| a == b).count();
                            let suf = s.iter().rev().zip(b.iter().rev()).take_while(|(a, b)| a == b).count();
                            if pre > best_pre.0 {
                                best_pre = (pre, x, j);
                            }
                            if suf > best_suf.0 {
                                best_suf = (suf, x, j);
                            }
                        }
                    }
                    let origin = match whole {
                        Some((x, j)) => format!("they are packet #{j} of client {x}"),
                        None => format!(
                            "they are no packet any client sent: the first {} B are the first bytes of packet #{} of client {}, the last {} B are the last bytes of packet #{} of client {}",
                            best_pre.0, best_pre.2, best_pre.1, best_suf.0, best_suf.2, best_suf.1
                        ),
                    };
                    out.spec.push((
                        format!("{K}:integrity"),
                        format!("step #{k} ({who}, stream offset {}): {} B handed to the tunnel under the identity of client {ident} are not a packet client {ident} sent; {origin}", out.offsets[cl][p], b.len()),
                    ));
                    format!("client {ident} pkt UNKNOWN")
                }
            }
        } else {
            label
        };
        steps.push(Some((cl, p, f, first, got)));
        out.labels.push(label);
    }
    // ---- coverage: coinciding stream offsets ----
    for x in 0..nc {
        for y in x + 1..nc {
            for (i, ox) in out.offsets[x].iter().enumerate() {
                for (j, oy) in out.offsets[y].iter().enumerate() {
                    if ox == oy && grams[x][i].len() > 1 && grams[y][j].len() > 1 && !acc[x][i].is_empty() && !acc[y][j].is_empty() {
                        out.coinciding += 1;
                    }
                }
            }
        }
    }
    // ---- liveness, per client: only the client's own packets compete for its Q slots ----
    for x in 0..nc {
        let n = sent[x].len();
        for i in 0..n {
            let nf = grams[x][i].len();
            if nf == 0 || acc[x][i].is_empty() {
                continue;
            }
            if nf == 1 {
                out.singles_claimed += 1;
                let t = acc[x][i][0].0;
                if !handed[x][i].contains(&t) {
                    out.spec.push((format!("{K}:not-delivered:single-frame"), format!("packet #{i} of client {x} ({} B, one datagram) arrived at step #{t} and was not handed to the tunnel there ({})", sent[x][i].len(), out.labels[t])));
                }
                continue;
            }
            if acc[x][i].len() < nf {
                continue;
            }
            let t0 = acc[x][i][0].0;
            let t1 = acc[x][i].last().unwrap().0;
            if !handed[x][i].contains(&t1) {
                out.complete_not_handed_over += 1;
            }
            let Some(q) = server_q else { continue };
            if q == 0 {
                continue;
            }
            let mut all = 0usize;
            let mut newer = 0usize;
            for j in 0..n {
                if j == i || grams[x][j].len() < 2 {
                    continue;
                }
                let Some(first_j) = acc[x][j].first().map(|v| v.0) else { continue };
                if first_j > t1 {
                    continue;
                }
                if handed[x][j].iter().any(|k| *k < t0) {
                    continue;
                }
                all += 1;
                if j > i {
                    newer += 1;
                }
            }
            let key = if all + 1 <= q {
                format!("{K}:not-delivered")
            } else if newer + 1 <= q {
                out.claims_older_only += 1;
                format!("{K}:not-delivered:older-packets-cannot-reclaim")
            } else {
                continue;
            };
            out.claims += 1;
            let others_between = steps.iter().enumerate().filter(|(k, s)| *k > t0 && *k < t1 && s.as_ref().map_or(false, |s| s.0 != x && s.3)).count();
            if others_between > 0 {
                out.claims_other_client_interleaved += 1;
            }
            let same_off: Vec<String> = (0..nc)
                .filter(|y| *y != x)
                .flat_map(|y| out.offsets[y].iter().enumerate().filter(|(j, o)| **o == out.offsets[x][i] && grams[y][*j].len() > 1 && acc[y][*j].iter().any(|(k, _)| *k <= t1)).map(move |(j, _)| format!("client {y} #{j}")).collect::<Vec<_>>())
                .collect();
            if !same_off.is_empty() {
                out.claims_other_client_same_offset += 1;
            }
            if !handed[x][i].contains(&t1) {
                out.spec.push((
                    key,
                    format!(
                        "{q} reassembly slots per tunnel: packet #{i} of client {x} ({} B, {nf} datagrams, stream offset {}): first datagram at step #{t0}, all {nf} delivered by step #{t1}; {all} other packets of client {x} can hold a slot up to then, {newer} of them sent after it; it was not handed to the tunnel at step #{t1} (result there: {}; handed over at steps {:?}); datagrams of other clients delivered in between: {others_between}; multi-frame packets of other clients at the same stream offset delivered up to then: {}",
                        sent[x][i].len(), out.offsets[x][i], out.labels[t1], handed[x][i], if same_off.is_empty() { "none".to_string() } else { same_off.join(", ") }
                    ),
                ));
            }
        }
    }
    // ---- model: one Defragmenter per tunnel ----
    if let (true, Some(q), Some(l)) = (shape_ok, server_q, lean.as_mut()) {
        'clients: for x in 0..nc {
            l.ask(&format!("new {q}"));
            let mo = l.ask(&format!("recv {}", hex(&trigger_frames[x])));
            if l.differs(&mo, &format!("pkt 0 {}", hex(&TRIGGER))) {
                out.disagree = Some((0, format!("client {x}: trigger packet handed to the tunnel"), mo));
                break;
            }
            for (k, s) in steps.iter().enumerate() {
                let Some((cl, p, f, first, got)) = s else { continue };
                if *cl != x || !*first {
                    continue;
                }
                let mo = l.ask(&format!("recv {}", hex(&frames[x][*p][*f])));
                out.model_frames += 1;
                let model_pkt = mo.strip_prefix("pkt ").and_then(|r| r.split_once(' ')).map(|(_, h)| h.to_string());
                let agrees = match (&model_pkt, got) {
                    (Some(h), Some(b)) => *h == hex(b),
                    (None, None) => mo == "none" || mo.starts_with("err "),
                    _ => false,
                };
                if l.enabled && !agrees {
                    let cut = |s: &str| if s.len() > 120 { format!("{}…", &s[..120]) } else { s.to_string() };
                    out.disagree = Some((k, cut(&out.labels[k]), cut(&mo)));
                    break 'clients;
                }
            }
        }
    }
    out
}

fn multi_json(c: &Multi, o: &MultiOut) -> serde_json::Value {
    json!({
        "stream": "e2e multi-client", "kind": c.kind, "direction": "client->server (one server, one tunnel per client)",
        "clients": c.sizes.len(), "mtu": c.mtu, "packet_sizes per client": c.sizes, "datagrams_per_packet per client": o.frames_per_packet,
        "stream_offsets per client": o.offsets,
        "schedule (client.packet.datagram)": c.order.iter().map(|(c, p, f)| format!("{c}.{p}.{f}")).collect::<Vec<_>>().join(" "),
        "results": o.labels, "line": multi_line(c),
    })
}

/// delta-debugging over the delivery schedule, then trailing packets of every client, then trailing clients
fn shrink_multi(c: &Multi, server_q: Option<usize>, key: &str) -> Multi {
    let fails = |x: &Multi| run_multi(x, &mut None, server_q).spec.iter().any(|(k, _)| k == key);
    let mut cur = c.clone();
    let mut chunk = (cur.order.len() / 2).max(1);
    let mut budget = 120;
    while budget > 0 {
        let mut progressed = false;
        let mut i = 0;
        while i < cur.order.len() && budget > 0 {
            let mut cand = cur.clone();
            let end = (i + chunk).min(cand.order.len());
            cand.order.drain(i..end);
            budget -= 1;
            if fails(&cand) {
                cur = cand;
                progressed = true;
            } else {
                i += chunk;
            }
        }
        if chunk == 1 && !progressed {
            break;
        }
        chunk = (chunk / 2).max(1);
    }
    let mut cand = cur.clone();
    for (cl, v) in cand.sizes.iter_mut().enumerate() {
        let used = cur.order.iter().filter(|(x, _, _)| *x == cl).map(|(_, p, _)| p + 1).max().unwrap_or(0);
        v.truncate(used.min(v.len()));
    }
    while cand.sizes.len() > 1 && cand.sizes.last().map_or(false, |v| v.is_empty()) {
        cand.sizes.pop();
    }
    if fails(&cand) {
        cur = cand;
    }
    cur
}

fn gen_multi(rng: &mut Rng, server_q: Option<usize>) -> Multi {
    let q = server_q.unwrap_or(8).max(1);
    let nc = if rng.chance(3, 5) { 2 } else { 3 };
    let mtu = if rng.chance(4, 5) { *rng.pick(&[MIN_MTU, MIN_MTU, 300, 576, 1280, 1420, 1500]) as u16 } else { e2e_mtu(rng) };
    let p = (mtu as usize).clamp(MIN_MTU, MAX_MTU) - HDR;
    let seed = rng.next();
    let mode = rng.below(8);
    // packets are sent in rounds: in a round every client sends one packet.  Mostly the sizes of a round are equal
    // for all clients, so the stream offsets of the next round coincide as well.
    let rounds = match mode {
        6 => q + rng.below(3) as usize,
        7 => rng.range(2, q as u64) as usize,
        _ => rng.range(1, 4) as usize,
    };
    let mut sizes: Vec<Vec<usize>> = vec![vec![]; nc];
    for _ in 0..rounds {
        let multi = mode >= 6 || rng.chance(5, 6);
        let base = if mode >= 6 { p + 1 + rng.below(2 * p as u64) as usize } else { e2e_size(rng, p, multi, false).clamp(1, MAX_PACKET_SIZE) };
        let aligned = rng.chance(4, 5);
        for v in sizes.iter_mut() {
            let s = if aligned {
                base
            } else {
                match rng.below(3) {
                    0 => base,
                    // same stream offset now, other length / other number of frames; later offsets diverge
                    1 => (base + p).min(MAX_PACKET_SIZE),
                    _ => e2e_size(rng, p, true, false).clamp(1, MAX_PACKET_SIZE),
                }
            };
            v.push(s);
        }
    }
    // a client may stop early
    if rng.chance(1, 6) {
        let cl = rng.below(nc as u64) as usize;
        let keep = rng.range(1, rounds as u64) as usize;
        sizes[cl].truncate(keep);
    }
    let fr = |cl: usize, i: usize| -> Vec<(usize, usize, usize)> { (0..e2e_nframes(sizes[cl][i], mtu)).map(|f| (cl, i, f)).collect() };
    let mut order: Vec<(usize, usize, usize)> = vec![];
    let add_copies = |rng: &mut Rng, w: &mut Vec<(usize, usize, usize)>, den: u64| {
        for k in 0..w.len() {
            if rng.chance(1, den) {
                let pos = rng.range(0, w.len() as u64) as usize;
                let d = w[k];
                w.insert(pos, d);
            }
        }
    };
    let kind;
    match mode {
        // round by round, client after client, every packet complete and in order
        0 => {
            for r in 0..rounds {
                let mut cls: Vec<usize> = (0..nc).filter(|cl| r < sizes[*cl].len()).collect();
                if rng.chance(1, 2) {
                    rng.shuffle(&mut cls);
                }
                for cl in cls {
                    order.extend(fr(cl, r));
                }
            }
            kind = "e2e multi sequential";
        }
        // the same, but in every round one client's packet loses its LAST datagram (sometimes another one)
        1 => {
            for r in 0..rounds {
                let mut cls: Vec<usize> = (0..nc).filter(|cl| r < sizes[*cl].len()).collect();
                if rng.chance(1, 2) {
                    rng.shuffle(&mut cls);
                }
                let loser = *rng.pick(&cls);
                for cl in cls {
                    let mut fs = fr(cl, r);
                    if cl == loser && fs.len() > 1 {
                        if rng.chance(3, 4) {
                            fs.pop();
                        } else {
                            fs.remove(rng.below(fs.len() as u64) as usize);
                        }
                    }
                    order.extend(fs);
                }
            }
            kind = "e2e multi sequential, last datagram of one client's packet lost";
        }
        // datagram k of every client, then datagram k+1 of every client, ...
        2 => {
            for r in 0..rounds {
                let cls: Vec<usize> = (0..nc).filter(|cl| r < sizes[*cl].len()).collect();
                let longest = cls.iter().map(|cl| e2e_nframes(sizes[*cl][r], mtu)).max().unwrap_or(0);
                for f in 0..longest {
                    for cl in &cls {
                        if f < e2e_nframes(sizes[*cl][r], mtu) {
                            order.push((*cl, r, f));
                        }
                    }
                }
            }
            kind = "e2e multi interleaved round-robin";
        }
        // every round shuffled (+ copies, + loss)
        3 | 4 => {
            for r in 0..rounds {
                let mut w: Vec<(usize, usize, usize)> = vec![];
                for cl in (0..nc).filter(|cl| r < sizes[*cl].len()) {
                    let mut fs = fr(cl, r);
                    if mode == 4 && fs.len() > 1 && rng.chance(1, 5) {
                        if rng.chance(1, 2) {
                            fs.pop();
                        } else {
                            fs.remove(rng.below(fs.len() as u64) as usize);
                        }
                    }
                    w.extend(fs);
                }
                rng.shuffle(&mut w);
                if mode == 4 {
                    add_copies(rng, &mut w, 4);
                }
                order.extend(w);
            }
            kind = if mode == 3 { "e2e multi shuffled per round" } else { "e2e multi shuffled per round+copies+loss" };
        }
        // network model: per-client path delay, per-datagram jitter, loss, copies
        5 => {
            let mut timed: Vec<(u64, (usize, usize, usize))> = vec![];
            for cl in 0..nc {
                let path = rng.below(40);
                let mut t = path;
                for i in 0..sizes[cl].len() {
                    for d in fr(cl, i) {
                        t += 10;
                        if rng.chance(1, 10) {
                            continue;
                        }
                        let delay = match rng.below(6) {
                            0 => rng.below(300),
                            1 => rng.below(60),
                            _ => rng.below(15),
                        };
                        timed.push((t + delay, d));
                        if rng.chance(1, 8) {
                            timed.push((t + delay + rng.below(200), d));
                        }
                    }
                }
            }
            timed.sort();
            order = timed.into_iter().map(|(_, d)| d).collect();
            kind = "e2e multi network model (delay/loss/copies)";
        }
        // every client has Q (sometimes Q+1, Q+2) multi-frame packets in flight at once: datagram k of every packet
        // of every client, then datagram k+1 ...
        6 => {
            let longest = (0..nc).flat_map(|cl| sizes[cl].iter().map(|s| e2e_nframes(*s, mtu))).max().unwrap_or(0);
            for f in 0..longest {
                for i in 0..rounds {
                    for cl in 0..nc {
                        if i < sizes[cl].len() && f < e2e_nframes(sizes[cl][i], mtu) {
                            order.push((cl, i, f));
                        }
                    }
                }
            }
            kind = "e2e multi every client fills its slots, round-robin";
        }
        // up to Q packets per client, everything shuffled (+ copies)
        _ => {
            for cl in 0..nc {
                for i in 0..sizes[cl].len() {
                    order.extend(fr(cl, i));
                }
            }
            rng.shuffle(&mut order);
            if rng.chance(1, 2) {
                add_copies(rng, &mut order, 6);
            }
            kind = "e2e multi up to Q packets per client, all shuffled";
        }
    }
    // stay well inside the transport's reorder window (per session)
    for cl in 0..nc {
        let mut total = 0usize;
        for s in sizes[cl].iter_mut() {
            if total + e2e_nframes(*s, mtu) > E2E_MAX_DATAGRAMS {
                *s = p + 1;
            }
            total += e2e_nframes(*s, mtu);
        }
    }
    order.retain(|(cl, i, f)| *f < e2e_nframes(sizes[*cl][*i], mtu));
    Multi { kind: kind.into(), mtu, seed, sizes, order }
}

/// every delivery order of all datagrams of one small multi-frame packet per client, all at the same stream offset
/// (minimum MTU); with `drop_one`, additionally every order of all datagrams but one
fn gen_multi_exhaustive(rng: &mut Rng, frames_per_client: &[usize], drop_one: bool, out: &mut Vec<Multi>) {
    let p = MIN_MTU - HDR;
    let sizes: Vec<Vec<usize>> = frames_per_client.iter().map(|n| vec![(n - 1) * p + rng.range(1, p as u64) as usize]).collect();
    let mut all: Vec<(usize, usize, usize)> = vec![];
    for (cl, n) in frames_per_client.iter().enumerate() {
        all.extend((0..*n).map(|f| (cl, 0, f)));
    }
    let seed = rng.next();
    let mut sets: Vec<Vec<(usize, usize, usize)>> = vec![all.clone()];
    if drop_one {
        for k in 0..all.len() {
            let mut s = all.clone();
            s.remove(k);
            sets.push(s);
        }
    }
    for set in sets {
        let mut perm: Vec<usize> = (0..set.len()).collect();
        loop {
            out.push(Multi { kind: "e2e multi exhaustive".into(), mtu: MIN_MTU as u16, seed, sizes: sizes.clone(), order: perm.iter().map(|k| set[*k]).collect() });
            if !next_perm(&mut perm) {
                break;
            }
        }
    }
}

fn main() {
    let args = Args::parse();
    quiet_panics();
    let mut lean = Lean::spawn(&args.driver);
    let mut rng = Rng::new(args.seed);
    let mut rep = Report::new(
        "C17",
        "case = schedule (queue count + frame sequence) fed to the real Defragmenter and to the Lean model; \
         honest schedules come from the real Fragmenter (boundary-directed sizes/MTUs/stream offsets incl. the u64 \
         wrap, windows of <= Q packets in order/reversed/shuffled/duplicated/lossy, and overload with Q+1..Q+3 \
         packets in flight), exhaustive schedules are all permutations (plus one duplicate / one loss) of the \
         frames of 2-3 small honest packets, hostile schedules are boundary-directed arbitrary frames. \
         Non-trivial = at least one packet emitted from a reassembly queue or at least one error other than \
         invalid_header; distinct by hash of (queues, frame headers, lengths). \
         e2e cases = (direction, client queue count, MTU, packet sizes, delivery schedule of the encrypted \
         datagrams) run through a real EdgeTunServerState + EdgeTunClientState after a WireGuard handshake \
         (windows of <= Q packets, overload Q+1..Q+3, late frames of older packets, delay/loss/copies, all \
         permutations of 2x2 frames on 1 slot and 3x2 frames on 2 slots); non-trivial = a packet handed to the \
         tunnel after reassembly or a completely delivered multi-frame packet not handed over. \
         e2e multi cases = (MTU, packet sizes per client, delivery schedule (client, packet, datagram)) run through \
         ONE real EdgeTunServerState and 2..3 EdgeTunClientStates (distinct identities / tunnel / network addresses, \
         own handshake each) whose packets mostly coincide in stream offset (sequential, last datagram of one \
         client's packet lost, datagram-by-datagram in turn, shuffled + copies + loss, per-client delay model, every \
         client with Q..Q+2 packets in flight, all permutations of 2+2 and 3+2 datagrams incl. one dropped); \
         non-trivial as for e2e",
    );
    let mut schedules: Vec<Schedule> = vec![];
    let mut e2e_cases: Vec<E2e> = vec![];
    let mut multi_cases: Vec<Multi> = vec![];
    for l in read_corpus(&args.corpus) {
        if l.trim_start().starts_with("e2em ") {
            match parse_multi_line(&l) {
                Some(c) => multi_cases.push(c),
                None => rep.notes.push(format!("unparseable e2em corpus line: {}", &l[..l.len().min(60)])),
            }
            continue;
        }
        if l.trim_start().starts_with("e2e ") {
            match parse_e2e_line(&l) {
                Some(c) => e2e_cases.push(c),
                None => rep.notes.push(format!("unparseable e2e corpus line: {}", &l[..l.len().min(60)])),
            }
            continue;
        }
        match parse_corpus_line(&l) {
            Some(s) => schedules.push(s),
            None => rep.notes.push(format!("unparseable corpus line: {}", &l[..l.len().min(40)])),
        }
    }
    let n_corpus = schedules.len() + e2e_cases.len() + multi_cases.len();
    if let Some(p) = &args.replay {
        // replay file: corpus-format lines
        let txt = std::fs::read_to_string(p).expect("replay file");
        schedules = txt.lines().filter(|l| !l.trim_start().starts_with("e2e ") && !l.trim_start().starts_with("e2em ")).filter_map(parse_corpus_line).collect();
        e2e_cases = txt.lines().filter_map(parse_e2e_line).collect();
        multi_cases = txt.lines().filter_map(parse_multi_line).collect();
    } else {
        let n = args.scale(800, 30000);
        for i in 0..n {
            if i % 2 == 0 {
                let s = gen_honest(&mut rng, &mut rep, &mut lean);
                schedules.push(s);
            } else if i % 8 == 1 {
                schedules.push(gen_count_match(&mut rng));
            } else {
                schedules.push(gen_hostile(&mut rng));
            }
        }
        // exhaustive small schedules: 2 packets x 2 frames on 1 and 2 queues (permutations, one duplicate, one loss);
        // 3 packets x 2 frames on 2 queues = Q+1 packets in flight (permutations)
        gen_exhaustive(&mut rng, &mut rep, &[2, 2], &[1, 2], true, &mut schedules);
        gen_exhaustive(&mut rng, &mut rep, &[2, 2, 2], &[2], false, &mut schedules);
        if args.thorough() {
            gen_exhaustive(&mut rng, &mut rep, &[3, 2], &[1, 2, 3], true, &mut schedules);
            gen_exhaustive(&mut rng, &mut rep, &[2, 2, 2], &[1, 3], false, &mut schedules);
            gen_exhaustive(&mut rng, &mut rep, &[2, 2, 2], &[2], true, &mut schedules);
            gen_exhaustive(&mut rng, &mut rep, &[3, 3], &[1, 2], false, &mut schedules);
        }
    }
    // deterministic probes (honest sender, real Fragmenter output)
    if args.replay.is_none() {
        let mk = |fr: &mut Fragmenter, rng: &mut Rng, size: usize| {
            let data = rng.bytes(size);
            let mut frames = vec![];
            let so = catch(|| fr.send(&data, |f| frames.push(f.to_vec()))).ok().and_then(|r| r.ok());
            (so, data, frames)
        };
        let mut probe_failed = false;
        let mut sched = |kind: &'static str, queues: usize, pk: &[&(Option<u64>, Vec<u8>, Vec<Vec<u8>>)], order: &[(usize, usize)]| {
            let mut sent = HashMap::new();
            let mut sent_offs = HashMap::new();
            for (so, data, frames) in pk.iter().map(|x| (&x.0, &x.1, &x.2)) {
                let Some(so) = so else {
                    probe_failed = true;
                    return Schedule { kind, queues, frames: vec![], sent: HashMap::new(), sent_offs: HashMap::new() };
                };
                sent.insert(*so, data.clone());
                sent_offs.insert(*so, frames.iter().map(|f| hd(f).unwrap().1).collect::<Vec<_>>());
            }
            Schedule { kind, queues, frames: order.iter().map(|(a, b)| pk[*a].2[*b].clone()).collect(), sent, sent_offs }
        };
        // a network-duplicated single-frame packet
        let mut fr = Fragmenter::new_unobserved(1500);
        let a = mk(&mut fr, &mut rng, 100);
        schedules.push(sched("probe-single-dup", 2, &[&a], &[(0, 0), (0, 0)]));
        // a network-duplicated 2-frame packet whose slot is reclaimed by another packet before the copies arrive
        let mut fr = Fragmenter::new_unobserved(MIN_MTU);
        let a = mk(&mut fr, &mut rng, 300);
        let b = mk(&mut fr, &mut rng, 300);
        schedules.push(sched("probe-whole-dup", 1, &[&a, &b], &[(0, 0), (0, 1), (1, 0), (0, 0), (0, 1)]));
        // the same copies without any other packet in between must NOT be emitted again
        schedules.push(sched("probe-whole-dup-same-slot", 2, &[&a], &[(0, 0), (0, 1), (0, 1), (0, 0), (0, 0), (0, 1)]));
        // a 2-frame packet that starts at stream offset u64::MAX (the never-used sentinel of the queues), alone
        let mut fr = Fragmenter::new_unobserved(MIN_MTU);
        fr.verif_set_stream_offset(u64::MAX);
        let a = mk(&mut fr, &mut rng, 300);
        let b = mk(&mut fr, &mut rng, 300);
        schedules.push(sched("probe-offset-u64-max", 2, &[&a, &b], &[(0, 0), (0, 1), (1, 1), (1, 0)]));
        if probe_failed {
            rep.spec_fail("C17:panic", "Fragmenter::send panicked or failed on a probe packet (300 bytes at MTU 272, stream offset u64::MAX or small)", json!({"size": 300, "mtu": MIN_MTU}));
        }
    }
    // e2e stream (generated after everything else so that the bare stream of a given seed is unchanged)
    let server_q = server_queue_count();
    if server_q.is_none() {
        rep.notes.push("e2e: queue count of the server's Defragmenter not found in data/server.rs: no liveness oracle / model for the client->server direction".into());
    }
    let n_e2e_corpus = e2e_cases.len();
    if args.replay.is_none() {
        // the late-frame schedule of three 3-frame packets on two slots: 1.0 2.0 fill both slots, 0.0 is too old
        // (HX_FRAG_E2E_NO_PROBE=1 leaves the probe out: used to see whether the generators alone find a change)
        if std::env::var_os("HX_FRAG_E2E_NO_PROBE").is_none() {
            e2e_cases.push(E2e {
                kind: "e2e probe late older packet".into(),
                to_client: true,
                queues: 2,
                mtu: 1420,
                seed: rng.next(),
                sizes: vec![3000, 3000, 3000],
                order: vec![(1, 0), (2, 0), (0, 0), (1, 1), (1, 2), (2, 1), (2, 2), (0, 1), (0, 2)],
            });
        }
        for _ in 0..args.scale(360, 8000) {
            e2e_cases.push(gen_e2e(&mut rng, server_q));
        }
        gen_e2e_exhaustive(&mut rng, &[2, 2], 1, &mut e2e_cases);
        gen_e2e_exhaustive(&mut rng, &[2, 2, 2], 2, &mut e2e_cases);
        if args.thorough() {
            gen_e2e_exhaustive(&mut rng, &[2, 2], 2, &mut e2e_cases);
            gen_e2e_exhaustive(&mut rng, &[3, 2], 1, &mut e2e_cases);
            gen_e2e_exhaustive(&mut rng, &[2, 3], 1, &mut e2e_cases);
            gen_e2e_exhaustive(&mut rng, &[2, 2, 2], 1, &mut e2e_cases);
            gen_e2e_exhaustive(&mut rng, &[2, 2, 2], 3, &mut e2e_cases);
            gen_e2e_exhaustive(&mut rng, &[3, 2, 2], 2, &mut e2e_cases);
            gen_e2e_exhaustive(&mut rng, &[2, 2, 2, 2], 3, &mut e2e_cases);
        }
    }
    // multi-client stream (generated last: the streams above are unchanged for a given seed)
    let n_multi_corpus = multi_cases.len();
    if args.replay.is_none() {
        if std::env::var_os("HX_FRAG_E2E_NO_PROBE").is_none() {
            // two clients, one 3-datagram packet each at the same stream offset: one after the other; the first
            // one without its last datagram; datagram by datagram in turn
            let probe = |kind: &str, seed: u64, order: &[(usize, usize, usize)]| Multi { kind: kind.into(), mtu: 1420, seed, sizes: vec![vec![3000], vec![3000]], order: order.to_vec() };
            multi_cases.push(probe("e2e multi probe one after the other", rng.next(), &[(0, 0, 0), (0, 0, 1), (0, 0, 2), (1, 0, 0), (1, 0, 1), (1, 0, 2)]));
            multi_cases.push(probe("e2e multi probe first client's last datagram lost", rng.next(), &[(0, 0, 0), (0, 0, 1), (1, 0, 0), (1, 0, 1), (1, 0, 2)]));
            multi_cases.push(probe("e2e multi probe in turn", rng.next(), &[(0, 0, 0), (1, 0, 0), (0, 0, 1), (1, 0, 1), (0, 0, 2), (1, 0, 2)]));
        }
        for _ in 0..args.scale(220, 6000) {
            multi_cases.push(gen_multi(&mut rng, server_q));
        }
        gen_multi_exhaustive(&mut rng, &[2, 2], true, &mut multi_cases);
        gen_multi_exhaustive(&mut rng, &[3, 2], true, &mut multi_cases);
        if args.thorough() {
            gen_multi_exhaustive(&mut rng, &[3, 3], false, &mut multi_cases);
            gen_multi_exhaustive(&mut rng, &[2, 2, 2], false, &mut multi_cases);
        }
    }
    rep.hit_n("corpus schedules", n_corpus as u64);
    for s in &schedules {
        let o = run_schedule(s, &mut Some(&mut lean));
        let canon = format!("{}|{}", s.queues, s.frames.iter().map(|f| hex(&f[..f.len().min(HDR)]) + &f.len().to_string()).collect::<Vec<_>>().join(","));
        let nontrivial = o.emitted_from_queue > 0 || o.labels.iter().any(|l| l.starts_with("err") && l != "err invalid_header");
        rep.case(&canon, nontrivial);
        rep.traces += 1;
        rep.hit(&format!("schedule {}", s.kind));
        rep.hit(&format!("queues {}", match s.queues { 0 => "0", 1 => "1", 2 => "2", 3..=5 => "3-5", _ => "6+" }));
        rep.hit_n("frames fed", s.frames.len() as u64);
        for l in &o.labels {
            rep.hit(&format!("out {l}"));
        }
        rep.hit_n("packets emitted from a queue", o.emitted_from_queue as u64);
        rep.hit_n("liveness demanded (slot provably not reclaimed)", o.liveness_claims as u64);
        rep.hit_n("liveness demanded despite duplicates/interleaving before completion", o.liveness_claims_disturbed as u64);
        if !s.sent.is_empty() {
            let multi: HashSet<u64> = s.frames.iter().filter(|f| !is_fast(f)).filter_map(|f| hd(f).map(|h| h.0)).collect();
            if multi.len() > s.queues {
                rep.hit("honest schedule with more multi-frame packets than queues");
            }
        }
        if rep.samples.len() < 4 && nontrivial && s.frames.len() <= 8 {
            rep.sample(json!({"schedule": sched_json(s), "outputs": o.labels}));
        }
        if let Some((i, im, mo)) = &o.disagree {
            let small = shrink(s, &mut lean, &|o: &Outcome| o.disagree.is_some());
            let o2 = run_schedule(&small, &mut Some(&mut lean));
            let (i2, im2, mo2) = o2.disagree.clone().unwrap_or((*i, im.clone(), mo.clone()));
            rep.disagree("defragmenter", json!({"schedule": sched_json(&small), "line": sched_line(&small), "frame": i2}), &im2, &mo2);
        }
        let mut seen = std::collections::HashSet::new();
        for (key, what) in &o.spec {
            if !seen.insert(key.clone()) {
                continue;
            }
            let k = key.clone();
            let small = shrink(s, &mut lean, &|o: &Outcome| o.spec.iter().any(|(kk, _)| *kk == k));
            let o2 = run_schedule(&small, &mut Some(&mut lean));
            let what2 = o2.spec.iter().find(|(kk, _)| *kk == k).map(|(_, w)| w.clone()).unwrap_or(what.clone());
            rep.spec_fail(key, &what2, json!({"schedule": sched_json(&small), "line": sched_line(&small)}));
        }
    }
    let mut e2e_samples = 0;
    let e2e_t0 = Instant::now();
    for (ci, c) in e2e_cases.iter().enumerate() {
        // model correspondence on every case of the corpus / replay / probes / random stream and on every third
        // exhaustive permutation (the Lean driver costs ~1 ms per frame)
        let with_model = c.kind != "e2e exhaustive" || ci % 3 == 0;
        let o = if with_model { run_e2e(c, &mut Some(&mut lean), server_q) } else { run_e2e(c, &mut None, server_q) };
        let canon = format!("e2e|{}|{}|{}|{:?}|{:?}", c.to_client, c.queues, c.mtu, c.sizes, c.order);
        let nontrivial = o.handed_over_reassembled > 0 || o.complete_not_handed_over > 0;
        rep.case(&canon, nontrivial);
        rep.traces += 1;
        rep.hit(&format!("schedule {}", c.kind));
        rep.hit(if c.to_client { "e2e direction server->client" } else { "e2e direction client->server" });
        if c.to_client {
            rep.hit(&format!("e2e client queues {}", c.queues));
        }
        let eff = (c.mtu as usize).clamp(MIN_MTU, MAX_MTU);
        rep.hit(&format!("e2e mtu {}", if c.mtu as usize != eff { "clamped (below MIN / above MAX)" } else if eff == MIN_MTU || eff == MAX_MTU { "at MIN / MAX" } else { "inside" }));
        for (nf, sz) in o.frames_per_packet.iter().zip(&c.sizes) {
            rep.hit(&format!("e2e datagrams/packet {}", match nf { 0 => "0 (rejected: empty / oversize)", 1 => "1", 2 => "2", 3..=8 => "3-8", _ => "9+" }));
            let p = eff - HDR;
            if *sz > 0 && (sz % p == 0 || sz % p == 1 || sz % p == p - 1) {
                rep.hit("e2e packet size within 1 of a multiple of the frame payload");
            }
            if *sz >= MAX_PACKET_SIZE - 1 {
                rep.hit("e2e packet size MAX-1 / MAX / MAX+1");
            }
        }
        rep.hit_n("e2e datagrams delivered", o.labels.len() as u64);
        rep.hit_n("e2e copies of a datagram delivered (dropped by the transport)", o.dup_dropped as u64);
        rep.hit_n("e2e packets handed to the tunnel", o.handed_over as u64);
        rep.hit_n("e2e packets handed to the tunnel after reassembly", o.handed_over_reassembled as u64);
        rep.hit_n("e2e multi-frame packets completely delivered but not handed over (evicted / refused as too old)", o.complete_not_handed_over as u64);
        rep.hit_n("e2e liveness demanded (multi-frame)", o.claims as u64);
        rep.hit_n("e2e liveness demanded only because older packets cannot reclaim", o.claims_older_only as u64);
        rep.hit_n("e2e liveness demanded despite interleaving before completion", o.claims_disturbed as u64);
        rep.hit_n("e2e liveness demanded (single-frame)", o.singles_claimed as u64);
        rep.hit_n("e2e frames fed to the model", o.model_frames as u64);
        {
            let multi = o.frames_per_packet.iter().filter(|n| **n > 1).count();
            let q = if c.to_client { Some(c.queues) } else { server_q };
            if q.map_or(false, |q| multi > q) {
                rep.hit("e2e case with more multi-frame packets than slots");
            }
        }
        if e2e_samples < 2 && nontrivial && c.order.len() <= 9 && c.kind != "e2e exhaustive" {
            e2e_samples += 1;
            rep.samples.truncate(4);
            rep.sample(e2e_json(c, &o));
        }
        if let Some((k, im, mo)) = &o.disagree {
            rep.disagree("e2e-glue", json!({"case": e2e_json(c, &o), "line": e2e_line(c), "step": k}), im, mo);
        }
        let mut seen = std::collections::HashSet::new();
        for (key, what) in &o.spec {
            if !seen.insert(key.clone()) {
                continue;
            }
            let small = shrink_e2e(c, server_q, key);
            let o2 = run_e2e(&small, &mut None, server_q);
            let what2 = o2.spec.iter().find(|(kk, _)| kk == key).map(|(_, w)| w.clone()).unwrap_or(what.clone());
            let mut j = e2e_json(&small, &o2);
            j["found_in"] = json!(e2e_line(c));
            rep.spec_fail(key, &what2, j);
        }
    }
    rep.hit_n("corpus e2e cases", n_e2e_corpus as u64);
    eprintln!("[hx_frag] e2e stream: {} cases in {:.1} s", e2e_cases.len(), e2e_t0.elapsed().as_secs_f64());
    let multi_t0 = Instant::now();
    let mut multi_samples = 0;
    for (ci, c) in multi_cases.iter().enumerate() {
        let with_model = c.kind != "e2e multi exhaustive" || ci % 3 == 0;
        let o = if with_model { run_multi(c, &mut Some(&mut lean), server_q) } else { run_multi(c, &mut None, server_q) };
        let canon = format!("e2em|{}|{:?}|{:?}", c.mtu, c.sizes, c.order);
        let nontrivial = o.handed_over_reassembled > 0 || o.complete_not_handed_over > 0;
        rep.case(&canon, nontrivial);
        rep.traces += 1;
        rep.hit(&format!("schedule {}", c.kind));
        rep.hit(&format!("e2e multi clients {}", c.sizes.len()));
        rep.hit_n("e2e multi datagrams delivered", o.labels.len() as u64);
        rep.hit_n("e2e multi copies of a datagram delivered (dropped by the transport)", o.dup_dropped as u64);
        rep.hit_n("e2e multi packets handed to the tunnel", o.handed_over as u64);
        rep.hit_n("e2e multi packets handed to the tunnel after reassembly", o.handed_over_reassembled as u64);
        rep.hit_n("e2e multi multi-frame packets completely delivered but not handed over", o.complete_not_handed_over as u64);
        rep.hit_n("e2e multi pairs of multi-frame packets of different clients at the same stream offset, both (partly) delivered", o.coinciding as u64);
        rep.hit_n("e2e multi liveness demanded (multi-frame)", o.claims as u64);
        rep.hit_n("e2e multi liveness demanded only because older packets cannot reclaim", o.claims_older_only as u64);
        rep.hit_n("e2e multi liveness demanded with datagrams of other clients in between", o.claims_other_client_interleaved as u64);
        rep.hit_n("e2e multi liveness demanded with another client's multi-frame packet at the same stream offset", o.claims_other_client_same_offset as u64);
        rep.hit_n("e2e multi liveness demanded (single-frame)", o.singles_claimed as u64);
        rep.hit_n("e2e multi frames fed to the per-tunnel models", o.model_frames as u64);
        if let Some(q) = server_q {
            let multi_total: usize = o.frames_per_packet.iter().map(|v| v.iter().filter(|n| **n > 1).count()).sum();
            if multi_total > q && o.frames_per_packet.iter().all(|v| v.iter().filter(|n| **n > 1).count() <= q) {
                rep.hit("e2e multi case with more multi-frame packets than slots in total, at most Q per client");
            }
        }
        if multi_samples < 1 && nontrivial && c.order.len() <= 10 && c.kind != "e2e multi exhaustive" && o.coinciding > 0 {
            multi_samples += 1;
            rep.samples.truncate(5);
            rep.sample(multi_json(c, &o));
        }
        if let Some((k, im, mo)) = &o.disagree {
            rep.disagree("e2e-glue-multi", json!({"case": multi_json(c, &o), "line": multi_line(c), "step": k}), im, mo);
        }
        let mut seen = std::collections::HashSet::new();
        for (key, what) in &o.spec {
            if !seen.insert(key.clone()) {
                continue;
            }
            let small = shrink_multi(c, server_q, key);
            let o2 = run_multi(&small, &mut None, server_q);
            let what2 = o2.spec.iter().find(|(kk, _)| kk == key).map(|(_, w)| w.clone()).unwrap_or(what.clone());
            let mut j = multi_json(&small, &o2);
            j["found_in"] = json!(multi_line(c));
            rep.spec_fail(key, &what2, j);
        }
    }
    rep.hit_n("corpus e2e multi cases", n_multi_corpus as u64);
    eprintln!("[hx_frag] e2e multi-client stream: {} cases in {:.1} s", multi_cases.len(), multi_t0.elapsed().as_secs_f64());
    if rep.samples.is_empty() {
        if let Some(s) = schedules.first() {
            rep.sample(sched_json(s));
        }
    }
    rep.write(&args.out);
    std::process::exit(if rep.ok() { 0 } else { 1 });
}
