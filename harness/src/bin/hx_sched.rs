//! C20 — trace inclusion + spec oracle for the path-manager concurrency protocol
//! (`scion_stack::path::manager::MultiPathManager`: callers of `path()` / `cached_path()`, the per-pair worker
//! task, `stop_managing_paths`, idle removal, drop of the manager).
//!
//! A case is a *schedule*: runtime flavour (current-thread / multi-thread) + a program of harness operations
//! executed against the REAL `MultiPathManager` with a gated mock `PathFetcher`:
//!   `S.<kind>.<key>.<n>` spawn n concurrent callers, `R.<key>.<ok|empty|err>` let the oldest pending lookup of
//!   the pair finish (or pre-arm the next one), `T.<key>` stop_managing_paths, `D` drop the user's manager,
//!   `I` wait out the idle period, `A` finish all pending lookups, `Y` synchronise.
//! At every `Y` the harness waits for the real system to become quiescent, then builds a *witness schedule*
//! of model actions (lock-region granularity: worker setOngoing / fetchDone / setErr / publishActive /
//! clearAndNotify / … / exitNotify / storeNone, caller peek / ensure / loadActive / lockCheck / awake / reload /
//! readErr, manager stop / drop) and replays it on the compiled Lean model (`drv_sched`): every action must be
//! enabled (`ok`), and the model's observable state must equal what the real system showed – per caller
//! (finished?, result), per pair (number of fetcher invocations = number of workers that started a lookup),
//! fetcher dropped (= manager value gone), number of live tokio tasks (= callers + workers not yet finished).
//! Where the real outcome depends on a race the model also allows (a caller woken by a worker that is already
//! on its way out reads the path or the exit error), the witness is chosen by the observed result
//! (`save`/`restore` on the driver); a result the model cannot produce at any position is a disagreement.
//!
//! Spec oracle (independent of the model), applied to the real system:
//!  * `C20:waiter-not-released`  a `path()` future still pending although no lookup of its pair is pending;
//!  * `C20:two-workers`          more than one fetcher invocation for a pair before any removal of that pair;
//!  * `C20:worker-not-stopped`   tokio tasks still alive / fetcher not dropped after the manager was dropped and
//!                               all lookups finished;
//!  * `C20:path-after-drop`      a held `PathSetHandle` that, after the drop and the end of all tasks, does not show
//!                               initialized ∧ ¬ongoing ∧ exit error ∧ empty active slot;
//!  * `C20:bad-result`, `C20:panic`  a caller returned something that is neither a served path nor an error.
use std::{
    collections::{HashMap, HashSet, VecDeque},
    sync::{
        Arc, Mutex,
        atomic::{AtomicBool, Ordering},
    },
    time::{Duration, Instant, SystemTime},
};

use scion_stack::path::{
    PathStrategy,
    fetcher::traits::{PathFetchError, PathFetcher},
    manager::{MultiPathManager, MultiPathManagerConfig, traits::{PathManager, PathWaitError}, verif_sched::VerifHandle},
};
use sciparse::{
    address::ip_addr::ScionIpAddr,
    identifier::{asn::Asn, isd::Isd, isd_asn::IsdAsn},
    path::ScionPath,
    util::test_builder::TestPathBuilder,
};
use serde_json::json;
use tokio::sync::Semaphore;
use verif_harness::*;

// ---------------------------------------------------------------------------------------------------------
// schedule
// ---------------------------------------------------------------------------------------------------------

#[derive(Clone, Copy, PartialEq, Eq, Debug)]
enum Resp {
    Ok,
    /// a path that is about to expire: cached, but never made active; the worker refetches after
    /// `min_refetch_delay`
    Near,
    Empty,
    Err,
}
impl Resp {
    fn s(self) -> &'static str {
        match self {
            Resp::Ok => "ok",
            Resp::Near => "near",
            Resp::Empty => "empty",
            Resp::Err => "err",
        }
    }
}

#[derive(Clone, Copy, PartialEq, Eq, Debug)]
enum Kind {
    Path,
    PathWait,
    Cached,
    /// `PathSetHandle::active_path()` + `current_error()` on a bare handle (verif-hooks): the newest handle the
    /// harness knows for the pair
    Handle,
    /// … the oldest one (possibly of a worker that was removed / has exited long ago)
    HandleOld,
}

#[derive(Clone, Debug, PartialEq)]
enum Op {
    Spawn { kind: Kind, key: usize, n: usize },
    Release { key: usize, resp: Resp },
    Stop { key: usize },
    DropMgr,
    IdleWait,
    RefetchWait,
    ReleaseAll { resp: Resp },
    Sync,
}

#[derive(Clone, Debug)]
struct Sched {
    /// 0 = current-thread runtime, n>0 = multi-thread runtime with n workers
    threads: usize,
    /// max_idle_period in ms (0 = default 2 min, i.e. never during the schedule)
    idle_ms: u64,
    /// max_cached_paths_per_pair (None = default 50)
    cap: Option<usize>,
    /// min_refetch_delay in ms (0 = default 60 s): a worker whose last lookup returned only near-expiry
    /// paths refetches after this delay
    refetch_ms: u64,
    ops: Vec<Op>,
}

fn sched_line(s: &Sched) -> String {
    let ops: Vec<String> = s
        .ops
        .iter()
        .map(|o| match o {
            Op::Spawn { kind, key, n } => format!(
                "S.{}.{key}.{n}",
                match kind {
                    Kind::Path => "p",
                    Kind::PathWait => "w",
                    Kind::Cached => "c",
                    Kind::Handle => "h",
                    Kind::HandleOld => "o",
                }
            ),
            Op::Release { key, resp } => format!("R.{key}.{}", resp.s()),
            Op::Stop { key } => format!("T.{key}"),
            Op::DropMgr => "D".into(),
            Op::IdleWait => "I".into(),
            Op::RefetchWait => "W".into(),
            Op::ReleaseAll { resp } => format!("A.{}", resp.s()),
            Op::Sync => "Y".into(),
        })
        .collect();
    format!(
        "rt={} idle={}{}{} ops={}",
        if s.threads == 0 { "ct".to_string() } else { format!("mt{}", s.threads) },
        s.idle_ms,
        match s.cap {
            Some(c) => format!(" cap={c}"),
            None => String::new(),
        },
        if s.refetch_ms > 0 { format!(" refetch={}", s.refetch_ms) } else { String::new() },
        ops.join(";")
    )
}

fn parse_resp(s: &str) -> Option<Resp> {
    match s {
        "ok" => Some(Resp::Ok),
        "near" => Some(Resp::Near),
        "empty" => Some(Resp::Empty),
        "err" => Some(Resp::Err),
        _ => None,
    }
}

fn parse_sched(line: &str) -> Option<Sched> {
    let mut threads = 0usize;
    let mut idle_ms = 0u64;
    let mut cap = None;
    let mut refetch_ms = 0u64;
    let mut ops = vec![];
    for tok in line.split_whitespace() {
        let (k, v) = tok.split_once('=')?;
        match k {
            "rt" => {
                threads = if v == "ct" { 0 } else { v.strip_prefix("mt")?.parse().ok()? };
            }
            "idle" => idle_ms = v.parse().ok()?,
            "cap" => cap = Some(v.parse().ok()?),
            "refetch" => refetch_ms = v.parse().ok()?,
            "ops" => {
                for o in v.split(';').filter(|x| !x.is_empty()) {
                    let p: Vec<&str> = o.split('.').collect();
                    let op = match p.as_slice() {
                        ["S", k, key, n] => Op::Spawn {
                            kind: match *k {
                                "p" => Kind::Path,
                                "w" => Kind::PathWait,
                                "c" => Kind::Cached,
                                "h" => Kind::Handle,
                                "o" => Kind::HandleOld,
                                _ => return None,
                            },
                            key: key.parse().ok()?,
                            n: n.parse().ok()?,
                        },
                        ["R", key, r] => Op::Release { key: key.parse().ok()?, resp: parse_resp(r)? },
                        ["T", key] => Op::Stop { key: key.parse().ok()? },
                        ["D"] => Op::DropMgr,
                        ["I"] => Op::IdleWait,
                        ["W"] => Op::RefetchWait,
                        ["A", r] => Op::ReleaseAll { resp: parse_resp(r)? },
                        ["Y"] => Op::Sync,
                        _ => return None,
                    };
                    ops.push(op);
                }
            }
            _ => return None,
        }
    }
    Some(Sched { threads, idle_ms, cap, refetch_ms, ops })
}

// ---------------------------------------------------------------------------------------------------------
// gated mock fetcher
// ---------------------------------------------------------------------------------------------------------

const NKEYS: usize = 4;

fn key_pair(k: usize) -> (IsdAsn, IsdAsn) {
    (IsdAsn::new(Isd(1), Asn(1)), IsdAsn::new(Isd(2), Asn(10 + k as u64)))
}

fn mk_path(key: usize, id: u32, near: bool) -> ScionPath {
    let (src, dst) = key_pair(key);
    let s = ScionIpAddr::new(src, std::net::IpAddr::V4(std::net::Ipv4Addr::LOCALHOST));
    let d = ScionIpAddr::new(dst, std::net::IpAddr::V4(std::net::Ipv4Addr::new(127, 0, 0, 2)));
    let now = SystemTime::now().duration_since(SystemTime::UNIX_EPOCH).unwrap().as_secs() as u32;
    // hop expiry unit = 337.5 s: near = expires in ~137 s (< min_expiry_threshold = 300 s), else in ~9 h
    let (ts, exp) = if near { (now - 200, 0u8) } else { (now, 100u8) };
    let h = (id % 60000) as u16;
    TestPathBuilder::new(s.into(), d.into())
        .using_info_timestamp(ts)
        .with_hop_expiry(exp)
        .up()
        .add_hop(0, 1)
        .with_asn(1000 + id)
        .add_hop(h + 2, h + 3)
        .with_asn(5000 + id)
        .add_hop(h + 4, h + 5)
        .add_hop(1, 0)
        .build(ts)
        .path()
}

#[derive(Default)]
struct KeyGate {
    /// number of `fetch_paths` invocations so far
    starts: usize,
    /// tickets waiting for a response: (ticket, semaphore)
    waiting: VecDeque<(usize, Arc<Semaphore>)>,
    /// responses assigned to released tickets
    assigned: HashMap<usize, (Resp, u32)>,
    /// responses armed before the lookup started (the next lookups complete immediately)
    pre: VecDeque<(Resp, u32)>,
    /// completed lookups
    ends: usize,
}

struct GateShared {
    keys: Mutex<Vec<KeyGate>>,
    /// path id -> (key, path)
    served: Mutex<HashMap<u32, (usize, ScionPath)>>,
    dropped: AtomicBool,
}

impl GateShared {
    fn new() -> Arc<Self> {
        Arc::new(GateShared {
            keys: Mutex::new((0..NKEYS).map(|_| KeyGate::default()).collect()),
            served: Mutex::new(HashMap::new()),
            dropped: AtomicBool::new(false),
        })
    }
    /// complete the oldest pending lookup of `key`, or arm the next one
    fn release(&self, key: usize, resp: Resp, id: u32) {
        let mut g = self.keys.lock().unwrap();
        let kg = &mut g[key];
        if let Some((ticket, sem)) = kg.waiting.pop_front() {
            kg.assigned.insert(ticket, (resp, id));
            sem.add_permits(1);
        } else {
            kg.pre.push_back((resp, id));
        }
    }
    fn starts(&self) -> Vec<usize> {
        self.keys.lock().unwrap().iter().map(|k| k.starts).collect()
    }
    fn pending(&self) -> Vec<usize> {
        self.keys.lock().unwrap().iter().map(|k| k.waiting.len()).collect()
    }
    fn armed(&self) -> Vec<usize> {
        self.keys.lock().unwrap().iter().map(|k| k.pre.len()).collect()
    }
    fn ends(&self) -> Vec<usize> {
        self.keys.lock().unwrap().iter().map(|k| k.ends).collect()
    }
}

struct GFetcher(Arc<GateShared>);
impl Drop for GFetcher {
    fn drop(&mut self) {
        self.0.dropped.store(true, Ordering::SeqCst);
    }
}

impl PathFetcher for GFetcher {
    async fn fetch_paths(&self, src: IsdAsn, dst: IsdAsn) -> Result<Vec<ScionPath>, PathFetchError> {
        let key = (0..NKEYS).find(|k| key_pair(*k) == (src, dst)).expect("unknown pair");
        let (ticket, wait) = {
            let mut g = self.0.keys.lock().unwrap();
            let kg = &mut g[key];
            let ticket = kg.starts;
            kg.starts += 1;
            if let Some(r) = kg.pre.pop_front() {
                kg.assigned.insert(ticket, r);
                (ticket, None)
            } else {
                let sem = Arc::new(Semaphore::new(0));
                kg.waiting.push_back((ticket, sem.clone()));
                (ticket, Some(sem))
            }
        };
        if let Some(sem) = wait {
            sem.acquire().await.expect("semaphore closed").forget();
        }
        let (resp, id) = {
            let mut g = self.0.keys.lock().unwrap();
            let kg = &mut g[key];
            kg.ends += 1;
            kg.assigned.remove(&ticket).expect("released ticket has a response")
        };
        match resp {
            Resp::Ok | Resp::Near => {
                let p = mk_path(key, id, resp == Resp::Near);
                self.0.served.lock().unwrap().insert(id, (key, p.clone()));
                Ok(vec![p])
            }
            Resp::Empty => Ok(vec![]),
            Resp::Err => Err(PathFetchError::InternalError("mock lookup failure".into())),
        }
    }
}

// ---------------------------------------------------------------------------------------------------------
// the real side
// ---------------------------------------------------------------------------------------------------------

/// what the harness can see of a caller task from outside: polled at least once, not being polled right
/// now, no wake-up pending.  (Under load a runtime thread may be descheduled for milliseconds in the middle of
/// `path()`; "nothing observable changes" alone is not a reliable sign of quiescence.)
#[derive(Default)]
struct ProbeState {
    polls: std::sync::atomic::AtomicUsize,
    polling: AtomicBool,
    woken: AtomicBool,
    done: AtomicBool,
}

struct ProbeWaker {
    inner: std::task::Waker,
    st: Arc<ProbeState>,
}
impl std::task::Wake for ProbeWaker {
    fn wake(self: Arc<Self>) {
        self.st.woken.store(true, Ordering::SeqCst);
        self.inner.wake_by_ref();
    }
    fn wake_by_ref(self: &Arc<Self>) {
        self.st.woken.store(true, Ordering::SeqCst);
        self.inner.wake_by_ref();
    }
}

struct Probe<F> {
    inner: std::pin::Pin<Box<F>>,
    st: Arc<ProbeState>,
}
impl<F: std::future::Future> std::future::Future for Probe<F> {
    type Output = F::Output;
    fn poll(mut self: std::pin::Pin<&mut Self>, cx: &mut std::task::Context<'_>) -> std::task::Poll<F::Output> {
        let st = self.st.clone();
        st.polling.store(true, Ordering::SeqCst);
        st.woken.store(false, Ordering::SeqCst);
        let waker = std::task::Waker::from(Arc::new(ProbeWaker { inner: cx.waker().clone(), st: st.clone() }));
        let mut cx2 = std::task::Context::from_waker(&waker);
        let r = self.inner.as_mut().poll(&mut cx2);
        if r.is_ready() {
            st.done.store(true, Ordering::SeqCst);
        }
        st.polls.fetch_add(1, Ordering::SeqCst);
        st.polling.store(false, Ordering::SeqCst);
        r
    }
}
impl ProbeState {
    fn settled(&self) -> bool {
        self.done.load(Ordering::SeqCst)
            || (self.polls.load(Ordering::SeqCst) > 0 && !self.polling.load(Ordering::SeqCst) && !self.woken.load(Ordering::SeqCst))
    }
}

struct RealWaiter {
    probe: Arc<ProbeState>,
    kind: Kind,
    key: usize,
    handle: tokio::task::JoinHandle<String>,
    result: Option<String>,
}

fn classify_err(gate: &GateShared, e: &PathFetchError) -> String {
    let _ = gate;
    match e {
        PathFetchError::NoPathsFound => "err:noPaths".into(),
        PathFetchError::InternalError(m) => {
            if let Some(r) = m.strip_prefix("PathSet task exited: ") {
                match r {
                    "idle" => "err:exited:idle".into(),
                    "cancelled" => "err:exited:cancelled".into(),
                    "manager dropped" => "err:exited:mgrGone".into(),
                    o => format!("err:exited:?{o}"),
                }
            } else if m == "mock lookup failure" {
                "err:fetchFailed".into()
            } else {
                format!("err:?{m}")
            }
        }
        o => format!("err:?{o}"),
    }
}

/// class of a `current_error` display string (verif-hooks `sync_state`)
fn classify_err_text(t: &str) -> String {
    if t == "no paths found" {
        "noPaths".into()
    } else if let Some(m) = t.strip_prefix("internal error: ") {
        if let Some(r) = m.strip_prefix("PathSet task exited: ") {
            match r {
                "idle" => "exited:idle".into(),
                "cancelled" => "exited:cancelled".into(),
                "manager dropped" => "exited:mgrGone".into(),
                o => format!("exited:?{o}"),
            }
        } else if m == "mock lookup failure" {
            "fetchFailed".into()
        } else {
            format!("?{m}")
        }
    } else {
        format!("?{t}")
    }
}

fn handle_state(gate: &GateShared, key: usize, h: &VerifHandle) -> String {
    let st = h.sync_state();
    let active = match &st.active {
        Some(p) => classify_path(gate, key, p).trim_start_matches("path:").to_string(),
        None => "-".into(),
    };
    format!(
        "init={} ongoing={} err={} active={}",
        st.initialized as u8,
        st.ongoing as u8,
        st.error.as_deref().map(classify_err_text).unwrap_or_else(|| "-".into()),
        active
    )
}

fn classify_path(gate: &GateShared, key: usize, p: &ScionPath) -> String {
    let served = gate.served.lock().unwrap();
    for (id, (k, sp)) in served.iter() {
        if *k == key && sp.fingerprint() == p.fingerprint() {
            return format!("path:{id}");
        }
    }
    "path:?".into()
}

struct Real {
    gate: Arc<GateShared>,
    mgr: Option<MultiPathManager<GFetcher>>,
    waiters: Vec<RealWaiter>,
    threads: usize,
    /// a removal of the pair has been requested / may have happened (stop, idle wait, drop)
    removal_possible: Vec<bool>,
    /// handles captured at synchronisation points: (pair, handle, index of the worker in the model)
    handles: Vec<(usize, VerifHandle, usize)>,
    idle_ms: u64,
    refetch_ms: u64,
    t0: Instant,
}

#[derive(Clone, PartialEq, Debug)]
struct Obs {
    finished: Vec<bool>,
    starts: Vec<usize>,
    ends: Vec<usize>,
    dropped: bool,
    alive_tasks: usize,
    /// caller tasks that have not been polled yet, are being polled, or have a wake-up pending
    busy: usize,
}

impl Real {
    /// the handle a `Handle` / `HandleOld` caller would use, with the model index of its worker
    fn pick_handle(&self, kind: Kind, key: usize) -> Option<(VerifHandle, usize)> {
        let mut it = self.handles.iter().filter(|(k, _, _)| *k == key);
        let h = if kind == Kind::HandleOld { it.next() } else { it.last() };
        h.map(|(_, h, i)| (h.clone(), *i))
    }

    fn spawn_handle(&mut self, kind: Kind, key: usize, h: VerifHandle) {
        let gate = self.gate.clone();
        let probe = Arc::new(ProbeState::default());
        let fut = async move {
            match h.path().await {
                Ok(p) => classify_path(&gate, key, &p),
                Err(Some(e)) => classify_err(&gate, &e),
                Err(None) => "err:noPaths".into(),
            }
        };
        let handle = tokio::spawn(Probe { inner: Box::pin(fut), st: probe.clone() });
        self.waiters.push(RealWaiter { probe, kind, key, handle, result: None });
    }

    fn spawn(&mut self, kind: Kind, key: usize) {
        let mgr = self.mgr.as_ref().expect("spawn after drop").clone();
        let gate = self.gate.clone();
        let (src, dst) = key_pair(key);
        let probe = Arc::new(ProbeState::default());
        let fut = async move {
            let out = match kind {
                Kind::Handle | Kind::HandleOld => unreachable!(),
                Kind::Path => match mgr.path(src, dst, SystemTime::now()).await {
                    Ok(p) => classify_path(&gate, key, &p),
                    Err(e) => classify_err(&gate, &e),
                },
                Kind::PathWait => match mgr.path_wait(src, dst, SystemTime::now()).await {
                    Ok(p) => classify_path(&gate, key, &p),
                    Err(PathWaitError::NoPathFound) => "err:noPaths".into(),
                    Err(PathWaitError::FetchFailed(e)) => classify_err(&gate, &e),
                    Err(o) => format!("err:?{o}"),
                },
                Kind::Cached => match mgr.cached_path(src, dst, SystemTime::now()) {
                    Some(p) => classify_path(&gate, key, &p),
                    None => "nothing".into(),
                },
            };
            drop(mgr);
            out
        };
        let handle = tokio::spawn(Probe { inner: Box::pin(fut), st: probe.clone() });
        self.waiters.push(RealWaiter { probe, kind, key, handle, result: None });
    }

    async fn collect(&mut self) {
        for w in self.waiters.iter_mut() {
            if w.result.is_none() && w.handle.is_finished() {
                w.result = Some(match (&mut w.handle).await {
                    Ok(s) => s,
                    Err(e) => format!("panic:{e}"),
                });
            }
        }
    }

    async fn observe(&mut self) -> Obs {
        self.collect().await;
        Obs {
            finished: self.waiters.iter().map(|w| w.result.is_some()).collect(),
            starts: self.gate.starts(),
            ends: self.gate.ends(),
            dropped: self.gate.dropped.load(Ordering::SeqCst),
            alive_tasks: tokio::runtime::Handle::current().metrics().num_alive_tasks(),
            busy: self.waiters.iter().filter(|w| !w.probe.settled()).count(),
        }
    }

    /// wait until the observable state stops changing
    async fn quiesce(&mut self, extra: bool) -> Obs {
        let t0 = Instant::now();
        let mut last = self.observe().await;
        let mut stable = 0;
        let need = if self.threads == 0 { 2 } else if extra { 8 } else { 4 };
        loop {
            if self.threads == 0 {
                for _ in 0..40 {
                    tokio::task::yield_now().await;
                }
            } else {
                tokio::time::sleep(Duration::from_micros(250)).await;
            }
            let o = self.observe().await;
            if o == last && o.busy == 0 {
                stable += 1;
                if stable >= need {
                    return o;
                }
            } else {
                stable = 0;
                last = o;
            }
            if t0.elapsed() > Duration::from_secs(3) {
                return last;
            }
        }
    }
}

// ---------------------------------------------------------------------------------------------------------
// the model side: witness construction
// ---------------------------------------------------------------------------------------------------------

struct MWorker {
    key: usize,
    resp: Option<(Resp, u32)>,
    /// some lookup of this worker returned a near-expiry path (it stays cached ⇒ the worker keeps refetching)
    ever_near: bool,
}

struct Model<'a> {
    lean: &'a mut Lean,
    /// every request sent since the last reset (for the report)
    log: Vec<String>,
    /// first action the model refused
    refused: Option<String>,
    workers: Vec<MWorker>,
    /// mirror of the gate: workers with a pending lookup per pair, in the order they started it
    inflight: Vec<VecDeque<usize>>,
    /// responses armed before any lookup of the pair was pending (taken by the next lookup that starts)
    prearmed: Vec<VecDeque<(Resp, u32)>>,
    /// responses handed to a pending lookup of worker i
    assigned: HashMap<usize, VecDeque<(Resp, u32)>>,
    n_waiters: usize,
    done: Vec<bool>,
    actions: u64,
    /// timers assumed to have fired: (worker, 1 = idle check finds the pair unused | 2 = refetch)
    timer_due: HashSet<(usize, u8)>,
    /// observed exit reason of a worker whose handle the harness holds (verif-hooks)
    exit_hint: HashMap<usize, String>,
    /// how often each model action was executed (committed or tried) – branch coverage of the model
    counts: HashMap<String, u64>,
}

fn field<'b>(line: &'b str, name: &str) -> &'b str {
    for tok in line.split_whitespace() {
        if let Some(v) = tok.strip_prefix(name) {
            if let Some(v) = v.strip_prefix('=') {
                return v;
            }
        }
    }
    ""
}

impl<'a> Model<'a> {
    fn new(lean: &'a mut Lean) -> Self {
        lean.ask("reset");
        Model {
            lean,
            log: vec![],
            refused: None,
            workers: vec![],
            inflight: (0..NKEYS).map(|_| VecDeque::new()).collect(),
            prearmed: (0..NKEYS).map(|_| VecDeque::new()).collect(),
            assigned: HashMap::new(),
            n_waiters: 0,
            done: vec![],
            actions: 0,
            timer_due: HashSet::new(),
            exit_hint: HashMap::new(),
            counts: HashMap::new(),
        }
    }
    fn enabled(&self) -> bool {
        self.lean.enabled
    }
    fn ask(&mut self, req: &str) -> String {
        let r = self.lean.ask(req);
        if !req.starts_with("q ") {
            self.log.push(format!("{req} -> {r}"));
            if self.log.len() > 400 {
                self.log.drain(..200);
            }
        }
        r
    }
    /// an action that must be enabled
    fn act(&mut self, req: &str) -> bool {
        if !self.enabled() {
            return true;
        }
        let r = self.ask(req);
        self.actions += 1;
        if r.starts_with("ok") {
            let mut it = req.split_whitespace();
            let name = match (it.next(), it.next(), it.next(), it.next()) {
                (Some("w"), _, Some(a), arg) => match (a, arg) {
                    ("fetchDone", Some(x)) => format!("worker fetchDone({x})"),
                    ("publishActive", Some(x)) | ("cacheStore", Some(x)) | ("issueRx", Some(x)) => {
                        format!("worker {a}({})", if x.starts_with("set") { "set" } else { x })
                    }
                    ("tickNothing", Some(x)) => format!("worker tickNothing({x})"),
                    _ => format!("worker {a}"),
                },
                (Some("m"), Some(a), _, _) => format!("manager {a}"),
                _ => "other".into(),
            };
            *self.counts.entry(name).or_insert(0) += 1;
            true
        } else {
            if self.refused.is_none() {
                self.refused = Some(format!("{req} -> {r}"));
            }
            false
        }
    }
    /// mirror of `GateShared::release`
    fn release(&mut self, key: usize, resp: Resp, id: u32) {
        if let Some(i) = self.inflight[key].pop_front() {
            self.assigned.entry(i).or_default().push_back((resp, id));
        } else {
            self.prearmed[key].push_back((resp, id));
        }
    }
    fn spawn_handle(&mut self, i: usize) {
        self.act(&format!("m spawnHandle {i}"));
        self.n_waiters += 1;
        self.done.push(false);
    }
    fn spawn(&mut self, kind: Kind, key: usize) {
        let a = match kind {
            Kind::Cached => format!("m spawnCached {key}"),
            _ => format!("m spawnPath {key}"),
        };
        self.act(&a);
        self.n_waiters += 1;
        self.done.push(false);
    }
    fn globals(&mut self) -> (usize, usize, bool) {
        let g = self.ask("q g");
        (field(&g, "nW").parse().unwrap_or(0), field(&g, "nT").parse().unwrap_or(0), field(&g, "alive") == "1")
    }
    /// run caller j until it blocks or finishes; returns (progress, finished-with-result)
    fn run_waiter(&mut self, j: usize) -> (bool, Option<String>) {
        let mut progress = false;
        loop {
            let r = self.ask(&format!("t {j} next"));
            if r.starts_with("ok") {
                self.actions += 1;
                progress = true;
                let name = format!("caller {}", r.trim_start_matches("ok "));
                *self.counts.entry(name).or_insert(0) += 1;
                continue;
            }
            if r == "blocked" {
                *self.counts.entry("caller blocked (registered, not yet notified)".into()).or_insert(0) += 1;
            }
            if r == "disabled" {
                let q = self.ask(&format!("q t {j}"));
                if field(&q, "pc") == "done" {
                    self.done[j] = true;
                    return (progress, Some(field(&q, "res").to_string()));
                }
            }
            return (progress, None);
        }
    }
    fn sync_workers(&mut self) {
        let (nw, _, _) = self.globals();
        while self.workers.len() < nw {
            let i = self.workers.len();
            let q = self.ask(&format!("q w {i}"));
            let key = field(&q, "key").parse().unwrap_or(0);
            self.workers.push(MWorker { key, resp: None, ever_near: false });
        }
    }
    /// callers whose real result is known and who would obtain exactly that result if they ran now
    fn early_waiters(&mut self, real: &[Option<String>]) -> bool {
        let mut progress = false;
        for j in 0..self.n_waiters {
            if self.done[j] {
                continue;
            }
            let Some(want) = real[j].clone() else { continue };
            self.ask("save");
            let (_, got) = self.run_waiter(j);
            if got.as_deref() == Some(want.as_str()) {
                self.ask("forget");
                progress = true;
            } else {
                self.done[j] = false;
                self.ask("restore");
            }
        }
        progress
    }
    /// one step of worker i if it can move; `real` = results of the real callers (for racy placements)
    fn step_worker(&mut self, i: usize, real: &[Option<String>]) -> bool {
        let q = self.ask(&format!("q w {i}"));
        let pc = field(&q, "pc").to_string();
        let cancelled = field(&q, "cancelled") == "1";
        let used = field(&q, "used") == "1";
        let (_, _, alive) = self.globals();
        let key = self.workers[i].key;
        let a: Option<String> = match pc.as_str() {
            "start" => Some(if alive { "upgradeStart".into() } else { "mgrGone".into() }),
            "setOngoing" => {
                // the lookup starts: it takes an armed response, or queues up at the gate
                if let Some(r) = self.prearmed[key].pop_front() {
                    self.assigned.entry(i).or_default().push_back(r);
                } else {
                    self.inflight[key].push_back(i);
                }
                Some("setOngoing".into())
            }
            "fetching" => {
                if let Some(r) = self.assigned.get_mut(&i).and_then(|q| q.pop_front()) {
                    self.workers[i].resp = Some(r);
                    if r.0 == Resp::Near {
                        self.workers[i].ever_near = true;
                    }
                    Some(format!("fetchDone {}", if r.0 == Resp::Near { "ok" } else { r.0.s() }))
                } else {
                    None
                }
            }
            p if p.starts_with("cache:") => Some("cacheStore keep".into()),
            p if p.starts_with("setErr:") => Some("setErr".into()),
            "publish" => Some(match self.workers[i].resp {
                // an existing (valid) active path is kept: equal scores, no swap
                Some((Resp::Ok, id)) if field(&q, "active") == "-" => format!("publishActive set:{id}"),
                _ => "publishActive keep".into(),
            }),
            "clear" => Some("clearAndNotify".into()),
            "release" => Some("releaseMgr".into()),
            "loop" => {
                // manager gone: `select!` may see the fired token ("cancelled") or the closed issue channel
                // with a failing upgrade ("manager dropped") first – the model allows both; take the observed one
                let hint_gone = self.exit_hint.get(&i).map(|h| h == "mgrGone").unwrap_or(false);
                if cancelled && !(hint_gone && !alive) {
                    Some("cancelSeen".into())
                } else if !alive {
                    Some("mgrGone".into())
                } else if (self.timer_due.contains(&(i, 2)) || self.timer_due.contains(&(i, 3))) && self.workers[i].ever_near {
                    // (i,3): a second refetch in the same window (the first one took an armed response)
                    if !self.timer_due.remove(&(i, 2)) {
                        self.timer_due.remove(&(i, 3));
                    }
                    Some("tickRefetch".into())
                } else if self.timer_due.contains(&(i, 1)) {
                    if used {
                        Some("tickNothing 1".into())
                    } else {
                        Some("tickIdle".into())
                    }
                } else {
                    None
                }
            }
            p if p.starts_with("exitRemove:") => Some("exitRemove".into()),
            p if p.starts_with("exitNotify:") => Some("exitNotify".into()),
            "exitStore" => Some("storeNone".into()),
            _ => None,
        };
        let Some(a) = a else { return false };
        // a caller woken by this worker may have read the slot / the error before the worker went on: place
        // it by its observed result (the model allows both orders)
        // (also: a `cached_path` caller racing with the completion of a lookup returns nothing or the path)
        if self.enabled() {
            self.early_waiters(real);
        }
        self.act(&format!("w {i} {a}"));
        true
    }
    /// closure: workers first (as far as they can go), then callers, until nothing moves
    fn settle(&mut self, real: &[Option<String>]) {
        if !self.enabled() {
            return;
        }
        for _round in 0..10_000 {
            let mut progress = false;
            self.sync_workers();
            for i in 0..self.workers.len() {
                let mut guard = 0;
                while self.step_worker(i, real) {
                    progress = true;
                    guard += 1;
                    if guard > 64 || self.refused.is_some() {
                        break;
                    }
                }
            }
            for j in 0..self.n_waiters {
                if self.done[j] {
                    continue;
                }
                match real[j].clone() {
                    // the real caller has returned: commit a finishing run only if it yields that result
                    // (otherwise the caller ran at another position of the schedule: try again later)
                    Some(want) => {
                        self.ask("save");
                        let (p, got) = self.run_waiter(j);
                        if got.is_some() && got.as_deref() != Some(want.as_str()) {
                            self.done[j] = false;
                            self.ask("restore");
                        } else {
                            self.ask("forget");
                            progress |= p;
                        }
                    }
                    None => {
                        let (p, _) = self.run_waiter(j);
                        progress |= p;
                    }
                }
            }
            if self.refused.is_some() {
                break;
            }
            if !progress {
                // late timers: an idle exit that happened after the callers of this window had run
                let late: Vec<usize> = self.timer_due.iter().filter(|(_, k)| *k == 4).map(|(i, _)| *i).collect();
                if late.is_empty() {
                    break;
                }
                for i in late {
                    self.timer_due.remove(&(i, 4));
                    self.timer_due.insert((i, 1));
                }
            }
        }
        self.timer_due.clear();
    }
    /// back to the model state saved at the beginning of the current synchronisation point
    fn rewind(&mut self, sv: &Saved) {
        if !self.enabled() {
            return;
        }
        self.ask("restore");
        self.ask("save");
        self.refused = None;
        self.inflight = sv.inflight.clone();
        self.prearmed = sv.prearmed.clone();
        self.assigned = sv.assigned.clone();
        self.done = sv.done.clone();
        self.workers.truncate(sv.nworkers);
        for (i, w) in self.workers.iter_mut().enumerate() {
            w.resp = sv.resp[i];
            w.ever_near = sv.ever_near[i];
        }
        self.timer_due = sv.timer_due.clone();
        self.actions = sv.actions;
    }
    /// workers that were removed from the map but whose cancel token has not fired and that still run
    fn garbage(&mut self) -> Vec<usize> {
        if !self.enabled() {
            return vec![];
        }
        self.sync_workers();
        let mut v = vec![];
        for i in 0..self.workers.len() {
            let q = self.ask(&format!("q w {i}"));
            if field(&q, "cancelled") == "1" || field(&q, "pc") == "done" {
                continue;
            }
            let key = self.workers[i].key;
            let e = self.ask(&format!("q k {key}"));
            if field(&e, "entry") != i.to_string() {
                v.push(i);
            }
        }
        v
    }
    /// workers that have not finished (they may reach their `select!` loop during this synchronisation point)
    fn loop_workers(&mut self) -> Vec<usize> {
        if !self.enabled() {
            return vec![];
        }
        self.sync_workers();
        let mut v = vec![];
        for i in 0..self.workers.len() {
            let q = self.ask(&format!("q w {i}"));
            if field(&q, "pc") != "done" {
                v.push(i);
            }
        }
        v
    }
    /// observable projection of the model state, same shape as `Obs` + results
    fn observe(&mut self) -> (Obs, Vec<Option<String>>) {
        self.sync_workers();
        let (nw, nt, alive) = self.globals();
        let mut finished = vec![];
        let mut results = vec![];
        let mut alive_tasks = 0;
        for j in 0..nt {
            let q = self.ask(&format!("q t {j}"));
            let d = field(&q, "pc") == "done";
            finished.push(d);
            results.push(if d { Some(field(&q, "res").to_string()) } else { None });
            if !d {
                alive_tasks += 1;
            }
        }
        let mut starts = vec![0usize; NKEYS];
        let mut ends = vec![0usize; NKEYS];
        for i in 0..nw {
            let q = self.ask(&format!("q w {i}"));
            let key: usize = field(&q, "key").parse().unwrap_or(0);
            let f: usize = field(&q, "fetches").parse().unwrap_or(0);
            starts[key] += f;
            let pc = field(&q, "pc");
            ends[key] += if pc == "fetching" { f.saturating_sub(1) } else if pc == "setOngoing" || pc == "start" { f } else { f };
            if pc != "done" {
                alive_tasks += 1;
            }
        }
        (Obs { finished, starts, ends, dropped: !alive, alive_tasks, busy: 0 }, results)
    }
}

// ---------------------------------------------------------------------------------------------------------
// running one schedule
// ---------------------------------------------------------------------------------------------------------

#[derive(Default)]
struct Outcome {
    disagree: Option<(String, String, String)>, // (where, impl, model)
    spec: Vec<(String, String)>,
    waiters: usize,
    finished: usize,
    results: HashMap<String, u64>,
    fetches: usize,
    workers: usize,
    registered: usize,
    model_actions: u64,
    syncs: usize,
    retries: usize,
    reclaims: usize,
    handle_callers: usize,
    handle_states: usize,
    handles_after_drop: usize,
    counts: HashMap<String, u64>,
    /// at a failed synchronisation point: the mismatch of every candidate witness tried last
    cand_mm: Vec<String>,
    trace_tail: Vec<String>,
}

fn run_sched(s: &Sched, lean: &mut Lean) -> Outcome {
    let rt = if s.threads == 0 {
        tokio::runtime::Builder::new_current_thread().enable_all().build().unwrap()
    } else {
        tokio::runtime::Builder::new_multi_thread().worker_threads(s.threads).enable_all().build().unwrap()
    };
    let out = rt.block_on(run_sched_async(s, lean));
    rt.shutdown_timeout(Duration::from_millis(200));
    out
}

async fn run_sched_async(s: &Sched, lean: &mut Lean) -> Outcome {
    let mut out = Outcome::default();
    let gate = GateShared::new();
    let mut cfg = MultiPathManagerConfig::default();
    if s.idle_ms > 0 {
        cfg = cfg.with_max_idle_period(Duration::from_millis(s.idle_ms));
    }
    if let Some(c) = s.cap {
        cfg = cfg.with_max_cached_paths_per_pair(c);
    }
    if s.refetch_ms > 0 {
        cfg = cfg.with_min_refetch_delay(Duration::from_millis(s.refetch_ms));
    }
    let mgr = match MultiPathManager::new(cfg, GFetcher(gate.clone()), PathStrategy::default()) {
        Ok(m) => m,
        Err(e) => {
            out.spec.push(("C20:panic".into(), format!("manager construction failed: {e}")));
            return out;
        }
    };
    let base_tasks = tokio::runtime::Handle::current().metrics().num_alive_tasks();
    let mut real = Real { gate: gate.clone(), mgr: Some(mgr), waiters: vec![], threads: s.threads, removal_possible: vec![false; NKEYS], handles: vec![], idle_ms: s.idle_ms, refetch_ms: s.refetch_ms, t0: Instant::now() };
    let mut model = Model::new(lean);
    let mut next_id: u32 = 1;
    let mut ops: Vec<Op> = s.ops.clone();
    // every schedule ends with: finish all lookups, drop, synchronise
    ops.push(Op::Sync);
    if s.refetch_ms > 0 || s.ops.len() % 3 == 0 {
        // drop while lookups are still pending (in refetch schedules always: a worker that keeps refetching
        // near-expiry paths would otherwise start the next lookup before the drop)
        ops.push(Op::DropMgr);
        ops.push(Op::ReleaseAll { resp: Resp::Ok });
    } else {
        ops.push(Op::ReleaseAll { resp: Resp::Ok });
        ops.push(Op::DropMgr);
    }
    if s.ops.len() % 2 == 0 {
        ops.push(Op::Sync);
    }
    // after the drop: every handle the harness still holds reports the exit error
    for key in 0..NKEYS {
        ops.push(Op::Spawn { kind: Kind::HandleOld, key, n: 1 });
        ops.push(Op::Spawn { kind: Kind::Handle, key, n: 1 });
    }
    ops.push(Op::Sync);
    let mut k = 0;
    while k < ops.len() {
        let op = ops[k].clone();
        k += 1;
        match op {
            Op::Spawn { kind, key, n } => {
                if kind == Kind::Handle || kind == Kind::HandleOld {
                    // callers on a bare handle: possible also after the manager was dropped
                    if let Some((h, i)) = real.pick_handle(kind, key) {
                        for _ in 0..n {
                            model.spawn_handle(i);
                            real.spawn_handle(kind, key, h.clone());
                        }
                        out.handle_callers += n;
                    }
                    continue;
                }
                if real.mgr.is_none() {
                    continue;
                }
                for _ in 0..n {
                    model.spawn(kind, key);
                    real.spawn(kind, key);
                }
            }
            Op::Release { key, resp } => {
                let id = next_id;
                next_id += 1;
                // refetch schedules: a stale worker that keeps refetching and its successor may both have a lookup
                // pending, and which of them started first is not observable: complete all of them alike
                let n = if s.refetch_ms > 0 { real.gate.pending()[key].max(1) } else { 1 };
                for _ in 0..n {
                    real.gate.release(key, resp, id);
                    model.release(key, resp, id);
                }
            }
            Op::Stop { key } => {
                if let Some(m) = real.mgr.as_ref() {
                    let (a, b) = key_pair(key);
                    m.stop_managing_paths(a, b);
                    model.act(&format!("m stop {key}"));
                    real.removal_possible[key] = true;
                }
            }
            Op::DropMgr => {
                if real.mgr.take().is_some() {
                    model.act("m drop");
                    for r in real.removal_possible.iter_mut() {
                        *r = true;
                    }
                }
            }
            Op::IdleWait => {
                if s.idle_ms == 0 {
                    continue;
                }
                // quiesce first, then let two idle periods pass without touching anything
                sync_point(&mut real, &mut model, &mut out, base_tasks).await;
                tokio::time::sleep(Duration::from_millis(s.idle_ms * 2 + s.idle_ms / 2 + 10)).await;
                for r in real.removal_possible.iter_mut() {
                    *r = true;
                }
                for i in 0..model.workers.len() + 2 {
                    model.timer_due.insert((i, 1));
                }
                sync_point(&mut real, &mut model, &mut out, base_tasks).await;
            }
            Op::RefetchWait => {
                if s.refetch_ms == 0 {
                    continue;
                }
                sync_point(&mut real, &mut model, &mut out, base_tasks).await;
                tokio::time::sleep(Duration::from_millis(s.refetch_ms + 25)).await;
                sync_point(&mut real, &mut model, &mut out, base_tasks).await;
            }
            Op::ReleaseAll { resp } => {
                // finish every pending lookup (repeat: finishing one may let a successor start)
                for _ in 0..8 {
                    let pend = real.gate.pending();
                    if pend.iter().all(|p| *p == 0) {
                        break;
                    }
                    for (key, p) in pend.iter().enumerate() {
                        // one path id per pair and round: which of two pending lookups of the same pair (a stale
                        // worker refetching + its successor) started first is not observable
                        let id = next_id;
                        next_id += 1;
                        for _ in 0..*p {
                            real.gate.release(key, resp, id);
                            model.release(key, resp, id);
                        }
                    }
                    sync_point(&mut real, &mut model, &mut out, base_tasks).await;
                }
            }
            Op::Sync => {
                sync_point(&mut real, &mut model, &mut out, base_tasks).await;
            }
        }
        if out.disagree.is_some() {
            break;
        }
    }
    // final spec check: after the drop everything must be gone
    if out.disagree.is_none() {
        let o = real.quiesce(true).await;
        let pending_lookups: usize = real.gate.pending().iter().sum();
        if real.mgr.is_none() && pending_lookups == 0 && o.finished.iter().all(|f| *f) {
            if !o.dropped {
                out.spec.push(("C20:worker-not-stopped".into(), "manager value (fetcher) not dropped after the user dropped the manager and all callers returned".into()));
            } else if o.alive_tasks > base_tasks {
                out.spec.push(("C20:worker-not-stopped".into(), format!("{} tokio task(s) still alive after the manager was dropped and all lookups finished", o.alive_tasks - base_tasks)));
            }
            // every handle reports an error instead of a path
            for (k, h, i) in &real.handles {
                let st = handle_state(&real.gate, *k, h);
                let ok = st.starts_with("init=1 ongoing=0 err=exited:") && st.ends_with("active=-") && !st.contains('?');
                if !ok {
                    out.spec.push(("C20:path-after-drop".into(), format!("handle of worker {i} (pair {k}) after the manager was dropped and every task ended: {st}")));
                }
                out.handles_after_drop += 1;
            }
        }
    }
    real.collect().await;
    out.waiters = real.waiters.len();
    for w in &real.waiters {
        if let Some(r) = &w.result {
            out.finished += 1;
            let class = if r.starts_with("path:") { "path".to_string() } else { r.clone() };
            *out.results.entry(class).or_insert(0) += 1;
            if r.starts_with("panic") {
                out.spec.push(("C20:panic".into(), format!("caller task panicked: {r}")));
            } else if r.contains('?') {
                out.spec.push(("C20:bad-result".into(), format!("caller on pair {} returned {r}", w.key)));
            }
        }
    }
    out.fetches = real.gate.starts().iter().sum();
    out.workers = model.workers.len();
    out.model_actions = model.actions;
    out.counts = model.counts.clone();
    if out.disagree.is_none() {
        if let Some(r) = model.refused.take() {
            out.disagree = Some(("model refused an action of the witness schedule".into(), "enabled in the implementation".into(), r));
        }
    }
    out.trace_tail = model.log.iter().rev().take(60).rev().cloned().collect();
    // abort whatever is still there (a failed schedule may leave pending callers)
    for w in &real.waiters {
        w.handle.abort();
    }
    out
}

struct Saved {
    inflight: Vec<VecDeque<usize>>,
    prearmed: Vec<VecDeque<(Resp, u32)>>,
    assigned: HashMap<usize, VecDeque<(Resp, u32)>>,
    ever_near: Vec<bool>,
    done: Vec<bool>,
    nworkers: usize,
    resp: Vec<Option<(Resp, u32)>>,
    timer_due: HashSet<(usize, u8)>,
    actions: u64,
}

fn compare(
    model: &mut Model<'_>,
    real_o: &Obs,
    results: &[Option<String>],
    hstates: &[(usize, String)],
    managed: &[(usize, bool, Option<usize>)],
) -> Option<(String, String, String)> {
    if !model.enabled() {
        return None;
    }
    if let Some(r) = model.refused.clone() {
        return Some(("model refused an action of the witness schedule".into(), "enabled in the implementation".into(), r));
    }
    let (mo, mres) = model.observe();
    if real_o.finished != mo.finished {
        let j = (0..real_o.finished.len().max(mo.finished.len()))
            .find(|j| real_o.finished.get(*j) != mo.finished.get(*j))
            .unwrap_or(0);
        return Some((
            format!("caller {j} finished?"),
            format!("{:?} result {:?}", real_o.finished.get(j), results.get(j).cloned().flatten()),
            format!("{:?} result {:?}", mo.finished.get(j), mres.get(j).cloned().flatten()),
        ));
    }
    if let Some(j) = (0..results.len()).find(|j| results[*j] != mres[*j]) {
        return Some((format!("result of caller {j}"), format!("{:?}", results[j]), format!("{:?}", mres[j])));
    }
    if real_o.starts != mo.starts {
        return Some(("fetcher invocations per pair".into(), format!("{:?}", real_o.starts), format!("{:?}", mo.starts)));
    }
    if real_o.dropped != mo.dropped {
        return Some(("manager value dropped".into(), format!("{}", real_o.dropped), format!("{}", mo.dropped)));
    }
    if real_o.alive_tasks != mo.alive_tasks {
        return Some(("live tasks (callers + workers)".into(), format!("{}", real_o.alive_tasks), format!("{}", mo.alive_tasks)));
    }
    // handshake state of every path set the harness holds a handle of (verif-hooks)
    for (i, st) in hstates {
        let q = model.ask(&format!("q w {i}"));
        let m = format!("init={} ongoing={} err={} active={}", field(&q, "init"), field(&q, "ongoing"), field(&q, "err"), field(&q, "active"));
        if *st != m {
            return Some((format!("handshake state of worker {i}"), st.clone(), m));
        }
    }
    // the manager's index
    for (key, is_managed, known) in managed {
        let q = model.ask(&format!("q k {key}"));
        let e = field(&q, "entry").to_string();
        if *is_managed != (e != "-") {
            return Some((format!("pair {key} managed?"), format!("{is_managed}"), format!("entry={e}")));
        }
        if let Some(i) = known {
            if e != i.to_string() {
                return Some((format!("worker registered for pair {key}"), format!("{i}"), format!("entry={e}")));
            }
        }
    }
    None
}

/// wait for quiescence, build the witness, compare; on mismatch wait longer and rebuild (the real system
/// may simply not have been done yet) until the deadline
async fn sync_point(real: &mut Real, model: &mut Model<'_>, out: &mut Outcome, base_tasks: usize) {
    out.syncs += 1;
    let deadline = Instant::now() + Duration::from_millis(if real.threads == 0 { 1500 } else { 4000 });
    let mut o = real.quiesce(false).await;
    if model.enabled() {
        model.ask("save");
    }
    let saved = Saved {
        inflight: model.inflight.clone(),
        prearmed: model.prearmed.clone(),
        assigned: model.assigned.clone(),
        ever_near: model.workers.iter().map(|w| w.ever_near).collect(),
        done: model.done.clone(),
        nworkers: model.workers.len(),
        resp: model.workers.iter().map(|w| w.resp).collect(),
        timer_due: model.timer_due.clone(),
        actions: model.actions,
    };
    let mut attempt = 0;
    'outer: loop {
        let results: Vec<Option<String>> = real.waiters.iter().map(|w| w.result.clone()).collect();
        let real_o = Obs { alive_tasks: o.alive_tasks.saturating_sub(base_tasks), ..o.clone() };
        let hstates: Vec<(usize, String)> = real.handles.iter().map(|(k, h, i)| (*i, handle_state(&real.gate, *k, h))).collect();
        for (i, st) in &hstates {
            if let Some(r) = field(st, "err").strip_prefix("exited:") {
                model.exit_hint.insert(*i, r.to_string());
            }
        }
        let cur: Vec<Option<VerifHandle>> = match real.mgr.as_ref() {
            Some(m) => (0..NKEYS).map(|k| { let (a, b) = key_pair(k); m.verif_handle(a, b) }).collect(),
            None => vec![],
        };
        let managed: Vec<(usize, bool, Option<usize>)> = cur
            .iter()
            .enumerate()
            .map(|(k, h)| (k, h.is_some(), h.as_ref().and_then(|h| real.handles.iter().find(|(_, hh, _)| hh.same(h)).map(|(_, _, i)| *i))))
            .collect();
        // candidate sets of removed-but-not-yet-dropped map entries whose `PathSetTask` the collector of
        // scc::HashIndex has dropped by now (cancel token fired): not observable directly, so try them
        // … and, in schedules with a short idle period, workers whose idle timer fired earlier than the harness
        // assumed (`I`): also not observable directly.  Candidate = (worker, is_idle_exit)
        let mut cands: Vec<(usize, u8)> = model.garbage().into_iter().map(|i| (i, 0u8)).collect();
        let fresh: Vec<usize> = (model.workers.len()..model.workers.len() + 2).collect();
        if real.idle_ms > 0 {
            // a removed worker idling out *after* the callers of this window ran evicts their new worker's entry
            for i in model.garbage() {
                cands.push((i, 4));
            }
            for i in model.loop_workers().into_iter().chain(fresh.iter().copied()) {
                cands.push((i, 1));
            }
        }
        // … and workers whose refetch timer fired (only after a lookup that returned near-expiry paths)
        if real.refetch_ms > 0 {
            for i in model.loop_workers().into_iter().chain(fresh.iter().copied()) {
                cands.push((i, 2));
                if let Some(w) = model.workers.get(i) {
                    if !model.prearmed[w.key].is_empty() {
                        cands.push((i, 3));
                    }
                }
            }
        }
        let mut subsets: Vec<Vec<(usize, u8)>> = vec![vec![]];
        if cands.len() <= 6 {
            // all subsets, small ones first
            let mut all: Vec<Vec<(usize, u8)>> = (1u32..(1 << cands.len()))
                .map(|m| (0..cands.len()).filter(|b| m & (1 << b) != 0).map(|b| cands[b]).collect())
                .collect();
            all.sort_by_key(|v: &Vec<(usize, u8)>| v.len());
            subsets.extend(all);
        } else {
            for c in &cands {
                subsets.push(vec![*c]);
            }
            subsets.push(cands.clone());
            for kind in 0..3u8 {
                let v: Vec<(usize, u8)> = cands.iter().copied().filter(|c| c.1 == kind).collect();
                if !v.is_empty() && v.len() < cands.len() {
                    subsets.push(v);
                }
            }
            for a in 0..cands.len() {
                for b in a + 1..cands.len() {
                    subsets.push(vec![cands[a], cands[b]]);
                }
            }
        }
        let mut first_mm = None;
        for (si, sub) in subsets.iter().enumerate() {
            if si > 0 {
                model.rewind(&saved);
            }
            for (i, what) in sub {
                match *what {
                    1 | 2 | 3 | 4 => {
                        model.timer_due.insert((*i, *what));
                    }
                    _ => {
                        model.act(&format!("m reclaim {i}"));
                    }
                }
            }
            model.settle(&results);
            let mm = compare(model, &real_o, &results, &hstates, &managed);
            match mm {
                None => {
                    if model.enabled() {
                        model.ask("forget");
                    }
                    out.reclaims += sub.iter().filter(|(_, w)| *w == 0).count();
                    out.handle_states += hstates.len();
                    // remember the handles of newly managed pairs (their worker index comes from the model)
                    if model.enabled() {
                        for (k, h) in cur.iter().enumerate() {
                            if let Some(h) = h {
                                if !real.handles.iter().any(|(_, hh, _)| hh.same(h)) {
                                    let q = model.ask(&format!("q k {k}"));
                                    if let Ok(i) = field(&q, "entry").parse::<usize>() {
                                        real.handles.push((k, h.clone(), i));
                                    }
                                }
                            }
                        }
                    }
                    break 'outer;
                }
                Some(mm) => {
                    if std::env::var("HX_SCHED_DEBUG").is_ok() {
                        eprintln!("[sync {} attempt {attempt}] candidates {:?}: {} impl={} model={}", out.syncs, sub, mm.0, mm.1, mm.2);
                    }
                    if Instant::now() > deadline {
                        out.cand_mm.push(format!("candidates {:?}: {} impl={} model={}", sub, mm.0, mm.1, mm.2));
                    }
                    if first_mm.is_none() {
                        first_mm = Some(mm);
                    }
                }
            }
        }
        if Instant::now() > deadline {
            if std::env::var("HX_SCHED_DEBUG").is_ok() {
                eprintln!("=== DISAGREEMENT at sync {}: real obs {:?}\n    results {:?}\n    hstates {:?}\n    gate pending {:?} armed {:?}", out.syncs, real_o, results, hstates, real.gate.pending(), real.gate.armed());
                for l in &model.log {
                    eprintln!("    {l}");
                }
            }
            out.disagree = first_mm;
            if model.enabled() {
                model.ask("forget");
            }
            break;
        }
        // the real system may simply not have been done yet: wait, observe again, rebuild
        attempt += 1;
        out.retries += 1;
        model.rewind(&saved);
        tokio::time::sleep(Duration::from_millis(if attempt < 5 { 2 } else { 20 })).await;
        o = real.quiesce(true).await;
    }
    // ---- spec oracle on the real observation (independent of the model) ----
    let pending = real.gate.pending();
    let armed = real.gate.armed();
    let _ = armed;
    // (1) a caller of path() may stay pending only while a lookup of its pair is pending
    let mut stuck: Vec<usize> = (0..real.waiters.len())
        .filter(|j| real.waiters[*j].result.is_none() && pending[real.waiters[*j].key] == 0)
        .collect();
    if !stuck.is_empty() {
        // be sure: give it until the deadline
        while Instant::now() < deadline && !stuck.is_empty() {
            tokio::time::sleep(Duration::from_millis(10)).await;
            real.collect().await;
            let pending = real.gate.pending();
            stuck.retain(|j| real.waiters[*j].result.is_none() && pending[real.waiters[*j].key] == 0);
        }
        if let Some(j) = stuck.first() {
            out.spec.push((
                "C20:waiter-not-released".into(),
                format!("caller {j} ({:?}) of pair {} is still pending although no lookup of that pair is pending", real.waiters[*j].kind, real.waiters[*j].key),
            ));
        }
    }
    // (2) one worker per pair: before any removal of the pair, at most one fetcher invocation
    // (with a short idle period a pair that nobody used is removed at the first idle check)
    if real.idle_ms > 0 && real.t0.elapsed() > Duration::from_millis(real.idle_ms * 3 / 4) {
        for r in real.removal_possible.iter_mut() {
            *r = true;
        }
    }
    let starts = real.gate.starts();
    for key in 0..NKEYS {
        if !real.removal_possible[key] && starts[key] > 1 && real.refetch_ms == 0 {
            out.spec.push(("C20:two-workers".into(), format!("{} fetcher invocations for pair {key} although it was never removed", starts[key])));
        }
        let any_caller = real.waiters.iter().any(|w| w.key == key);
        if any_caller && starts[key] == 0 && real.mgr.is_some() {
            out.spec.push(("C20:two-workers".into(), format!("no worker was started for requested pair {key}")));
        }
    }
    out.registered += 0;
}

// ---------------------------------------------------------------------------------------------------------
// generators
// ---------------------------------------------------------------------------------------------------------

fn pick_n(rng: &mut Rng) -> usize {
    match rng.below(20) {
        0..=5 => 1,
        6..=11 => 2,
        12..=18 => 8,
        _ => 64,
    }
}

fn pick_kind(rng: &mut Rng) -> Kind {
    match rng.below(10) {
        0..=5 => Kind::Path,
        6..=7 => Kind::PathWait,
        _ => Kind::Cached,
    }
}

/// later in a schedule also callers on bare handles (skipped while the harness holds no handle of the pair)
fn pick_kind2(rng: &mut Rng) -> Kind {
    match rng.below(14) {
        0..=5 => Kind::Path,
        6..=7 => Kind::PathWait,
        8..=9 => Kind::Cached,
        10..=12 => Kind::Handle,
        _ => Kind::HandleOld,
    }
}

fn pick_resp(rng: &mut Rng) -> Resp {
    match rng.below(10) {
        0..=3 => Resp::Ok,
        4 => Resp::Near,
        5..=6 => Resp::Empty,
        _ => Resp::Err,
    }
}

/// schedules around the "ongoing update" wait: the first lookup returns only near-expiry paths (no active
/// path, no error), the worker refetches, callers arriving during the refetch wait for it
fn gen_refetch(rng: &mut Rng) -> Sched {
    let threads = if rng.chance(1, 2) { 0 } else { rng.range(2, 4) as usize };
    let mut ops = vec![];
    let key = rng.below(2) as usize;
    ops.push(Op::Spawn { kind: pick_kind(rng), key, n: pick_n(rng).min(8) });
    if rng.chance(1, 2) {
        ops.push(Op::Sync);
    }
    ops.push(Op::Release { key, resp: Resp::Near });
    ops.push(Op::Sync);
    let rounds = rng.range(1, 3);
    for _ in 0..rounds {
        ops.push(Op::RefetchWait);
        // callers arriving while the refetch is ongoing (initialized, ongoing, no active path)
        ops.push(Op::Spawn { kind: pick_kind2(rng), key, n: pick_n(rng).min(8) });
        if rng.chance(1, 3) {
            ops.push(Op::Spawn { kind: Kind::Cached, key, n: 1 });
        }
        ops.push(Op::Sync);
        match rng.below(6) {
            0 => {
                ops.push(Op::Stop { key });
                ops.push(Op::Sync);
            }
            1 => {
                ops.push(Op::DropMgr);
            }
            _ => {}
        }
        let resp = match rng.below(4) {
            0 => Resp::Near,
            1 => Resp::Ok,
            2 => Resp::Empty,
            _ => Resp::Err,
        };
        ops.push(Op::Release { key, resp });
        if rng.chance(1, 2) {
            ops.push(Op::Spawn { kind: pick_kind2(rng), key, n: pick_n(rng).min(8) });
        }
        ops.push(Op::Sync);
        if resp != Resp::Near {
            break;
        }
    }
    Sched { threads, idle_ms: 0, cap: None, refetch_ms: 40, ops }
}

fn gen_sched(rng: &mut Rng) -> Sched {
    if rng.chance(1, 8) {
        return gen_refetch(rng);
    }
    let refetch_ms = 0;
    let threads = if rng.chance(1, 2) { 0 } else { rng.range(2, 4) as usize };
    let idle = rng.chance(1, 8);
    let idle_ms = if idle { 120 } else { 0 };
    let nkeys = rng.range(1, 3) as usize;
    let mut ops = vec![];
    let mt = threads > 0;
    let mut dropped = false;
    // phase 1: concurrent first requests
    let waves = rng.range(1, 3);
    for _ in 0..waves {
        let key = rng.below(nkeys as u64) as usize;
        let kind = pick_kind(rng);
        ops.push(Op::Spawn { kind, key, n: pick_n(rng) });
        if rng.chance(1, 3) {
            // pre-armed or racing completion
            ops.push(Op::Release { key, resp: pick_resp(rng) });
        }
        if rng.chance(1, 2) {
            ops.push(Op::Sync);
        }
    }
    ops.push(Op::Sync);
    // phase 2
    let steps = if idle { rng.range(1, 3) } else { rng.range(2, 7) };
    let mut idled = false;
    for _ in 0..steps {
        let key = rng.below(nkeys as u64) as usize;
        match rng.below(12) {
            0..=3 => {
                ops.push(Op::Release { key, resp: pick_resp(rng) });
                if !dropped && rng.chance(1, 3) {
                    // callers arriving while the lookup completes (result does not depend on the order)
                    ops.push(Op::Spawn { kind: pick_kind2(rng), key, n: pick_n(rng).min(8) });
                }
                ops.push(Op::Sync);
            }
            4..=6 => {
                let kind = pick_kind2(rng);
                if !dropped || kind == Kind::Handle || kind == Kind::HandleOld {
                    ops.push(Op::Spawn { kind, key, n: pick_n(rng) });
                    ops.push(Op::Sync);
                }
            }
            7..=8 => {
                if !dropped {
                    ops.push(Op::Stop { key });
                    if mt || rng.chance(1, 2) {
                        ops.push(Op::Sync);
                    }
                    if rng.chance(1, 2) {
                        ops.push(Op::Spawn { kind: pick_kind2(rng), key, n: pick_n(rng).min(8) });
                        ops.push(Op::Sync);
                    }
                }
            }
            9 => {
                if idle && !idled {
                    ops.push(Op::ReleaseAll { resp: pick_resp(rng) });
                    ops.push(Op::IdleWait);
                    idled = true;
                    if !dropped && rng.chance(2, 3) {
                        ops.push(Op::Spawn { kind: pick_kind(rng), key, n: pick_n(rng).min(8) });
                        ops.push(Op::Sync);
                    }
                }
            }
            10 => {
                if !dropped {
                    ops.push(Op::DropMgr);
                    dropped = true;
                    if rng.chance(1, 2) {
                        ops.push(Op::Sync);
                    }
                }
            }
            _ => {
                ops.push(Op::ReleaseAll { resp: pick_resp(rng) });
            }
        }
    }
    if idle && !idled {
        ops.push(Op::ReleaseAll { resp: pick_resp(rng) });
        ops.push(Op::IdleWait);
    }
    Sched { threads, idle_ms, cap: None, refetch_ms, ops }
}

/// best-effort shrinking: drop operations while the same kind of failure persists
fn shrink(s: &Sched, lean: &mut Lean, pred: &dyn Fn(&Outcome) -> bool) -> Sched {
    let mut cur = s.clone();
    let mut budget = 24;
    let mut i = 0;
    while i < cur.ops.len() && budget > 0 {
        let mut cand = cur.clone();
        cand.ops.remove(i);
        budget -= 1;
        let o = run_sched(&cand, lean);
        if pred(&o) {
            cur = cand;
        } else {
            i += 1;
        }
    }
    cur
}

fn main() {
    let args = Args::parse();
    let mut lean = Lean::spawn(&args.driver);
    let mut rng = Rng::new(args.seed);
    let mut rep = Report::new(
        "C20",
        "case = schedule (runtime flavour + program of spawn / lookup completion / stop / drop / idle operations) run \
         against the real MultiPathManager with a gated mock fetcher; at every synchronisation point a witness schedule of \
         model actions at lock-region granularity is replayed on the Lean model (every action must be enabled) and the \
         observable state (per-caller result, fetcher invocations per pair, manager dropped, live tasks) is compared. \
         Non-trivial = at least one caller finished and at least one worker was spawned; distinct by schedule text",
    );
    let mut schedules: Vec<(String, Sched)> = vec![];
    for l in read_corpus(&args.corpus) {
        match parse_sched(&l) {
            Some(s) => schedules.push(("corpus".into(), s)),
            None => rep.notes.push(format!("unparseable corpus line: {}", &l[..l.len().min(60)])),
        }
    }
    if let Some(p) = &args.replay {
        let txt = std::fs::read_to_string(p).expect("replay file");
        schedules = txt.lines().filter_map(|l| {
            // accept either a raw schedule line or a JSON replay file containing "line": "<schedule>"
            if let Some(i) = l.find("rt=") {
                let rest = &l[i..];
                let rest = rest.trim_end_matches(|c| c == '"' || c == ',' || c == ' ');
                parse_sched(rest).map(|s| ("replay".to_string(), s))
            } else {
                None
            }
        }).collect();
    } else {
        let n = args.scale(260, 9000);
        for _ in 0..n {
            let mut r = rng.fork();
            schedules.push(("random".into(), gen_sched(&mut r)));
        }
    }
    let t0 = Instant::now();
    let budget = Duration::from_secs(if args.thorough() { 1300 } else { 150 });
    let mut skipped = 0u64;
    for (origin, s) in &schedules {
        if t0.elapsed() > budget {
            skipped += 1;
            continue;
        }
        let o = run_sched(s, &mut lean);
        let line = sched_line(s);
        let nontrivial = o.finished > 0 && o.workers > 0;
        rep.case(&line, nontrivial);
        rep.traces += 1;
        rep.hit(&format!("schedule origin {origin}"));
        rep.hit(&format!("runtime {}", if s.threads == 0 { "current-thread".to_string() } else { format!("multi-thread x{}", s.threads) }));
        rep.hit_n("callers spawned", o.waiters as u64);
        rep.hit_n("callers finished", o.finished as u64);
        rep.hit_n("fetcher invocations", o.fetches as u64);
        rep.hit_n("workers (model)", o.workers as u64);
        rep.hit_n("model actions replayed", o.model_actions);
        rep.hit_n("synchronisation points compared", o.syncs as u64);
        rep.hit_n("witness rebuilt after late quiescence", o.retries as u64);
        rep.hit_n("deferred cancellations (scc reclaim) inferred", o.reclaims as u64);
        rep.hit_n("callers on a bare handle", o.handle_callers as u64);
        rep.hit_n("handshake states compared (init/ongoing/error/active per held handle)", o.handle_states as u64);
        rep.hit_n("handles checked after drop (error, no path)", o.handles_after_drop as u64);
        for (a, n) in &o.counts {
            rep.hit_n(&format!("model action {a}"), *n);
        }
        for (r, n) in &o.results {
            rep.hit_n(&format!("caller result {r}"), *n);
        }
        for op in &s.ops {
            let k = match op {
                Op::Spawn { n, kind, .. } => format!("op spawn {:?} x{n}", kind),
                Op::Release { resp, .. } => format!("op lookup completes {}", resp.s()),
                Op::Stop { .. } => "op stop_managing_paths".into(),
                Op::DropMgr => "op drop manager".into(),
                Op::IdleWait => "op idle expiry".into(),
                Op::RefetchWait => "op wait for refetch".into(),
                Op::ReleaseAll { .. } => "op finish all lookups".into(),
                Op::Sync => "op sync".into(),
            };
            rep.hit(&k);
        }
        if rep.samples.len() < 4 && nontrivial && o.waiters <= 6 && o.disagree.is_none() && o.spec.is_empty() {
            rep.sample(json!({"schedule": line, "callers": o.waiters, "results": o.results, "fetcher_invocations": o.fetches,
                               "model_actions": o.model_actions, "witness_tail": o.trace_tail.iter().rev().take(12).rev().collect::<Vec<_>>() }));
        }
        // a witness failure that does not reproduce on the same schedule is a timing artefact of the harness (late
        // quiescence under load, a timer firing at an unexpected moment): recorded, but not a disagreement
        let mut o = o;
        if let Some((what, im, mo)) = o.disagree.clone() {
            let mut reproduced = None;
            for _ in 0..2 {
                let o2 = run_sched(s, &mut lean);
                if o2.disagree.is_some() {
                    reproduced = Some(o2);
                    break;
                }
            }
            match reproduced {
                Some(o2) => o = o2,
                None => {
                    rep.hit("transient witness failure (not reproduced in 2 re-runs of the same schedule)");
                    if rep.notes.len() < 12 {
                        rep.notes.push(format!("transient: {line} | {what}: impl {im} model {mo} | {:?}", o.cand_mm.iter().take(3).collect::<Vec<_>>()));
                    }
                    o.disagree = None;
                }
            }
        }
        if let Some((what, im, mo)) = &o.disagree {
            let small = shrink(s, &mut lean, &|o: &Outcome| o.disagree.is_some());
            let o2 = run_sched(&small, &mut lean);
            let (w2, i2, m2, tail, cm) = match &o2.disagree {
                Some((w, i, m)) => (w.clone(), i.clone(), m.clone(), o2.trace_tail.clone(), o2.cand_mm.clone()),
                None => (what.clone(), im.clone(), mo.clone(), o.trace_tail.clone(), o.cand_mm.clone()),
            };
            let ln = if o2.disagree.is_some() { sched_line(&small) } else { line.clone() };
            rep.disagree("path-manager trace inclusion", json!({"line": ln, "original": line, "what": w2, "candidates": cm, "witness_tail": tail}), &i2, &m2);
        }
        let mut seen = std::collections::HashSet::new();
        for (key, what) in &o.spec {
            if !seen.insert(key.clone()) {
                continue;
            }
            let k = key.clone();
            let small = shrink(s, &mut lean, &|o: &Outcome| o.spec.iter().any(|(kk, _)| *kk == k));
            rep.spec_fail(key, what, json!({"line": sched_line(&small), "original": line}));
        }
    }
    if skipped > 0 {
        rep.notes.push(format!("time budget reached: {skipped} generated schedules not run"));
    }
    if rep.samples.is_empty() {
        if let Some((_, s)) = schedules.first() {
            rep.sample(json!({"schedule": sched_line(s)}));
        }
    }
    rep.write(&args.out);
    std::process::exit(if rep.ok() { 0 } else { 1 });
}
