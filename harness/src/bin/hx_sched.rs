//! C20 — trace inclusion + spec oracle for the path-manager concurrency protocol
//! (`scion_stack::path::manager::MultiPathManager`: callers of `path()` / `cached_path()`, the per-pair worker
//! task, `stop_managing_paths`, idle removal, drop of the manager).
//!
//! Two streams of cases (both are *schedules* run against the REAL `MultiPathManager` with a mock `PathFetcher`):
//!
//! **(a) controlled schedules** (`rt=ctl`, see `run_ctl_async`): the code carries `verif-hooks` yield points
//! between its lock-protected regions and lock-free loads/stores (`verif_sched::yield_point`, /repo 3648621).
//! Every task parks at every yield point (and at the fetcher); the harness releases exactly one task at a time on a
//! current-thread runtime.  The interleaving is therefore *forced* at lock-region granularity, the sequence of
//! model actions is *observed* (the region between the site a task left and the site it reaches next is one model
//! action), every action must be enabled in the compiled Lean model (`drv_sched`), and after every step the model
//! state is compared with the real one.  Steps: `S.<kind>.<key>` spawn one caller, `c<j>` / `w<i>` release caller j /
//! worker i, `f<i>.<ok|near|empty|err>` complete the lookup of worker i, `T.<key>` stop_managing_paths, `D` drop the
//! user's manager, `Z` let timers fire, `M.<key>.<n>` n `cached_path` callers one after the other (index traffic); afterwards everything is drained (lookups answered, manager dropped, all
//! tasks released until they end).  No failure of a controlled schedule is ever forgiven.
//!
//! **(b) free-running schedules**: runtime flavour (current-thread / multi-thread, optionally with seeded
//! re-scheduling at every yield point, `pert=1`) + a program of harness operations:
//!   `S.<kind>.<key>.<n>` spawn n concurrent callers, `R.<key>.<ok|empty|err>` let the oldest pending lookup of
//!   the pair finish (or pre-arm the next one), `T.<key>` stop_managing_paths, `D` drop the user's manager,
//!   `I` wait out the idle period, `A` finish all pending lookups, `Y` synchronise, `M.<key>.<n>` n × `cached_path`
//!   to destination `key` made by the harness task itself (traffic on the manager's index, as every `send_to`
//!   causes it: scc::HashIndex frees a removed entry – drops its `PathSetTask` – only during later operations).
//! At every `Y` the harness waits for the real system to become quiescent, then *searches* a witness schedule
//! of model actions (lock-region granularity) and replays it on the model: every action must be
//! enabled (`ok`), and the model's observable state must equal what the real system showed – per caller
//! (finished?, result), per pair (number of fetcher invocations = number of workers that started a lookup),
//! fetcher dropped (= manager value gone), number of live tokio tasks (= callers + workers not yet finished).
//! Where the real outcome depends on a race the model also allows, the witness is chosen by the observed result
//! (`save`/`restore` on the driver); a result the model cannot produce at any position is a disagreement.  This
//! stream is what exercises true parallelism (the races inside synchronous code such as `ensure_managed_paths`).
//!
//! Spec oracle (independent of the model), applied to the real system:
//!  * `C20:waiter-not-released`  a `path()` future still pending although no lookup of its pair is pending;
//!  * `C20:waiter-not-released:after-stop` / `:after-drop`  the same for a caller that was waiting for a lookup in
//!                               flight when `stop_managing_paths(src, dst)` / the drop of the manager was called: after the lookup
//!                               was answered (and, controlled: every parked task released) it must return within
//!                               1.5 s / 4 s / 2.5 s – directed schedules `gen_stop_pending`, `gen_ctl_stop_pending`;
//!  * `C20:two-workers`          more than one fetcher invocation for a pair before any removal of that pair;
//!  * `C20:worker-not-stopped`   tokio tasks still alive / fetcher not dropped after the manager was dropped and
//!                               all lookups finished;
//!  * `C20:path-after-drop`      a held `PathSetHandle` that, after the drop and the end of all tasks, does not show
//!                               initialized ∧ ¬ongoing ∧ exit error ∧ empty active slot;
//!  * `C20:bad-result`, `C20:panic`  a caller returned something that is neither a served path nor an error.
use std::{
    collections::{HashMap, HashSet, VecDeque},
    sync::{
        Arc, Mutex,
        atomic::{AtomicBool, Ordering},
    },
    time::{Duration, Instant, SystemTime},
};

use scion_stack::path::{
    PathStrategy,
    fetcher::traits::{PathFetchError, PathFetcher},
    manager::{
        MultiPathManager, MultiPathManagerConfig,
        traits::{PathManager, PathWaitError},
        verif_sched::{VerifHandle, YieldCtx, YieldFuture, set_yield_controller},
    },
};
use sciparse::{
    address::ip_addr::ScionIpAddr,
    identifier::{asn::Asn, isd::Isd, isd_asn::IsdAsn},
    path::ScionPath,
    util::test_builder::TestPathBuilder,
};
use serde_json::json;
use tokio::sync::Semaphore;
use verif_harness::*;

// ---------------------------------------------------------------------------------------------------------
// schedule
// ---------------------------------------------------------------------------------------------------------

#[derive(Clone, Copy, PartialEq, Eq, Debug)]
enum Resp {
    Ok,
    /// a path that is about to expire: cached, but never made active; the worker refetches after
    /// `min_refetch_delay`
    Near,
    Empty,
    Err,
}
impl Resp {
    fn s(self) -> &'static str {
        match self {
            Resp::Ok => "ok",
            Resp::Near => "near",
            Resp::Empty => "empty",
            Resp::Err => "err",
        }
    }
}

#[derive(Clone, Copy, PartialEq, Eq, Debug)]
enum Kind {
    Path,
    PathWait,
    Cached,
    /// `PathSetHandle::active_path()` + `current_error()` on a bare handle (verif-hooks): the newest handle the
    /// harness knows for the pair
    Handle,
    /// … the oldest one (possibly of a worker that was removed / has exited long ago)
    HandleOld,
}

#[derive(Clone, Debug, PartialEq)]
enum Op {
    Spawn { kind: Kind, key: usize, n: usize },
    Release { key: usize, resp: Resp },
    Stop { key: usize },
    DropMgr,
    IdleWait,
    RefetchWait,
    ReleaseAll { resp: Resp },
    Sync,
    /// the application keeps sending to destination `key`: `n` × `cached_path(src, key)` on the harness task
    /// (what every `send_to` does) – pure traffic on the manager's index.  scc::HashIndex frees a removed entry
    /// (and with it drops the `PathSetTask`) only in the course of later operations on the index
    Traffic { key: usize, n: usize },
}

#[derive(Clone, Debug)]
struct Sched {
    /// 0 = current-thread runtime, n>0 = multi-thread runtime with n workers
    threads: usize,
    /// max_idle_period in ms (0 = default 2 min, i.e. never during the schedule)
    idle_ms: u64,
    /// max_cached_paths_per_pair (None = default 50)
    cap: Option<usize>,
    /// min_refetch_delay in ms (0 = default 60 s): a worker whose last lookup returned only near-expiry
    /// paths refetches after this delay
    refetch_ms: u64,
    ops: Vec<Op>,
    /// free-running multi-thread schedules: every yield point of the code (verif-hooks, lock-region granularity)
    /// re-schedules the task 0..3 times (seeded) – widens the windows between two lock regions
    perturb: bool,
    /// controlled schedule (`rt=ctl`): the harness is the scheduler – every task parks at every yield point and
    /// exactly one task at a time is released.  `steps` = the releases / operations to perform (replay);
    /// `gen` = (seed, number of steps) to choose them at random while running
    ctl: Option<CtlSpec>,
}

#[derive(Clone, Debug, Default)]
struct CtlSpec {
    steps: Vec<String>,
    genr: Option<(u64, usize)>,
}

fn sched_line(s: &Sched) -> String {
    if let Some(c) = &s.ctl {
        return format!(
            "rt=ctl idle={}{} ops={}",
            s.idle_ms,
            if s.refetch_ms > 0 { format!(" refetch={}", s.refetch_ms) } else { String::new() },
            match c.genr {
                Some((seed, n)) if c.steps.is_empty() => format!("gen.{seed}.{n}"),
                _ => c.steps.join(";"),
            }
        );
    }
    let ops: Vec<String> = s
        .ops
        .iter()
        .map(|o| match o {
            Op::Spawn { kind, key, n } => format!(
                "S.{}.{key}.{n}",
                match kind {
                    Kind::Path => "p",
                    Kind::PathWait => "w",
                    Kind::Cached => "c",
                    Kind::Handle => "h",
                    Kind::HandleOld => "o",
                }
            ),
            Op::Release { key, resp } => format!("R.{key}.{}", resp.s()),
            Op::Stop { key } => format!("T.{key}"),
            Op::DropMgr => "D".into(),
            Op::IdleWait => "I".into(),
            Op::RefetchWait => "W".into(),
            Op::ReleaseAll { resp } => format!("A.{}", resp.s()),
            Op::Sync => "Y".into(),
            Op::Traffic { key, n } => format!("M.{key}.{n}"),
        })
        .collect();
    format!(
        "rt={}{} idle={}{}{} ops={}",
        if s.threads == 0 { "ct".to_string() } else { format!("mt{}", s.threads) },
        if s.perturb { " pert=1" } else { "" },
        s.idle_ms,
        match s.cap {
            Some(c) => format!(" cap={c}"),
            None => String::new(),
        },
        if s.refetch_ms > 0 { format!(" refetch={}", s.refetch_ms) } else { String::new() },
        ops.join(";")
    )
}

fn parse_resp(s: &str) -> Option<Resp> {
    match s {
        "ok" => Some(Resp::Ok),
        "near" => Some(Resp::Near),
        "empty" => Some(Resp::Empty),
        "err" => Some(Resp::Err),
        _ => None,
    }
}

fn parse_sched(line: &str) -> Option<Sched> {
    let mut threads = 0usize;
    let mut idle_ms = 0u64;
    let mut cap = None;
    let mut refetch_ms = 0u64;
    let mut ops = vec![];
    let mut perturb = false;
    let mut ctl: Option<CtlSpec> = None;
    for tok in line.split_whitespace() {
        let (k, v) = tok.split_once('=')?;
        match k {
            "rt" if v == "ctl" => ctl = Some(CtlSpec::default()),
            "pert" => perturb = v == "1",
            "ops" if ctl.is_some() => {
                let c = ctl.as_mut().unwrap();
                let p: Vec<&str> = v.split('.').collect();
                if let ["gen", seed, n] = p.as_slice() {
                    c.genr = Some((seed.parse().ok()?, n.parse().ok()?));
                } else {
                    c.steps = v.split(';').filter(|x| !x.is_empty()).map(|x| x.to_string()).collect();
                }
            }
            "rt" => {
                threads = if v == "ct" { 0 } else { v.strip_prefix("mt")?.parse().ok()? };
            }
            "idle" => idle_ms = v.parse().ok()?,
            "cap" => cap = Some(v.parse().ok()?),
            "refetch" => refetch_ms = v.parse().ok()?,
            "ops" => {
                for o in v.split(';').filter(|x| !x.is_empty()) {
                    let p: Vec<&str> = o.split('.').collect();
                    let op = match p.as_slice() {
                        ["S", k, key, n] => Op::Spawn {
                            kind: match *k {
                                "p" => Kind::Path,
                                "w" => Kind::PathWait,
                                "c" => Kind::Cached,
                                "h" => Kind::Handle,
                                "o" => Kind::HandleOld,
                                _ => return None,
                            },
                            key: key.parse().ok()?,
                            n: n.parse().ok()?,
                        },
                        ["R", key, r] => Op::Release { key: key.parse().ok()?, resp: parse_resp(r)? },
                        ["T", key] => Op::Stop { key: key.parse().ok()? },
                        ["D"] => Op::DropMgr,
                        ["I"] => Op::IdleWait,
                        ["W"] => Op::RefetchWait,
                        ["A", r] => Op::ReleaseAll { resp: parse_resp(r)? },
                        ["Y"] => Op::Sync,
                        ["M", key, n] => Op::Traffic { key: key.parse().ok()?, n: n.parse().ok()? },
                        _ => return None,
                    };
                    ops.push(op);
                }
            }
            _ => return None,
        }
    }
    Some(Sched { threads, idle_ms, cap, refetch_ms, ops, perturb, ctl })
}

// ---------------------------------------------------------------------------------------------------------
// gated mock fetcher
// ---------------------------------------------------------------------------------------------------------

const NKEYS: usize = 4;

fn key_pair(k: usize) -> (IsdAsn, IsdAsn) {
    (IsdAsn::new(Isd(1), Asn(1)), IsdAsn::new(Isd(2), Asn(10 + k as u64)))
}

fn mk_path(key: usize, id: u32, near: bool) -> ScionPath {
    let (src, dst) = key_pair(key);
    let s = ScionIpAddr::new(src, std::net::IpAddr::V4(std::net::Ipv4Addr::LOCALHOST));
    let d = ScionIpAddr::new(dst, std::net::IpAddr::V4(std::net::Ipv4Addr::new(127, 0, 0, 2)));
    let now = SystemTime::now().duration_since(SystemTime::UNIX_EPOCH).unwrap().as_secs() as u32;
    // hop expiry unit = 337.5 s: near = expires in ~137 s (< min_expiry_threshold = 300 s), else in ~9 h
    let (ts, exp) = if near { (now - 200, 0u8) } else { (now, 100u8) };
    let h = (id % 60000) as u16;
    TestPathBuilder::new(s.into(), d.into())
        .using_info_timestamp(ts)
        .with_hop_expiry(exp)
        .up()
        .add_hop(0, 1)
        .with_asn(1000 + id)
        .add_hop(h + 2, h + 3)
        .with_asn(5000 + id)
        .add_hop(h + 4, h + 5)
        .add_hop(1, 0)
        .build(ts)
        .path()
}

#[derive(Default)]
struct KeyGate {
    /// number of `fetch_paths` invocations so far
    starts: usize,
    /// tickets waiting for a response: (ticket, semaphore)
    waiting: VecDeque<(usize, Arc<Semaphore>)>,
    /// responses assigned to released tickets
    assigned: HashMap<usize, (Resp, u32)>,
    /// responses armed before the lookup started (the next lookups complete immediately)
    pre: VecDeque<(Resp, u32)>,
    /// completed lookups
    ends: usize,
}

struct GateShared {
    keys: Mutex<Vec<KeyGate>>,
    /// path id -> (key, path)
    served: Mutex<HashMap<u32, (usize, ScionPath)>>,
    dropped: AtomicBool,
    /// controlled schedules: a lookup parks at the controller instead of a semaphore
    ctl: Option<Arc<Ctl>>,
}

impl GateShared {
    fn new(ctl: Option<Arc<Ctl>>) -> Arc<Self> {
        Arc::new(GateShared {
            ctl,
            keys: Mutex::new((0..NKEYS).map(|_| KeyGate::default()).collect()),
            served: Mutex::new(HashMap::new()),
            dropped: AtomicBool::new(false),
        })
    }
    /// complete the oldest pending lookup of `key`, or arm the next one
    fn release(&self, key: usize, resp: Resp, id: u32) {
        let mut g = self.keys.lock().unwrap();
        let kg = &mut g[key];
        if let Some((ticket, sem)) = kg.waiting.pop_front() {
            kg.assigned.insert(ticket, (resp, id));
            sem.add_permits(1);
        } else {
            kg.pre.push_back((resp, id));
        }
    }
    fn starts(&self) -> Vec<usize> {
        self.keys.lock().unwrap().iter().map(|k| k.starts).collect()
    }
    fn pending(&self) -> Vec<usize> {
        self.keys.lock().unwrap().iter().map(|k| k.waiting.len()).collect()
    }
    fn armed(&self) -> Vec<usize> {
        self.keys.lock().unwrap().iter().map(|k| k.pre.len()).collect()
    }
    fn ends(&self) -> Vec<usize> {
        self.keys.lock().unwrap().iter().map(|k| k.ends).collect()
    }
}

struct GFetcher(Arc<GateShared>);
impl Drop for GFetcher {
    fn drop(&mut self) {
        self.0.dropped.store(true, Ordering::SeqCst);
    }
}

impl PathFetcher for GFetcher {
    async fn fetch_paths(&self, src: IsdAsn, dst: IsdAsn) -> Result<Vec<ScionPath>, PathFetchError> {
        let key = (0..NKEYS).find(|k| key_pair(*k) == (src, dst)).expect("unknown pair");
        if let Some(ctl) = self.0.ctl.clone() {
            // controlled schedule: park until the harness completes this lookup with a response of its choice
            self.0.keys.lock().unwrap()[key].starts += 1;
            let (tx, rx) = tokio::sync::oneshot::channel();
            ctl.q.lock().unwrap().push_back(Ev { caller: None, set: None, key: Some(key), site: "f:start", reason: None, park: Park::Fetch(tx) });
            let (resp, id) = rx.await.unwrap_or((Resp::Err, 0));
            self.0.keys.lock().unwrap()[key].ends += 1;
            return match resp {
                Resp::Ok | Resp::Near => {
                    let p = mk_path(key, id, resp == Resp::Near);
                    self.0.served.lock().unwrap().insert(id, (key, p.clone()));
                    Ok(vec![p])
                }
                Resp::Empty => Ok(vec![]),
                Resp::Err => Err(PathFetchError::InternalError("mock lookup failure".into())),
            };
        }
        let (ticket, wait) = {
            let mut g = self.0.keys.lock().unwrap();
            let kg = &mut g[key];
            let ticket = kg.starts;
            kg.starts += 1;
            if let Some(r) = kg.pre.pop_front() {
                kg.assigned.insert(ticket, r);
                (ticket, None)
            } else {
                let sem = Arc::new(Semaphore::new(0));
                kg.waiting.push_back((ticket, sem.clone()));
                (ticket, Some(sem))
            }
        };
        if let Some(sem) = wait {
            sem.acquire().await.expect("semaphore closed").forget();
        }
        let (resp, id) = {
            let mut g = self.0.keys.lock().unwrap();
            let kg = &mut g[key];
            kg.ends += 1;
            kg.assigned.remove(&ticket).expect("released ticket has a response")
        };
        match resp {
            Resp::Ok | Resp::Near => {
                let p = mk_path(key, id, resp == Resp::Near);
                self.0.served.lock().unwrap().insert(id, (key, p.clone()));
                Ok(vec![p])
            }
            Resp::Empty => Ok(vec![]),
            Resp::Err => Err(PathFetchError::InternalError("mock lookup failure".into())),
        }
    }
}

// ---------------------------------------------------------------------------------------------------------
// the real side
// ---------------------------------------------------------------------------------------------------------

/// what the harness can see of a caller task from outside: polled at least once, not being polled right
/// now, no wake-up pending.  (Under load a runtime thread may be descheduled for milliseconds in the middle of
/// `path()`; "nothing observable changes" alone is not a reliable sign of quiescence.)
#[derive(Default)]
struct ProbeState {
    polls: std::sync::atomic::AtomicUsize,
    polling: AtomicBool,
    woken: AtomicBool,
    done: AtomicBool,
}

struct ProbeWaker {
    inner: std::task::Waker,
    st: Arc<ProbeState>,
}
impl std::task::Wake for ProbeWaker {
    fn wake(self: Arc<Self>) {
        self.st.woken.store(true, Ordering::SeqCst);
        self.inner.wake_by_ref();
    }
    fn wake_by_ref(self: &Arc<Self>) {
        self.st.woken.store(true, Ordering::SeqCst);
        self.inner.wake_by_ref();
    }
}

struct Probe<F> {
    inner: std::pin::Pin<Box<F>>,
    st: Arc<ProbeState>,
}
impl<F: std::future::Future> std::future::Future for Probe<F> {
    type Output = F::Output;
    fn poll(mut self: std::pin::Pin<&mut Self>, cx: &mut std::task::Context<'_>) -> std::task::Poll<F::Output> {
        let st = self.st.clone();
        st.polling.store(true, Ordering::SeqCst);
        st.woken.store(false, Ordering::SeqCst);
        let waker = std::task::Waker::from(Arc::new(ProbeWaker { inner: cx.waker().clone(), st: st.clone() }));
        let mut cx2 = std::task::Context::from_waker(&waker);
        let r = self.inner.as_mut().poll(&mut cx2);
        if r.is_ready() {
            st.done.store(true, Ordering::SeqCst);
        }
        st.polls.fetch_add(1, Ordering::SeqCst);
        st.polling.store(false, Ordering::SeqCst);
        r
    }
}
impl ProbeState {
    fn settled(&self) -> bool {
        self.done.load(Ordering::SeqCst)
            || (self.polls.load(Ordering::SeqCst) > 0 && !self.polling.load(Ordering::SeqCst) && !self.woken.load(Ordering::SeqCst))
    }
}

struct RealWaiter {
    probe: Arc<ProbeState>,
    kind: Kind,
    key: usize,
    /// `None`: a synchronous call made by the harness task itself (`Op::Traffic`)
    handle: Option<tokio::task::JoinHandle<String>>,
    result: Option<String>,
    /// `stop_managing_paths` of its pair ("stop") / the drop of the user's manager ("drop") was called while this
    /// caller was waiting (the first of them)
    stopped: Option<&'static str>,
}

fn classify_err(gate: &GateShared, e: &PathFetchError) -> String {
    let _ = gate;
    match e {
        PathFetchError::NoPathsFound => "err:noPaths".into(),
        PathFetchError::InternalError(m) => {
            if let Some(r) = m.strip_prefix("PathSet task exited: ") {
                match r {
                    "idle" => "err:exited:idle".into(),
                    "cancelled" => "err:exited:cancelled".into(),
                    "manager dropped" => "err:exited:mgrGone".into(),
                    o => format!("err:exited:?{o}"),
                }
            } else if m == "mock lookup failure" {
                "err:fetchFailed".into()
            } else {
                format!("err:?{m}")
            }
        }
        o => format!("err:?{o}"),
    }
}

/// class of a `current_error` display string (verif-hooks `sync_state`)
fn classify_err_text(t: &str) -> String {
    if t == "no paths found" {
        "noPaths".into()
    } else if let Some(m) = t.strip_prefix("internal error: ") {
        if let Some(r) = m.strip_prefix("PathSet task exited: ") {
            match r {
                "idle" => "exited:idle".into(),
                "cancelled" => "exited:cancelled".into(),
                "manager dropped" => "exited:mgrGone".into(),
                o => format!("exited:?{o}"),
            }
        } else if m == "mock lookup failure" {
            "fetchFailed".into()
        } else {
            format!("?{m}")
        }
    } else {
        format!("?{t}")
    }
}

fn handle_state(gate: &GateShared, key: usize, h: &VerifHandle) -> String {
    let st = h.sync_state();
    let active = match &st.active {
        Some(p) => classify_path(gate, key, p).trim_start_matches("path:").to_string(),
        None => "-".into(),
    };
    format!(
        "init={} ongoing={} err={} active={}",
        st.initialized as u8,
        st.ongoing as u8,
        st.error.as_deref().map(classify_err_text).unwrap_or_else(|| "-".into()),
        active
    )
}

fn classify_path(gate: &GateShared, key: usize, p: &ScionPath) -> String {
    let served = gate.served.lock().unwrap();
    for (id, (k, sp)) in served.iter() {
        if *k == key && sp.fingerprint() == p.fingerprint() {
            return format!("path:{id}");
        }
    }
    "path:?".into()
}

struct Real {
    gate: Arc<GateShared>,
    mgr: Option<MultiPathManager<GFetcher>>,
    waiters: Vec<RealWaiter>,
    threads: usize,
    /// a removal of the pair has been requested / may have happened (stop, idle wait, drop)
    removal_possible: Vec<bool>,
    /// handles captured at synchronisation points: (pair, handle, index of the worker in the model)
    handles: Vec<(usize, VerifHandle, usize)>,
    idle_ms: u64,
    refetch_ms: u64,
    t0: Instant,
}

#[derive(Clone, PartialEq, Debug)]
struct Obs {
    finished: Vec<bool>,
    starts: Vec<usize>,
    ends: Vec<usize>,
    dropped: bool,
    alive_tasks: usize,
    /// caller tasks that have not been polled yet, are being polled, or have a wake-up pending
    busy: usize,
}

impl Real {
    /// the handle a `Handle` / `HandleOld` caller would use, with the model index of its worker
    fn pick_handle(&self, kind: Kind, key: usize) -> Option<(VerifHandle, usize)> {
        let mut it = self.handles.iter().filter(|(k, _, _)| *k == key);
        let h = if kind == Kind::HandleOld { it.next() } else { it.last() };
        h.map(|(_, h, i)| (h.clone(), *i))
    }

    fn spawn_handle(&mut self, kind: Kind, key: usize, h: VerifHandle) {
        let gate = self.gate.clone();
        let probe = Arc::new(ProbeState::default());
        let fut = async move {
            match h.path().await {
                Ok(p) => classify_path(&gate, key, &p),
                Err(Some(e)) => classify_err(&gate, &e),
                Err(None) => "err:noPaths".into(),
            }
        };
        let handle = tokio::spawn(Probe { inner: Box::pin(fut), st: probe.clone() });
        self.waiters.push(RealWaiter { probe, kind, key, handle: Some(handle), result: None, stopped: None });
    }

    fn spawn(&mut self, kind: Kind, key: usize) {
        let mgr = self.mgr.as_ref().expect("spawn after drop").clone();
        let gate = self.gate.clone();
        let (src, dst) = key_pair(key);
        let probe = Arc::new(ProbeState::default());
        let fut = async move {
            let out = match kind {
                Kind::Handle | Kind::HandleOld => unreachable!(),
                Kind::Path => match mgr.path(src, dst, SystemTime::now()).await {
                    Ok(p) => classify_path(&gate, key, &p),
                    Err(e) => classify_err(&gate, &e),
                },
                Kind::PathWait => match mgr.path_wait(src, dst, SystemTime::now()).await {
                    Ok(p) => classify_path(&gate, key, &p),
                    Err(PathWaitError::NoPathFound) => "err:noPaths".into(),
                    Err(PathWaitError::FetchFailed(e)) => classify_err(&gate, &e),
                    Err(o) => format!("err:?{o}"),
                },
                Kind::Cached => match mgr.cached_path(src, dst, SystemTime::now()) {
                    Some(p) => classify_path(&gate, key, &p),
                    None => "nothing".into(),
                },
            };
            drop(mgr);
            out
        };
        let handle = tokio::spawn(Probe { inner: Box::pin(fut), st: probe.clone() });
        self.waiters.push(RealWaiter { probe, kind, key, handle: Some(handle), result: None, stopped: None });
    }

    /// one `cached_path` call made by the harness task itself (no task is spawned): a caller that has returned
    fn inline_cached(&mut self, key: usize) -> String {
        let (src, dst) = key_pair(key);
        let mgr = self.mgr.as_ref().expect("traffic after drop");
        let r = match catch(|| mgr.cached_path(src, dst, SystemTime::now())) {
            Ok(Some(p)) => classify_path(&self.gate, key, &p),
            Ok(None) => "nothing".into(),
            Err(e) => format!("panic:{e}"),
        };
        let probe = Arc::new(ProbeState::default());
        probe.done.store(true, Ordering::SeqCst);
        self.waiters.push(RealWaiter { probe, kind: Kind::Cached, key, handle: None, result: Some(r.clone()), stopped: None });
        r
    }

    /// `stop_managing_paths(key)` (or, `None`, the drop of the user's manager) is about to be called: remember
    /// the callers that are waiting at this moment
    async fn mark_stopped(&mut self, key: Option<usize>) {
        self.collect().await;
        for w in self.waiters.iter_mut() {
            if w.result.is_none() && w.stopped.is_none() && key.map(|k| k == w.key).unwrap_or(true) {
                w.stopped = Some(if key.is_some() { "stop" } else { "drop" });
            }
        }
    }

    async fn collect(&mut self) {
        for w in self.waiters.iter_mut() {
            let Some(h) = w.handle.as_mut() else { continue };
            if w.result.is_none() && h.is_finished() {
                w.result = Some(match h.await {
                    Ok(s) => s,
                    Err(e) => format!("panic:{e}"),
                });
            }
        }
    }

    async fn observe(&mut self) -> Obs {
        self.collect().await;
        Obs {
            finished: self.waiters.iter().map(|w| w.result.is_some()).collect(),
            starts: self.gate.starts(),
            ends: self.gate.ends(),
            dropped: self.gate.dropped.load(Ordering::SeqCst),
            alive_tasks: tokio::runtime::Handle::current().metrics().num_alive_tasks(),
            busy: self.waiters.iter().filter(|w| !w.probe.settled()).count(),
        }
    }

    /// wait until the observable state stops changing
    async fn quiesce(&mut self, extra: bool) -> Obs {
        let t0 = Instant::now();
        let mut last = self.observe().await;
        let mut stable = 0;
        let need = if self.threads == 0 { 2 } else if extra { 8 } else { 4 };
        loop {
            if self.threads == 0 {
                for _ in 0..40 {
                    tokio::task::yield_now().await;
                }
            } else {
                tokio::time::sleep(Duration::from_micros(250)).await;
            }
            let o = self.observe().await;
            if o == last && o.busy == 0 {
                stable += 1;
                if stable >= need {
                    return o;
                }
            } else {
                stable = 0;
                last = o;
            }
            if t0.elapsed() > Duration::from_secs(3) {
                return last;
            }
        }
    }
}

// ---------------------------------------------------------------------------------------------------------
// the model side: witness construction
// ---------------------------------------------------------------------------------------------------------

struct MWorker {
    key: usize,
    resp: Option<(Resp, u32)>,
    /// some lookup of this worker returned a near-expiry path (it stays cached ⇒ the worker keeps refetching)
    ever_near: bool,
}

struct Model<'a> {
    lean: &'a mut Lean,
    /// every request sent since the last reset (for the report)
    log: Vec<String>,
    /// first action the model refused
    refused: Option<String>,
    workers: Vec<MWorker>,
    /// mirror of the gate: workers with a pending lookup per pair, in the order they started it
    inflight: Vec<VecDeque<usize>>,
    /// responses armed before any lookup of the pair was pending (taken by the next lookup that starts)
    prearmed: Vec<VecDeque<(Resp, u32)>>,
    /// responses handed to a pending lookup of worker i
    assigned: HashMap<usize, VecDeque<(Resp, u32)>>,
    n_waiters: usize,
    done: Vec<bool>,
    /// result of a caller that is done in the model (it never changes again; saves the query)
    res: Vec<Option<String>>,
    actions: u64,
    /// timers assumed to have fired: (worker, 1 = idle check finds the pair unused | 2 = refetch)
    timer_due: HashSet<(usize, u8)>,
    /// observed exit reason of a worker whose handle the harness holds (verif-hooks)
    exit_hint: HashMap<usize, String>,
    /// how often each model action was executed (committed or tried) – branch coverage of the model
    counts: HashMap<String, u64>,
}

fn field<'b>(line: &'b str, name: &str) -> &'b str {
    for tok in line.split_whitespace() {
        if let Some(v) = tok.strip_prefix(name) {
            if let Some(v) = v.strip_prefix('=') {
                return v;
            }
        }
    }
    ""
}

impl<'a> Model<'a> {
    fn new(lean: &'a mut Lean) -> Self {
        lean.ask("reset");
        Model {
            lean,
            log: vec![],
            refused: None,
            workers: vec![],
            inflight: (0..NKEYS).map(|_| VecDeque::new()).collect(),
            prearmed: (0..NKEYS).map(|_| VecDeque::new()).collect(),
            assigned: HashMap::new(),
            n_waiters: 0,
            done: vec![],
            res: vec![],
            actions: 0,
            timer_due: HashSet::new(),
            exit_hint: HashMap::new(),
            counts: HashMap::new(),
        }
    }
    fn enabled(&self) -> bool {
        self.lean.enabled
    }
    fn ask(&mut self, req: &str) -> String {
        let r = self.lean.ask(req);
        if !req.starts_with("q ") {
            self.log.push(format!("{req} -> {r}"));
            if self.log.len() > 400 {
                self.log.drain(..200);
            }
        }
        r
    }
    /// an action that must be enabled
    fn act(&mut self, req: &str) -> bool {
        if !self.enabled() {
            return true;
        }
        let r = self.ask(req);
        self.actions += 1;
        if r.starts_with("ok") {
            let mut it = req.split_whitespace();
            let name = match (it.next(), it.next(), it.next(), it.next()) {
                (Some("w"), _, Some(a), arg) => match (a, arg) {
                    ("fetchDone", Some(x)) => format!("worker fetchDone({x})"),
                    ("publishActive", Some(x)) | ("cacheStore", Some(x)) | ("issueRx", Some(x)) => {
                        format!("worker {a}({})", if x.starts_with("set") { "set" } else { x })
                    }
                    ("tickNothing", Some(x)) => format!("worker tickNothing({x})"),
                    _ => format!("worker {a}"),
                },
                (Some("m"), Some(a), _, _) => format!("manager {a}"),
                _ => "other".into(),
            };
            *self.counts.entry(name).or_insert(0) += 1;
            true
        } else {
            if self.refused.is_none() {
                self.refused = Some(format!("{req} -> {r}"));
            }
            false
        }
    }
    /// mirror of `GateShared::release`
    fn release(&mut self, key: usize, resp: Resp, id: u32) {
        if let Some(i) = self.inflight[key].pop_front() {
            self.assigned.entry(i).or_default().push_back((resp, id));
        } else {
            self.prearmed[key].push_back((resp, id));
        }
    }
    fn spawn_handle(&mut self, i: usize) {
        self.act(&format!("m spawnHandle {i}"));
        self.n_waiters += 1;
        self.done.push(false);
        self.res.push(None);
    }
    fn spawn(&mut self, kind: Kind, key: usize) {
        let a = match kind {
            Kind::Cached => format!("m spawnCached {key}"),
            _ => format!("m spawnPath {key}"),
        };
        self.act(&a);
        self.n_waiters += 1;
        self.done.push(false);
        self.res.push(None);
    }
    fn globals(&mut self) -> (usize, usize, bool) {
        let g = self.ask("q g");
        (field(&g, "nW").parse().unwrap_or(0), field(&g, "nT").parse().unwrap_or(0), field(&g, "alive") == "1")
    }
    /// run caller j until it blocks or finishes; returns (progress, finished-with-result)
    fn run_waiter(&mut self, j: usize) -> (bool, Option<String>) {
        let mut progress = false;
        loop {
            let r = self.ask(&format!("t {j} next"));
            if r.starts_with("ok") {
                self.actions += 1;
                progress = true;
                let name = format!("caller {}", r.trim_start_matches("ok "));
                *self.counts.entry(name).or_insert(0) += 1;
                continue;
            }
            if r == "blocked" {
                *self.counts.entry("caller blocked (registered, not yet notified)".into()).or_insert(0) += 1;
            }
            if r == "disabled" {
                let q = self.ask(&format!("q t {j}"));
                if field(&q, "pc") == "done" {
                    self.done[j] = true;
                    self.res[j] = Some(field(&q, "res").to_string());
                    return (progress, self.res[j].clone());
                }
            }
            return (progress, None);
        }
    }
    fn sync_workers(&mut self) {
        let (nw, _, _) = self.globals();
        while self.workers.len() < nw {
            let i = self.workers.len();
            let q = self.ask(&format!("q w {i}"));
            let key = field(&q, "key").parse().unwrap_or(0);
            self.workers.push(MWorker { key, resp: None, ever_near: false });
        }
    }
    /// callers whose real result is known and who would obtain exactly that result if they ran now
    fn early_waiters(&mut self, real: &[Option<String>]) -> bool {
        let mut progress = false;
        for j in 0..self.n_waiters {
            if self.done[j] {
                continue;
            }
            let Some(want) = real[j].clone() else { continue };
            self.ask("save");
            let (_, got) = self.run_waiter(j);
            if got.as_deref() == Some(want.as_str()) {
                self.ask("forget");
                progress = true;
            } else {
                self.done[j] = false;
                self.res[j] = None;
                self.ask("restore");
            }
        }
        progress
    }
    /// one step of worker i if it can move; `real` = results of the real callers (for racy placements)
    fn step_worker(&mut self, i: usize, real: &[Option<String>]) -> bool {
        let q = self.ask(&format!("q w {i}"));
        let pc = field(&q, "pc").to_string();
        let cancelled = field(&q, "cancelled") == "1";
        let used = field(&q, "used") == "1";
        let (_, _, alive) = self.globals();
        let key = self.workers[i].key;
        let a: Option<String> = match pc.as_str() {
            "start" => Some(if alive { "upgradeStart".into() } else { "mgrGone".into() }),
            "setOngoing" => {
                // the lookup starts: it takes an armed response, or queues up at the gate
                if let Some(r) = self.prearmed[key].pop_front() {
                    self.assigned.entry(i).or_default().push_back(r);
                } else {
                    self.inflight[key].push_back(i);
                }
                Some("setOngoing".into())
            }
            "fetching" => {
                if let Some(r) = self.assigned.get_mut(&i).and_then(|q| q.pop_front()) {
                    self.workers[i].resp = Some(r);
                    if r.0 == Resp::Near {
                        self.workers[i].ever_near = true;
                    }
                    Some(format!("fetchDone {}", if r.0 == Resp::Near { "ok" } else { r.0.s() }))
                } else {
                    None
                }
            }
            p if p.starts_with("cache:") => Some("cacheStore keep".into()),
            p if p.starts_with("setErr:") => Some("setErr".into()),
            "publish" => Some(match self.workers[i].resp {
                // an existing (valid) active path is kept: equal scores, no swap
                Some((Resp::Ok, id)) if field(&q, "active") == "-" => format!("publishActive set:{id}"),
                _ => "publishActive keep".into(),
            }),
            "clear" => Some("clearAndNotify".into()),
            "release" => Some("releaseMgr".into()),
            "loop" => {
                // manager gone: `select!` may see the fired token ("cancelled") or the closed issue channel
                // with a failing upgrade ("manager dropped") first – the model allows both; take the observed one
                let hint_gone = self.exit_hint.get(&i).map(|h| h == "mgrGone").unwrap_or(false);
                if cancelled && !(hint_gone && !alive) {
                    Some("cancelSeen".into())
                } else if !alive {
                    Some("mgrGone".into())
                } else if (self.timer_due.contains(&(i, 2)) || self.timer_due.contains(&(i, 3))) && self.workers[i].ever_near {
                    // (i,3): a second refetch in the same window (the first one took an armed response)
                    if !self.timer_due.remove(&(i, 2)) {
                        self.timer_due.remove(&(i, 3));
                    }
                    Some("tickRefetch".into())
                } else if self.timer_due.contains(&(i, 1)) {
                    if used {
                        Some("tickNothing 1".into())
                    } else {
                        Some("tickIdle".into())
                    }
                } else {
                    None
                }
            }
            p if p.starts_with("exitRemove:") => Some("exitRemove".into()),
            p if p.starts_with("exitNotify:") => Some("exitNotify".into()),
            "exitStore" => Some("storeNone".into()),
            _ => None,
        };
        let Some(a) = a else { return false };
        // a caller woken by this worker may have read the slot / the error before the worker went on: place
        // it by its observed result (the model allows both orders)
        // (also: a `cached_path` caller racing with the completion of a lookup returns nothing or the path)
        if self.enabled() {
            self.early_waiters(real);
        }
        self.act(&format!("w {i} {a}"));
        true
    }
    /// closure: workers first (as far as they can go), then callers, until nothing moves
    fn settle(&mut self, real: &[Option<String>]) {
        if !self.enabled() {
            return;
        }
        for _round in 0..10_000 {
            let mut progress = false;
            self.sync_workers();
            for i in 0..self.workers.len() {
                let mut guard = 0;
                while self.step_worker(i, real) {
                    progress = true;
                    guard += 1;
                    if guard > 64 || self.refused.is_some() {
                        break;
                    }
                }
            }
            for j in 0..self.n_waiters {
                if self.done[j] {
                    continue;
                }
                match real[j].clone() {
                    // the real caller has returned: commit a finishing run only if it yields that result
                    // (otherwise the caller ran at another position of the schedule: try again later)
                    Some(want) => {
                        self.ask("save");
                        let (p, got) = self.run_waiter(j);
                        if got.is_some() && got.as_deref() != Some(want.as_str()) {
                            self.done[j] = false;
                            self.res[j] = None;
                            self.ask("restore");
                        } else {
                            self.ask("forget");
                            progress |= p;
                        }
                    }
                    None => {
                        let (p, _) = self.run_waiter(j);
                        progress |= p;
                    }
                }
            }
            if self.refused.is_some() {
                break;
            }
            if !progress {
                // late timers: an idle exit that happened after the callers of this window had run
                let late: Vec<usize> = self.timer_due.iter().filter(|(_, k)| *k == 4).map(|(i, _)| *i).collect();
                if late.is_empty() {
                    break;
                }
                for i in late {
                    self.timer_due.remove(&(i, 4));
                    self.timer_due.insert((i, 1));
                }
            }
        }
        self.timer_due.clear();
    }
    /// back to the model state saved at the beginning of the current synchronisation point
    fn rewind(&mut self, sv: &Saved) {
        if !self.enabled() {
            return;
        }
        self.ask("restore");
        self.ask("save");
        self.refused = None;
        self.inflight = sv.inflight.clone();
        self.prearmed = sv.prearmed.clone();
        self.assigned = sv.assigned.clone();
        self.done = sv.done.clone();
        for j in 0..self.res.len() {
            if !self.done.get(j).copied().unwrap_or(false) {
                self.res[j] = None;
            }
        }
        self.workers.truncate(sv.nworkers);
        for (i, w) in self.workers.iter_mut().enumerate() {
            w.resp = sv.resp[i];
            w.ever_near = sv.ever_near[i];
        }
        self.timer_due = sv.timer_due.clone();
        self.actions = sv.actions;
    }
    /// workers that were removed from the map but whose cancel token has not fired and that still run
    fn garbage(&mut self) -> Vec<usize> {
        if !self.enabled() {
            return vec![];
        }
        self.sync_workers();
        let mut v = vec![];
        for i in 0..self.workers.len() {
            let q = self.ask(&format!("q w {i}"));
            if field(&q, "cancelled") == "1" || field(&q, "pc") == "done" {
                continue;
            }
            let key = self.workers[i].key;
            let e = self.ask(&format!("q k {key}"));
            if field(&e, "entry") != i.to_string() {
                v.push(i);
            }
        }
        v
    }
    /// workers that have not finished (they may reach their `select!` loop during this synchronisation point)
    fn loop_workers(&mut self) -> Vec<usize> {
        if !self.enabled() {
            return vec![];
        }
        self.sync_workers();
        let mut v = vec![];
        for i in 0..self.workers.len() {
            let q = self.ask(&format!("q w {i}"));
            if field(&q, "pc") != "done" {
                v.push(i);
            }
        }
        v
    }
    /// observable projection of the model state, same shape as `Obs` + results
    fn observe(&mut self) -> (Obs, Vec<Option<String>>) {
        self.sync_workers();
        let (nw, nt, alive) = self.globals();
        let mut finished = vec![];
        let mut results = vec![];
        let mut alive_tasks = 0;
        for j in 0..nt {
            if self.done.get(j).copied().unwrap_or(false) && self.res.get(j).map(|r| r.is_some()).unwrap_or(false) {
                finished.push(true);
                results.push(self.res[j].clone());
                continue;
            }
            let q = self.ask(&format!("q t {j}"));
            let d = field(&q, "pc") == "done";
            finished.push(d);
            results.push(if d { Some(field(&q, "res").to_string()) } else { None });
            if !d {
                alive_tasks += 1;
            }
        }
        let mut starts = vec![0usize; NKEYS];
        let mut ends = vec![0usize; NKEYS];
        for i in 0..nw {
            let q = self.ask(&format!("q w {i}"));
            let key: usize = field(&q, "key").parse().unwrap_or(0);
            let f: usize = field(&q, "fetches").parse().unwrap_or(0);
            starts[key] += f;
            let pc = field(&q, "pc");
            ends[key] += if pc == "fetching" { f.saturating_sub(1) } else if pc == "setOngoing" || pc == "start" { f } else { f };
            if pc != "done" {
                alive_tasks += 1;
            }
        }
        (Obs { finished, starts, ends, dropped: !alive, alive_tasks, busy: 0 }, results)
    }
}

// ---------------------------------------------------------------------------------------------------------
// running one schedule
// ---------------------------------------------------------------------------------------------------------

#[derive(Default)]
struct Outcome {
    disagree: Option<(String, String, String)>, // (where, impl, model)
    spec: Vec<(String, String)>,
    waiters: usize,
    finished: usize,
    results: HashMap<String, u64>,
    fetches: usize,
    workers: usize,
    registered: usize,
    model_actions: u64,
    syncs: usize,
    retries: usize,
    reclaims: usize,
    handle_callers: usize,
    handle_states: usize,
    handles_after_drop: usize,
    /// `cached_path` calls made by the harness task itself (`M` operations)
    traffic: usize,
    counts: HashMap<String, u64>,
    /// at a failed synchronisation point: the mismatch of every candidate witness tried last
    cand_mm: Vec<String>,
    trace_tail: Vec<String>,
    /// controlled schedules: the step tokens actually performed (before the drain)
    ctl_steps: Vec<String>,
}

fn run_sched(s: &Sched, lean: &mut Lean) -> Outcome {
    if s.ctl.is_some() {
        let rt = tokio::runtime::Builder::new_current_thread().enable_all().build().unwrap();
        let out = rt.block_on(run_ctl_async(s, lean));
        rt.shutdown_timeout(Duration::from_millis(200));
        set_yield_controller(None);
        return out;
    }
    if s.perturb && s.threads > 0 {
        install_perturb(s.ops.len() as u64 * 7919 + s.threads as u64);
    }
    let out = run_sched_free(s, lean);
    set_yield_controller(None);
    out
}

fn run_sched_free(s: &Sched, lean: &mut Lean) -> Outcome {
    let rt = if s.threads == 0 {
        tokio::runtime::Builder::new_current_thread().enable_all().build().unwrap()
    } else {
        tokio::runtime::Builder::new_multi_thread().worker_threads(s.threads).enable_all().build().unwrap()
    };
    let out = rt.block_on(run_sched_async(s, lean));
    rt.shutdown_timeout(Duration::from_millis(200));
    out
}

async fn run_sched_async(s: &Sched, lean: &mut Lean) -> Outcome {
    let mut out = Outcome::default();
    let gate = GateShared::new(None);
    let mut cfg = MultiPathManagerConfig::default();
    if s.idle_ms > 0 {
        cfg = cfg.with_max_idle_period(Duration::from_millis(s.idle_ms));
    }
    if let Some(c) = s.cap {
        cfg = cfg.with_max_cached_paths_per_pair(c);
    }
    if s.refetch_ms > 0 {
        cfg = cfg.with_min_refetch_delay(Duration::from_millis(s.refetch_ms));
    }
    let mgr = match MultiPathManager::new(cfg, GFetcher(gate.clone()), PathStrategy::default()) {
        Ok(m) => m,
        Err(e) => {
            out.spec.push(("C20:panic".into(), format!("manager construction failed: {e}")));
            return out;
        }
    };
    let base_tasks = tokio::runtime::Handle::current().metrics().num_alive_tasks();
    let mut real = Real { gate: gate.clone(), mgr: Some(mgr), waiters: vec![], threads: s.threads, removal_possible: vec![false; NKEYS], handles: vec![], idle_ms: s.idle_ms, refetch_ms: s.refetch_ms, t0: Instant::now() };
    let mut model = Model::new(lean);
    let model_was_enabled = model.lean.enabled;
    let mut next_id: u32 = 1;
    let mut ops: Vec<Op> = s.ops.clone();
    // every schedule ends with: finish all lookups, drop, synchronise
    ops.push(Op::Sync);
    if s.refetch_ms > 0 || s.ops.len() % 3 == 0 {
        // drop while lookups are still pending (in refetch schedules always: a worker that keeps refetching
        // near-expiry paths would otherwise start the next lookup before the drop)
        ops.push(Op::DropMgr);
        ops.push(Op::ReleaseAll { resp: Resp::Ok });
    } else {
        ops.push(Op::ReleaseAll { resp: Resp::Ok });
        ops.push(Op::DropMgr);
    }
    if s.ops.len() % 2 == 0 {
        ops.push(Op::Sync);
    }
    // after the drop: every handle the harness still holds reports the exit error
    for key in 0..NKEYS {
        ops.push(Op::Spawn { kind: Kind::HandleOld, key, n: 1 });
        ops.push(Op::Spawn { kind: Kind::Handle, key, n: 1 });
    }
    ops.push(Op::Sync);
    let mut k = 0;
    while k < ops.len() {
        let op = ops[k].clone();
        k += 1;
        match op {
            Op::Spawn { kind, key, n } => {
                if kind == Kind::Handle || kind == Kind::HandleOld {
                    // callers on a bare handle: possible also after the manager was dropped
                    if let Some((h, i)) = real.pick_handle(kind, key) {
                        for _ in 0..n {
                            model.spawn_handle(i);
                            real.spawn_handle(kind, key, h.clone());
                        }
                        out.handle_callers += n;
                    }
                    continue;
                }
                if real.mgr.is_none() {
                    continue;
                }
                for _ in 0..n {
                    model.spawn(kind, key);
                    real.spawn(kind, key);
                }
            }
            Op::Release { key, resp } => {
                let id = next_id;
                next_id += 1;
                // refetch schedules: a stale worker that keeps refetching and its successor may both have a lookup
                // pending, and which of them started first is not observable: complete all of them alike
                let n = if s.refetch_ms > 0 { real.gate.pending()[key].max(1) } else { 1 };
                for _ in 0..n {
                    real.gate.release(key, resp, id);
                    model.release(key, resp, id);
                }
            }
            Op::Stop { key } => {
                if real.mgr.is_some() {
                    real.mark_stopped(Some(key)).await;
                }
                if let Some(m) = real.mgr.as_ref() {
                    let (a, b) = key_pair(key);
                    m.stop_managing_paths(a, b);
                    model.act(&format!("m stop {key}"));
                    real.removal_possible[key] = true;
                }
            }
            Op::DropMgr => {
                if real.mgr.is_some() {
                    real.mark_stopped(None).await;
                }
                if real.mgr.take().is_some() {
                    model.act("m drop");
                    for r in real.removal_possible.iter_mut() {
                        *r = true;
                    }
                }
            }
            Op::IdleWait => {
                if s.idle_ms == 0 {
                    continue;
                }
                // quiesce first, then let two idle periods pass without touching anything
                sync_point(&mut real, &mut model, &mut out, base_tasks).await;
                tokio::time::sleep(Duration::from_millis(s.idle_ms * 2 + s.idle_ms / 2 + 10)).await;
                for r in real.removal_possible.iter_mut() {
                    *r = true;
                }
                for i in 0..model.workers.len() + 2 {
                    model.timer_due.insert((i, 1));
                }
                sync_point(&mut real, &mut model, &mut out, base_tasks).await;
            }
            Op::RefetchWait => {
                if s.refetch_ms == 0 {
                    continue;
                }
                sync_point(&mut real, &mut model, &mut out, base_tasks).await;
                tokio::time::sleep(Duration::from_millis(s.refetch_ms + 25)).await;
                sync_point(&mut real, &mut model, &mut out, base_tasks).await;
            }
            Op::ReleaseAll { resp } => {
                // finish every pending lookup (repeat: finishing one may let a successor start)
                for _ in 0..8 {
                    let pend = real.gate.pending();
                    if pend.iter().all(|p| *p == 0) {
                        break;
                    }
                    for (key, p) in pend.iter().enumerate() {
                        // one path id per pair and round: which of two pending lookups of the same pair (a stale
                        // worker refetching + its successor) started first is not observable
                        let id = next_id;
                        next_id += 1;
                        for _ in 0..*p {
                            real.gate.release(key, resp, id);
                            model.release(key, resp, id);
                        }
                    }
                    sync_point(&mut real, &mut model, &mut out, base_tasks).await;
                }
            }
            Op::Sync => {
                sync_point(&mut real, &mut model, &mut out, base_tasks).await;
            }
            Op::Traffic { key, n } => {
                // not in schedules with timers (the calls are placed in the model one by one, at quiescence)
                if real.mgr.is_none() || n == 0 || s.idle_ms > 0 || s.refetch_ms > 0 {
                    continue;
                }
                sync_point(&mut real, &mut model, &mut out, base_tasks).await;
                // the first call may start a worker for the pair: let it settle
                real.inline_cached(key);
                model.spawn(Kind::Cached, key);
                out.traffic += 1;
                sync_point(&mut real, &mut model, &mut out, base_tasks).await;
                for _ in 1..n {
                    let r = real.inline_cached(key);
                    out.traffic += 1;
                    tokio::task::yield_now().await;
                    model.spawn(Kind::Cached, key);
                    // place it in the model right away if it returns the same there; otherwise the witness search
                    // of the next synchronisation point places it
                    if model.enabled() {
                        let j = model.n_waiters - 1;
                        model.ask("save");
                        let (_, got) = model.run_waiter(j);
                        if got.as_deref() == Some(r.as_str()) {
                            model.ask("forget");
                        } else {
                            model.done[j] = false;
                            model.res[j] = None;
                            model.ask("restore");
                        }
                    }
                }
                sync_point(&mut real, &mut model, &mut out, base_tasks).await;
            }
        }
        if out.disagree.is_some() && model.lean.enabled {
            // the model no longer describes what the code does.  The rest of the schedule is still run against the
            // real code – the spec oracle does not depend on the model – without any further comparison
            if let Some(r) = model.refused.take() {
                let _ = r;
            }
            model.lean.enabled = false;
        }
    }
    // final spec check (whether or not the model still agrees): after the drop everything must be gone
    {
        let o = real.quiesce(true).await;
        let pending_lookups: usize = real.gate.pending().iter().sum();
        if real.mgr.is_none() && pending_lookups == 0 && o.finished.iter().all(|f| *f) {
            if !o.dropped {
                out.spec.push(("C20:worker-not-stopped".into(), "manager value (fetcher) not dropped after the user dropped the manager and all callers returned".into()));
            } else if o.alive_tasks > base_tasks {
                out.spec.push(("C20:worker-not-stopped".into(), format!("{} tokio task(s) still alive after the manager was dropped and all lookups finished", o.alive_tasks - base_tasks)));
            }
            // every handle reports an error instead of a path
            for (k, h, i) in &real.handles {
                let st = handle_state(&real.gate, *k, h);
                let ok = st.starts_with("init=1 ongoing=0 err=exited:") && st.ends_with("active=-") && !st.contains('?');
                if !ok {
                    out.spec.push(("C20:path-after-drop".into(), format!("handle of worker {i} (pair {k}) after the manager was dropped and every task ended: {st}")));
                }
                out.handles_after_drop += 1;
            }
        }
    }
    real.collect().await;
    out.waiters = real.waiters.len();
    for w in &real.waiters {
        if let Some(r) = &w.result {
            out.finished += 1;
            let class = if r.starts_with("path:") { "path".to_string() } else { r.clone() };
            *out.results.entry(class).or_insert(0) += 1;
            if r.starts_with("panic") {
                out.spec.push(("C20:panic".into(), format!("caller task panicked: {r}")));
            } else if r.contains('?') {
                out.spec.push(("C20:bad-result".into(), format!("caller on pair {} returned {r}", w.key)));
            }
        }
    }
    out.fetches = real.gate.starts().iter().sum();
    out.workers = model.workers.len();
    out.model_actions = model.actions;
    out.counts = model.counts.clone();
    if out.disagree.is_none() {
        if let Some(r) = model.refused.take() {
            out.disagree = Some(("model refused an action of the witness schedule".into(), "enabled in the implementation".into(), r));
        }
    }
    out.trace_tail = model.log.iter().rev().take(60).rev().cloned().collect();
    model.lean.enabled = model_was_enabled;
    // abort whatever is still there (a failed schedule may leave pending callers)
    for w in &real.waiters {
        if let Some(h) = &w.handle {
            h.abort();
        }
    }
    out
}

struct Saved {
    inflight: Vec<VecDeque<usize>>,
    prearmed: Vec<VecDeque<(Resp, u32)>>,
    assigned: HashMap<usize, VecDeque<(Resp, u32)>>,
    ever_near: Vec<bool>,
    done: Vec<bool>,
    nworkers: usize,
    resp: Vec<Option<(Resp, u32)>>,
    timer_due: HashSet<(usize, u8)>,
    actions: u64,
}

fn compare(
    model: &mut Model<'_>,
    real_o: &Obs,
    results: &[Option<String>],
    hstates: &[(usize, String)],
    managed: &[(usize, bool, Option<usize>)],
) -> Option<(String, String, String)> {
    if !model.enabled() {
        return None;
    }
    if let Some(r) = model.refused.clone() {
        return Some(("model refused an action of the witness schedule".into(), "enabled in the implementation".into(), r));
    }
    let (mo, mres) = model.observe();
    if real_o.finished != mo.finished {
        let j = (0..real_o.finished.len().max(mo.finished.len()))
            .find(|j| real_o.finished.get(*j) != mo.finished.get(*j))
            .unwrap_or(0);
        return Some((
            format!("caller {j} finished?"),
            format!("{:?} result {:?}", real_o.finished.get(j), results.get(j).cloned().flatten()),
            format!("{:?} result {:?}", mo.finished.get(j), mres.get(j).cloned().flatten()),
        ));
    }
    if let Some(j) = (0..results.len()).find(|j| results[*j] != mres[*j]) {
        return Some((format!("result of caller {j}"), format!("{:?}", results[j]), format!("{:?}", mres[j])));
    }
    if real_o.starts != mo.starts {
        return Some(("fetcher invocations per pair".into(), format!("{:?}", real_o.starts), format!("{:?}", mo.starts)));
    }
    if real_o.dropped != mo.dropped {
        return Some(("manager value dropped".into(), format!("{}", real_o.dropped), format!("{}", mo.dropped)));
    }
    if real_o.alive_tasks != mo.alive_tasks {
        return Some(("live tasks (callers + workers)".into(), format!("{}", real_o.alive_tasks), format!("{}", mo.alive_tasks)));
    }
    // handshake state of every path set the harness holds a handle of (verif-hooks)
    for (i, st) in hstates {
        let q = model.ask(&format!("q w {i}"));
        let m = format!("init={} ongoing={} err={} active={}", field(&q, "init"), field(&q, "ongoing"), field(&q, "err"), field(&q, "active"));
        if *st != m {
            return Some((format!("handshake state of worker {i}"), st.clone(), m));
        }
    }
    // the manager's index
    for (key, is_managed, known) in managed {
        let q = model.ask(&format!("q k {key}"));
        let e = field(&q, "entry").to_string();
        if *is_managed != (e != "-") {
            return Some((format!("pair {key} managed?"), format!("{is_managed}"), format!("entry={e}")));
        }
        if let Some(i) = known {
            if e != i.to_string() {
                return Some((format!("worker registered for pair {key}"), format!("{i}"), format!("entry={e}")));
            }
        }
    }
    None
}

/// wait for quiescence, build the witness, compare; on mismatch wait longer and rebuild (the real system
/// may simply not have been done yet) until the deadline
async fn sync_point(real: &mut Real, model: &mut Model<'_>, out: &mut Outcome, base_tasks: usize) {
    out.syncs += 1;
    let deadline = Instant::now() + Duration::from_millis(if real.threads == 0 { 1500 } else { 4000 });
    let mut o = real.quiesce(false).await;
    if model.enabled() {
        model.ask("save");
    }
    let saved = Saved {
        inflight: model.inflight.clone(),
        prearmed: model.prearmed.clone(),
        assigned: model.assigned.clone(),
        ever_near: model.workers.iter().map(|w| w.ever_near).collect(),
        done: model.done.clone(),
        nworkers: model.workers.len(),
        resp: model.workers.iter().map(|w| w.resp).collect(),
        timer_due: model.timer_due.clone(),
        actions: model.actions,
    };
    let mut attempt = 0;
    'outer: loop {
        let results: Vec<Option<String>> = real.waiters.iter().map(|w| w.result.clone()).collect();
        let real_o = Obs { alive_tasks: o.alive_tasks.saturating_sub(base_tasks), ..o.clone() };
        let hstates: Vec<(usize, String)> = real.handles.iter().map(|(k, h, i)| (*i, handle_state(&real.gate, *k, h))).collect();
        for (i, st) in &hstates {
            if let Some(r) = field(st, "err").strip_prefix("exited:") {
                model.exit_hint.insert(*i, r.to_string());
            }
        }
        let cur: Vec<Option<VerifHandle>> = match real.mgr.as_ref() {
            Some(m) => (0..NKEYS).map(|k| { let (a, b) = key_pair(k); m.verif_handle(a, b) }).collect(),
            None => vec![],
        };
        let managed: Vec<(usize, bool, Option<usize>)> = cur
            .iter()
            .enumerate()
            .map(|(k, h)| (k, h.is_some(), h.as_ref().and_then(|h| real.handles.iter().find(|(_, hh, _)| hh.same(h)).map(|(_, _, i)| *i))))
            .collect();
        // candidate sets of removed-but-not-yet-dropped map entries whose `PathSetTask` the collector of
        // scc::HashIndex has dropped by now (cancel token fired): not observable directly, so try them
        // … and, in schedules with a short idle period, workers whose idle timer fired earlier than the harness
        // assumed (`I`): also not observable directly.  Candidate = (worker, is_idle_exit)
        let mut cands: Vec<(usize, u8)> = model.garbage().into_iter().map(|i| (i, 0u8)).collect();
        let fresh: Vec<usize> = (model.workers.len()..model.workers.len() + 2).collect();
        if real.idle_ms > 0 {
            // a removed worker idling out *after* the callers of this window ran evicts their new worker's entry
            for i in model.garbage() {
                cands.push((i, 4));
            }
            for i in model.loop_workers().into_iter().chain(fresh.iter().copied()) {
                cands.push((i, 1));
            }
        }
        // … and workers whose refetch timer fired (only after a lookup that returned near-expiry paths)
        if real.refetch_ms > 0 {
            for i in model.loop_workers().into_iter().chain(fresh.iter().copied()) {
                cands.push((i, 2));
                if let Some(w) = model.workers.get(i) {
                    if !model.prearmed[w.key].is_empty() {
                        cands.push((i, 3));
                    }
                }
            }
        }
        let mut subsets: Vec<Vec<(usize, u8)>> = vec![vec![]];
        if cands.len() <= 6 {
            // all subsets, small ones first
            let mut all: Vec<Vec<(usize, u8)>> = (1u32..(1 << cands.len()))
                .map(|m| (0..cands.len()).filter(|b| m & (1 << b) != 0).map(|b| cands[b]).collect())
                .collect();
            all.sort_by_key(|v: &Vec<(usize, u8)>| v.len());
            subsets.extend(all);
        } else {
            for c in &cands {
                subsets.push(vec![*c]);
            }
            subsets.push(cands.clone());
            for kind in 0..3u8 {
                let v: Vec<(usize, u8)> = cands.iter().copied().filter(|c| c.1 == kind).collect();
                if !v.is_empty() && v.len() < cands.len() {
                    subsets.push(v);
                }
            }
            for a in 0..cands.len() {
                for b in a + 1..cands.len() {
                    subsets.push(vec![cands[a], cands[b]]);
                }
            }
        }
        let mut first_mm = None;
        for (si, sub) in subsets.iter().enumerate() {
            if si > 0 {
                model.rewind(&saved);
            }
            for (i, what) in sub {
                match *what {
                    1 | 2 | 3 | 4 => {
                        model.timer_due.insert((*i, *what));
                    }
                    _ => {
                        model.act(&format!("m reclaim {i}"));
                    }
                }
            }
            model.settle(&results);
            let mm = compare(model, &real_o, &results, &hstates, &managed);
            match mm {
                None => {
                    if model.enabled() {
                        model.ask("forget");
                    }
                    out.reclaims += sub.iter().filter(|(_, w)| *w == 0).count();
                    out.handle_states += hstates.len();
                    // remember the handles of newly managed pairs (their worker index comes from the model)
                    for (k, h) in cur.iter().enumerate() {
                        if let Some(h) = h {
                            if !real.handles.iter().any(|(_, hh, _)| hh.same(h)) {
                                if model.enabled() {
                                    let q = model.ask(&format!("q k {k}"));
                                    if let Ok(i) = field(&q, "entry").parse::<usize>() {
                                        real.handles.push((k, h.clone(), i));
                                    }
                                } else if out.disagree.is_some() {
                                    // model switched off after a disagreement: the handle is still kept for the
                                    // spec oracle (handles after the drop)
                                    real.handles.push((k, h.clone(), usize::MAX >> 1));
                                }
                            }
                        }
                    }
                    break 'outer;
                }
                Some(mm) => {
                    if std::env::var("HX_SCHED_DEBUG").is_ok() {
                        eprintln!("[sync {} attempt {attempt}] candidates {:?}: {} impl={} model={}", out.syncs, sub, mm.0, mm.1, mm.2);
                    }
                    if Instant::now() > deadline {
                        out.cand_mm.push(format!("candidates {:?}: {} impl={} model={}", sub, mm.0, mm.1, mm.2));
                    }
                    if first_mm.is_none() {
                        first_mm = Some(mm);
                    }
                }
            }
        }
        if Instant::now() > deadline {
            if std::env::var("HX_SCHED_DEBUG").is_ok() {
                eprintln!("=== DISAGREEMENT at sync {}: real obs {:?}\n    results {:?}\n    hstates {:?}\n    gate pending {:?} armed {:?}", out.syncs, real_o, results, hstates, real.gate.pending(), real.gate.armed());
                for l in &model.log {
                    eprintln!("    {l}");
                }
            }
            out.disagree = first_mm;
            if model.enabled() {
                model.ask("forget");
                // from here on only the spec oracle (see `run_sched_async`)
                model.refused = None;
                model.lean.enabled = false;
            }
            break;
        }
        // the real system may simply not have been done yet: wait, observe again, rebuild
        attempt += 1;
        out.retries += 1;
        model.rewind(&saved);
        tokio::time::sleep(Duration::from_millis(if attempt < 5 { 2 } else { 20 })).await;
        o = real.quiesce(true).await;
    }
    // ---- spec oracle on the real observation (independent of the model) ----
    let pending = real.gate.pending();
    let armed = real.gate.armed();
    let _ = armed;
    // (1) a caller of path() may stay pending only while a lookup of its pair is pending
    let mut stuck: Vec<usize> = (0..real.waiters.len())
        .filter(|j| real.waiters[*j].result.is_none() && pending[real.waiters[*j].key] == 0)
        .collect();
    if out.spec.iter().any(|(k, _)| k.starts_with("C20:waiter-not-released")) {
        // already reported in this run (the callers stay stuck): do not wait for them again
        stuck.clear();
    }
    if !stuck.is_empty() {
        // be sure: give it until the deadline
        while Instant::now() < deadline && !stuck.is_empty() {
            tokio::time::sleep(Duration::from_millis(10)).await;
            real.collect().await;
            let pending = real.gate.pending();
            stuck.retain(|j| real.waiters[*j].result.is_none() && pending[real.waiters[*j].key] == 0);
        }
        if let Some(j) = stuck.iter().find(|j| real.waiters[**j].stopped == Some("stop")).or(stuck.iter().find(|j| real.waiters[**j].stopped.is_some())).or(stuck.first()) {
            let w = &real.waiters[*j];
            if let Some(op) = w.stopped {
                // "… released as soon as the pending lookup for that pair finishes, however the waiter's arrival
                // interleaves with … a cancellation or the manager being dropped"
                out.spec.push((
                    format!("C20:waiter-not-released:after-{op}"),
                    format!(
                        "caller {j} ({:?}) of pair {} was waiting for the lookup in flight when {} was called; the lookup has been answered since ({} started, {} finished, none pending) and the caller has still not returned, neither with a path nor with an error, {} ms after this synchronisation point began",
                        w.kind,
                        w.key,
                        if op == "stop" { "stop_managing_paths(src, dst)" } else { "the drop of the user's manager" },
                        real.gate.starts()[w.key],
                        real.gate.ends()[w.key],
                        if real.threads == 0 { 1500 } else { 4000 },
                    ),
                ));
            } else {
                out.spec.push((
                    "C20:waiter-not-released".into(),
                    format!("caller {j} ({:?}) of pair {} is still pending although no lookup of that pair is pending", w.kind, w.key),
                ));
            }
        }
    }
    // (2) one worker per pair: before any removal of the pair, at most one fetcher invocation
    // (with a short idle period a pair that nobody used is removed at the first idle check)
    if real.idle_ms > 0 && real.t0.elapsed() > Duration::from_millis(real.idle_ms * 3 / 4) {
        for r in real.removal_possible.iter_mut() {
            *r = true;
        }
    }
    let starts = real.gate.starts();
    for key in 0..NKEYS {
        if !real.removal_possible[key] && starts[key] > 1 && real.refetch_ms == 0 {
            out.spec.push(("C20:two-workers".into(), format!("{} fetcher invocations for pair {key} although it was never removed", starts[key])));
        }
        let any_caller = real.waiters.iter().any(|w| w.key == key);
        if any_caller && starts[key] == 0 && real.mgr.is_some() {
            out.spec.push(("C20:two-workers".into(), format!("no worker was started for requested pair {key}")));
        }
    }
    out.registered += 0;
}

// ---------------------------------------------------------------------------------------------------------
// controlled schedules: the harness is the scheduler (verif-hooks yield points at lock-region granularity)
// ---------------------------------------------------------------------------------------------------------
//
// Every task of the real system parks at every yield point of the code (`verif_sched::yield_point`: between two
// lock-protected regions / lock-free loads or stores of manager.rs and pathset.rs) and at the mock fetcher; the
// harness releases exactly ONE parked task at a time on a current-thread runtime and waits until it has parked
// again, finished, or blocked in tokio (a `Notified`, the worker's `select!`).  The sequence of model actions
// is therefore *observed*, not constructed: the region executed between the site a task was released from and
// the site it arrives at next IS one model action (table in `on_worker_arrival` / `on_caller_arrival`).  Every
// such action must be enabled in the Lean model, and after every step the model state is compared with the
// real one (handshake state, active slot and idle flag of every path set, manager index, worker count,
// fetcher invocations, manager dropped, caller results).  Nothing is forgiven as "transient" here.

tokio::task_local! {
    static CALLER_ID: usize;
}

enum Park {
    Go(tokio::sync::oneshot::Sender<()>),
    Fetch(tokio::sync::oneshot::Sender<(Resp, u32)>),
    Note,
}

struct Ev {
    caller: Option<usize>,
    set: Option<VerifHandle>,
    key: Option<usize>,
    site: &'static str,
    reason: Option<&'static str>,
    park: Park,
}

#[derive(Default)]
struct Ctl {
    q: Mutex<VecDeque<Ev>>,
}

fn install_ctl(ctl: Arc<Ctl>) {
    set_yield_controller(Some(Arc::new(move |ctx: YieldCtx| -> Option<YieldFuture> {
        let caller = CALLER_ID.try_with(|c| *c).ok();
        let key = ctx.pair.and_then(|p| (0..NKEYS).find(|k| key_pair(*k) == p));
        let note = matches!(ctx.site, "w:done" | "e:spawn");
        if note {
            ctl.q.lock().unwrap().push_back(Ev { caller, set: ctx.handle, key, site: ctx.site, reason: ctx.reason, park: Park::Note });
            None
        } else {
            let (tx, rx) = tokio::sync::oneshot::channel();
            ctl.q.lock().unwrap().push_back(Ev { caller, set: ctx.handle, key, site: ctx.site, reason: ctx.reason, park: Park::Go(tx) });
            Some(Box::pin(async move {
                let _ = rx.await;
            }))
        }
    })));
}

/// free-running schedules: every yield point re-schedules the task 0..3 times
fn install_perturb(seed: u64) {
    let st = Arc::new(std::sync::atomic::AtomicU64::new(seed));
    set_yield_controller(Some(Arc::new(move |_ctx: YieldCtx| -> Option<YieldFuture> {
        let x = st.fetch_add(0x9E37_79B9_7F4A_7C15, Ordering::Relaxed);
        let mut z = x;
        z = (z ^ (z >> 30)).wrapping_mul(0xBF58_476D_1CE4_E5B9);
        z = (z ^ (z >> 27)).wrapping_mul(0x94D0_49BB_1331_11EB);
        let n = (z >> 33) % 4;
        if n == 0 {
            return None;
        }
        Some(Box::pin(async move {
            for _ in 0..n {
                tokio::task::yield_now().await;
            }
        }))
    })));
}

struct CCaller {
    kind: Kind,
    key: usize,
    probe: Arc<ProbeState>,
    join: tokio::task::JoinHandle<String>,
    result: Option<String>,
    site: &'static str,
    arrivals: usize,
    parked: Option<tokio::sync::oneshot::Sender<()>>,
    /// model program counter after its last model step
    mpc: String,
    /// the model has executed its finishing step
    mdone: bool,
    /// `stop_managing_paths` of its pair ("stop") / the drop of the user's manager ("drop") was called while this
    /// caller was waiting (the first of them)
    stopped: Option<&'static str>,
}

struct CWorker {
    h: VerifHandle,
    key: usize,
    site: &'static str,
    parked: Option<Park>,
    reason: Option<&'static str>,
    done: bool,
    /// response chosen for its pending lookup
    resp: Option<(Resp, u32)>,
    /// active slot as of its last arrival
    last_active: String,
}

fn caller_site_pc(site: &str) -> &'static str {
    match site {
        "c:before-peek" => "peek",
        "c:before-ensure" => "ensure",
        "h:before-load" => "loadActive",
        "h:before-lock-check" => "lockCheck",
        "h:registered" => "waiting",
        "h:before-reload" => "reload",
        "c:before-read-err" => "readErr",
        _ => "?",
    }
}

fn reason_class(r: &str) -> &'static str {
    match r {
        "idle" => "idle",
        "cancelled" => "cancelled",
        "manager dropped" => "mgrGone",
        _ => "?",
    }
}

struct CRun<'a> {
    gate: Arc<GateShared>,
    ctl: Arc<Ctl>,
    mgr: Option<MultiPathManager<GFetcher>>,
    callers: Vec<CCaller>,
    workers: Vec<CWorker>,
    model: Model<'a>,
    fail: Option<(String, String, String)>,
    spec: Vec<(String, String)>,
    steps: Vec<String>,
    next_id: u32,
    spawns: Vec<usize>,
    removals: Vec<usize>,
    timers: bool,
    refetch: bool,
    sites: HashMap<String, u64>,
    compared: u64,
    traffic: usize,
}

impl<'a> CRun<'a> {
    fn disagree(&mut self, what: String, im: String, mo: String) {
        if self.fail.is_none() {
            self.fail = Some((what, im, mo));
        }
    }

    /// model action that must be enabled
    fn mact(&mut self, req: &str) {
        if !self.model.act(req) {
            let r = self.model.refused.clone().unwrap_or_default();
            self.disagree("model refused an action the implementation performed".into(), req.to_string(), r);
        }
    }

    fn wq(&mut self, i: usize) -> String {
        self.model.ask(&format!("q w {i}"))
    }

    fn active_of(&self, i: usize) -> String {
        let w = &self.workers[i];
        match w.h.sync_state().active {
            Some(p) => classify_path(&self.gate, w.key, &p).trim_start_matches("path:").to_string(),
            None => "-".into(),
        }
    }

    /// the lock-free store (if any) the worker made into the active slot since its last arrival
    fn store_since(&mut self, i: usize) -> String {
        let now = self.active_of(i);
        let before = std::mem::replace(&mut self.workers[i].last_active, now.clone());
        if now == before {
            "keep".into()
        } else if now == "-" {
            "clear".into()
        } else {
            format!("set:{now}")
        }
    }

    fn expect_wpc(&mut self, i: usize, want: &str) {
        if !self.model.enabled() {
            return;
        }
        let q = self.wq(i);
        let pc = field(&q, "pc").to_string();
        let ok = if want.ends_with(':') { pc.starts_with(want) } else { pc == want };
        if !ok {
            let site = self.workers[i].site;
            self.disagree(format!("program point of worker {i}"), format!("at yield point {site} (= {want})"), format!("pc={pc}"));
        }
    }

    /// worker `i` (released from `prev`) has arrived at `site`: the region in between is one model action
    fn on_worker_arrival(&mut self, i: usize, site: &'static str, reason: Option<&'static str>, park: Park) {
        let prev = self.workers[i].site;
        *self.sites.entry(format!("{prev} -> {site}")).or_insert(0) += 1;
        self.workers[i].site = site;
        self.workers[i].parked = match park {
            Park::Note => None,
            p => Some(p),
        };
        if let Some(r) = reason {
            self.workers[i].reason = Some(r);
        }
        let rc = reason.map(reason_class).unwrap_or("?");
        match (prev, site) {
            ("(spawned)", "w:start") => {
                self.workers[i].last_active = self.active_of(i);
                self.expect_wpc(i, "start");
            }
            ("w:start", "w:before-set-ongoing") => {
                self.mact(&format!("w {i} upgradeStart"));
                self.expect_wpc(i, "setOngoing");
            }
            ("w:start", "w:exit") | ("w:tick", "w:exit") | ("w:issue", "w:exit") if rc == "mgrGone" => {
                self.mact(&format!("w {i} mgrGone"));
                self.expect_wpc(i, "exitRemove:mgrGone");
            }
            ("w:before-set-ongoing", "f:start") => {
                self.mact(&format!("w {i} setOngoing"));
                self.expect_wpc(i, "fetching");
            }
            ("f:start", "w:before-set-err") => {
                let r = match self.workers[i].resp.map(|r| r.0) {
                    Some(Resp::Ok) | Some(Resp::Near) => "ok",
                    Some(Resp::Empty) => "empty",
                    _ => "err",
                };
                self.mact(&format!("w {i} fetchDone {r}"));
                let a = self.store_since(i);
                self.mact(&format!("w {i} cacheStore {a}"));
                self.expect_wpc(i, "setErr:");
            }
            ("w:before-set-err", "w:before-publish") => {
                self.mact(&format!("w {i} setErr"));
                self.expect_wpc(i, "publish");
            }
            ("w:before-publish", "w:before-clear") => {
                let a = self.store_since(i);
                self.mact(&format!("w {i} publishActive {a}"));
                self.expect_wpc(i, "clear");
            }
            ("w:before-clear", "w:after-clear") => {
                self.mact(&format!("w {i} clearAndNotify"));
                self.expect_wpc(i, "release");
            }
            ("w:after-clear", "w:loop") => {
                self.mact(&format!("w {i} releaseMgr"));
                self.expect_wpc(i, "loop");
            }
            ("w:loop", "w:tick") | ("w:loop", "w:issue") => {
                // a timer fired / the issue channel woke the worker: it is still at its `select!`
                self.expect_wpc(i, "loop");
            }
            ("w:loop", "w:cancelled") => {
                // its cancel token has fired: either the manager value is gone (the model knows) or the collector
                // of scc::HashIndex has dropped its removed entry (`reclaim`, enabled only if it is not registered)
                let q = self.wq(i);
                if self.model.enabled() && field(&q, "cancelled") != "1" {
                    self.mact(&format!("m reclaim {i}"));
                }
                self.expect_wpc(i, "loop");
            }
            ("w:cancelled", "w:exit") if rc == "cancelled" => {
                self.mact(&format!("w {i} cancelSeen"));
                self.expect_wpc(i, "exitRemove:cancelled");
            }
            ("w:tick", _) if site == "w:loop" || site == "w:before-set-ongoing" || (site == "w:exit" && rc == "idle") => {
                // `maintain`: idle check (exit | reset of the usage flag | nothing), then a refetch if one is due
                let q = self.wq(i);
                let m_used = field(&q, "used") == "1";
                let r_used = self.workers[i].h.used_flag();
                let mut any = false;
                if self.model.enabled() && m_used && !r_used {
                    self.mact(&format!("w {i} tickNothing 1"));
                    any = true;
                }
                match site {
                    "w:exit" => {
                        self.mact(&format!("w {i} tickIdle"));
                        self.expect_wpc(i, "exitRemove:idle");
                    }
                    "w:before-set-ongoing" => {
                        self.mact(&format!("w {i} tickRefetch"));
                        self.expect_wpc(i, "setOngoing");
                    }
                    _ => {
                        if !any {
                            self.mact(&format!("w {i} tickNothing 0"));
                        }
                        self.expect_wpc(i, "loop");
                    }
                }
            }
            ("w:issue", "w:loop") => {
                let a = self.store_since(i);
                self.mact(&format!("w {i} issueRx {a}"));
                self.expect_wpc(i, "loop");
            }
            ("w:exit", "w:before-exit-notify") => {
                self.mact(&format!("w {i} exitRemove"));
                self.removals[self.workers[i].key] += 1;
                self.expect_wpc(i, "exitNotify:");
            }
            ("w:before-exit-notify", "w:done") => {
                self.mact(&format!("w {i} exitNotify"));
                self.mact(&format!("w {i} storeNone"));
                self.workers[i].done = true;
                self.workers[i].last_active = "-".into();
                self.expect_wpc(i, "done");
            }
            _ => {
                self.disagree(
                    format!("control flow of worker {i}"),
                    format!("went from yield point {prev} to {site} (exit reason {:?})", reason),
                    "no model action covers this region".into(),
                );
            }
        }
        if site == "w:exit" && self.model.enabled() {
            let q = self.wq(i);
            let want = format!("exitRemove:{rc}");
            if field(&q, "pc") != want {
                self.disagree(format!("exit reason of worker {i}"), format!("{:?}", reason), format!("pc={}", field(&q, "pc")));
            }
        }
    }

    /// one model step of caller `j` (its program is sequential); returns the new model pc
    fn caller_model_step(&mut self, j: usize) {
        if !self.model.enabled() {
            return;
        }
        let r = self.model.ask(&format!("t {j} next"));
        if r.starts_with("ok") {
            self.model.actions += 1;
            *self.model.counts.entry(format!("caller {}", r.trim_start_matches("ok "))).or_insert(0) += 1;
        } else {
            let site = self.callers[j].site;
            self.disagree(format!("caller {j} made a step"), format!("arrived at / returned after yield point {site}"), format!("model: {r}"));
        }
        let q = self.model.ask(&format!("q t {j}"));
        self.callers[j].mpc = field(&q, "pc").to_string();
    }

    fn on_caller_arrival(&mut self, j: usize, site: &'static str, set: Option<VerifHandle>, tx: tokio::sync::oneshot::Sender<()>) {
        let prev = self.callers[j].site;
        *self.sites.entry(format!("{prev} -> {site}")).or_insert(0) += 1;
        self.callers[j].site = site;
        self.callers[j].parked = Some(tx);
        self.callers[j].arrivals += 1;
        if self.callers[j].arrivals > 1 {
            self.caller_model_step(j);
        } else if self.model.enabled() {
            let q = self.model.ask(&format!("q t {j}"));
            self.callers[j].mpc = field(&q, "pc").to_string();
        }
        if !self.model.enabled() {
            return;
        }
        let want = caller_site_pc(site);
        let mpc = self.callers[j].mpc.clone();
        if mpc.split(':').next() != Some(want) {
            self.disagree(format!("program point of caller {j}"), format!("at yield point {site} (= {want})"), format!("pc={mpc}"));
        }
        // the handle it works on
        if let Some(h) = set {
            let q = self.model.ask(&format!("q t {j}"));
            let mh = field(&q, "h").parse::<usize>().ok();
            let rh = self.workers.iter().position(|w| w.h.same(&h));
            if mh != rh {
                self.disagree(format!("path set caller {j} works on"), format!("worker {:?}", rh), format!("worker {:?}", mh));
            }
        }
    }

    async fn drain_events(&mut self) -> usize {
        let mut n = 0;
        loop {
            let ev = self.ctl.q.lock().unwrap().pop_front();
            let Some(ev) = ev else { break };
            n += 1;
            // a caller that has returned did so before anything that is still in the queue (it was the task that
            // ran; what follows are tasks it woke up, e.g. the worker it spawned or workers its drop cancelled)
            if !matches!(ev.park, Park::Note) {
                self.collect().await;
                self.finish_callers();
            }
            match ev.site {
                "e:spawn" => {
                    let h = ev.set.expect("spawn note carries the path set");
                    let key = ev.key.unwrap_or(0);
                    self.spawns[key] += 1;
                    self.workers.push(CWorker { h, key, site: "(spawned)", parked: None, reason: None, done: false, resp: None, last_active: "-".into() });
                }
                "f:start" => {
                    let key = ev.key.unwrap_or(0);
                    let i = self.workers.iter().position(|w| w.key == key && w.site == "w:before-set-ongoing" && w.parked.is_none());
                    match i {
                        Some(i) => self.on_worker_arrival(i, "f:start", None, ev.park),
                        None => self.disagree("lookup started".into(), format!("fetch_paths for pair {key} by a task that is not a worker past w:before-set-ongoing"), "-".into()),
                    }
                }
                s if s.starts_with("w:") => {
                    let h = ev.set.expect("worker yield point carries the path set");
                    match self.workers.iter().position(|w| w.h.same(&h)) {
                        Some(i) => self.on_worker_arrival(i, s, ev.reason, ev.park),
                        None => self.disagree("worker task".into(), format!("yield point {s} of a path set that was never spawned through manage()"), "-".into()),
                    }
                }
                s => match (ev.caller, ev.park) {
                    (Some(j), Park::Go(tx)) if j < self.callers.len() => self.on_caller_arrival(j, s, ev.set, tx),
                    _ => self.disagree("caller task".into(), format!("yield point {s} outside a caller task of the harness"), "-".into()),
                },
            }
        }
        n
    }

    async fn collect(&mut self) -> usize {
        let mut n = 0;
        for j in 0..self.callers.len() {
            if self.callers[j].result.is_none() && self.callers[j].join.is_finished() {
                let r = match (&mut self.callers[j].join).await {
                    Ok(s) => s,
                    Err(e) => format!("panic:{e}"),
                };
                self.callers[j].result = Some(r);
                n += 1;
            }
        }
        n
    }

    /// the model side of a caller that has returned
    fn finish_callers(&mut self) {
        for j in 0..self.callers.len() {
            if self.callers[j].mdone || self.callers[j].result.is_none() {
                continue;
            }
            self.callers[j].mdone = true;
            if !self.model.enabled() {
                continue;
            }
            // `cached_path` is synchronous: its (up to three) regions ran in one poll
            let max = if self.callers[j].kind == Kind::Cached { 3 } else { 1 };
            for _ in 0..max {
                self.caller_model_step(j);
                if self.callers[j].mpc == "done" || self.fail.is_some() {
                    break;
                }
            }
            let q = self.model.ask(&format!("q t {j}"));
            let want = self.callers[j].result.clone().unwrap_or_default();
            if field(&q, "pc") != "done" || field(&q, "res") != want {
                self.disagree(format!("result of caller {j}"), want, format!("pc={} res={}", field(&q, "pc"), field(&q, "res")));
            }
        }
    }

    /// let the released task run until it has parked again, finished, or blocked
    async fn settle(&mut self) {
        let mut quiet = 0;
        for _ in 0..400 {
            for _ in 0..4 {
                tokio::task::yield_now().await;
            }
            let n = self.drain_events().await;
            let f = self.collect().await;
            let busy = self.callers.iter().any(|c| c.result.is_none() && !c.probe.settled());
            if n == 0 && f == 0 && !busy {
                quiet += 1;
                if quiet >= 2 {
                    break;
                }
            } else {
                quiet = 0;
            }
        }
        self.finish_callers();
    }

    /// callers that wait for a notification the model says has been sent
    fn overdue(&mut self) -> Vec<usize> {
        let mut v = vec![];
        if !self.model.enabled() {
            return v;
        }
        for j in 0..self.callers.len() {
            let c = &self.callers[j];
            if c.result.is_some() || c.parked.is_some() || c.site != "h:registered" {
                continue;
            }
            let Some(g) = c.mpc.strip_prefix("waiting:").and_then(|g| g.parse::<u64>().ok()) else { continue };
            let q = self.model.ask(&format!("q t {j}"));
            let Ok(i) = field(&q, "h").parse::<usize>() else { continue };
            let w = self.wq(i);
            if field(&w, "gen").parse::<u64>().ok() != Some(g) {
                v.push(j);
            }
        }
        v
    }

    /// model state = real state (everything observable)
    fn check_state(&mut self) {
        if !self.model.enabled() || self.fail.is_some() {
            return;
        }
        self.compared += 1;
        let (nw, nt, alive) = self.model.globals();
        if nw != self.workers.len() {
            self.disagree("number of worker tasks spawned".into(), format!("{}", self.workers.len()), format!("{nw}"));
            return;
        }
        if nt != self.callers.len() {
            self.disagree("number of callers".into(), format!("{}", self.callers.len()), format!("{nt}"));
            return;
        }
        for i in 0..self.workers.len() {
            let st = handle_state(&self.gate, self.workers[i].key, &self.workers[i].h);
            let used = self.workers[i].h.used_flag();
            let q = self.wq(i);
            let m = format!("init={} ongoing={} err={} active={}", field(&q, "init"), field(&q, "ongoing"), field(&q, "err"), field(&q, "active"));
            if st != m {
                self.disagree(format!("handshake state of worker {i}"), st, m);
                return;
            }
            if (field(&q, "used") == "1") != used && !self.workers[i].done {
                self.disagree(format!("idle-period usage flag of worker {i}"), format!("{used}"), field(&q, "used").to_string());
                return;
            }
        }
        if let Some(m) = self.mgr.as_ref() {
            for k in 0..NKEYS {
                let (a, b) = key_pair(k);
                let rh = m.verif_handle(a, b).and_then(|h| self.workers.iter().position(|w| w.h.same(&h)));
                let q = self.model.ask(&format!("q k {k}"));
                let mh = field(&q, "entry").parse::<usize>().ok();
                if rh != mh {
                    self.disagree(format!("worker registered for pair {k}"), format!("{:?}", rh), format!("{:?}", mh));
                    return;
                }
            }
        }
        let dropped = self.gate.dropped.load(Ordering::SeqCst);
        if dropped == alive {
            self.disagree("manager value dropped".into(), format!("{dropped}"), format!("{}", !alive));
            return;
        }
        let starts = self.gate.starts();
        let mut ms = vec![0usize; NKEYS];
        for i in 0..self.workers.len() {
            let q = self.wq(i);
            ms[self.workers[i].key] += field(&q, "fetches").parse::<usize>().unwrap_or(0);
        }
        if starts != ms {
            self.disagree("fetcher invocations per pair".into(), format!("{:?}", starts), format!("{:?}", ms));
        }
    }

    /// spec oracle (independent of the model): spawns of a pair ≤ 1 + removals of that pair
    fn check_spec(&mut self) {
        for k in 0..NKEYS {
            if self.spawns[k] > 1 + self.removals[k] && !self.spec.iter().any(|(kk, _)| kk == "C20:two-workers") {
                self.spec.push(("C20:two-workers".into(), format!("{} worker tasks were spawned for pair {k} with only {} removal(s) of that pair (stop_managing_paths, worker exit, drop) in between", self.spawns[k], self.removals[k])));
            }
        }
    }

    fn spawn_caller(&mut self, kind: Kind, key: usize) -> bool {
        let j = self.callers.len();
        let gate = self.gate.clone();
        let probe = Arc::new(ProbeState::default());
        let (src, dst) = key_pair(key);
        let join = match kind {
            Kind::Handle | Kind::HandleOld => {
                let mut it = self.workers.iter().enumerate().filter(|(_, w)| w.key == key);
                let pick = if kind == Kind::HandleOld { it.next() } else { it.last() };
                let Some((i, w)) = pick else { return false };
                let h = w.h.clone();
                self.mact(&format!("m spawnHandle {i}"));
                let fut = async move {
                    match h.path().await {
                        Ok(p) => classify_path(&gate, key, &p),
                        Err(Some(e)) => classify_err(&gate, &e),
                        Err(None) => "err:noPaths".into(),
                    }
                };
                tokio::spawn(CALLER_ID.scope(j, Probe { inner: Box::pin(fut), st: probe.clone() }))
            }
            _ => {
                let Some(mgr) = self.mgr.as_ref().cloned() else { return false };
                self.mact(&if kind == Kind::Cached { format!("m spawnCached {key}") } else { format!("m spawnPath {key}") });
                let fut = async move {
                    let out = match kind {
                        Kind::Path => match mgr.path(src, dst, SystemTime::now()).await {
                            Ok(p) => classify_path(&gate, key, &p),
                            Err(e) => classify_err(&gate, &e),
                        },
                        Kind::PathWait => match mgr.path_wait(src, dst, SystemTime::now()).await {
                            Ok(p) => classify_path(&gate, key, &p),
                            Err(PathWaitError::NoPathFound) => "err:noPaths".into(),
                            Err(PathWaitError::FetchFailed(e)) => classify_err(&gate, &e),
                            Err(o) => format!("err:?{o}"),
                        },
                        _ => match mgr.cached_path(src, dst, SystemTime::now()) {
                            Some(p) => classify_path(&gate, key, &p),
                            None => "nothing".into(),
                        },
                    };
                    drop(mgr);
                    out
                };
                tokio::spawn(CALLER_ID.scope(j, Probe { inner: Box::pin(fut), st: probe.clone() }))
            }
        };
        self.callers.push(CCaller { kind, key, probe, join, result: None, site: "(spawned)", arrivals: 0, parked: None, mpc: String::new(), mdone: false, stopped: None });
        true
    }

    /// perform one step token; false = the token does not apply in the current state (skipped)
    async fn step(&mut self, tok: &str) -> bool {
        let p: Vec<&str> = tok.split('.').collect();
        let done = match p.as_slice() {
            ["S", k, key] => {
                let kind = match *k {
                    "p" => Kind::Path,
                    "w" => Kind::PathWait,
                    "c" => Kind::Cached,
                    "h" => Kind::Handle,
                    _ => Kind::HandleOld,
                };
                let key: usize = key.parse().unwrap_or(0) % NKEYS;
                self.spawn_caller(kind, key)
            }
            ["T", key] => {
                let key: usize = key.parse().unwrap_or(0) % NKEYS;
                if self.mgr.is_some() {
                    for c in self.callers.iter_mut().filter(|c| c.result.is_none() && c.stopped.is_none() && c.key == key) {
                        c.stopped = Some("stop");
                    }
                }
                match self.mgr.as_ref() {
                    Some(m) => {
                        let (a, b) = key_pair(key);
                        m.stop_managing_paths(a, b);
                        self.removals[key] += 1;
                        self.mact(&format!("m stop {key}"));
                        true
                    }
                    None => false,
                }
            }
            ["D"] => {
                if self.mgr.is_some() {
                    for c in self.callers.iter_mut().filter(|c| c.result.is_none() && c.stopped.is_none()) {
                        c.stopped = Some("drop");
                    }
                }
                if self.mgr.take().is_some() {
                    for r in self.removals.iter_mut() {
                        *r += 1;
                    }
                    self.mact("m drop");
                    true
                } else {
                    false
                }
            }
            ["M", key, n] => {
                // the application keeps sending to destination `key`: n × cached_path (each one a caller task that
                // runs to completion in one poll) – traffic on the manager's index, see `gen_stop_pending`
                let key: usize = key.parse().unwrap_or(0) % NKEYS;
                let n: usize = n.parse().unwrap_or(0).min(2000);
                if self.mgr.is_none() || self.timers || n == 0 {
                    false
                } else {
                    for _ in 0..n {
                        if self.fail.is_some() || !self.spawn_caller(Kind::Cached, key) {
                            break;
                        }
                        self.traffic += 1;
                        self.settle().await;
                    }
                    true
                }
            }
            ["Z"] => {
                // let timers fire: wait until some task arrives somewhere
                let t0 = Instant::now();
                while t0.elapsed() < Duration::from_millis(400) && self.ctl.q.lock().unwrap().is_empty() {
                    tokio::time::sleep(Duration::from_millis(2)).await;
                }
                true
            }
            [t] if t.starts_with('c') => match t[1..].parse::<usize>().ok().filter(|j| *j < self.callers.len()) {
                Some(j) => match self.callers[j].parked.take() {
                    Some(tx) => {
                        let _ = tx.send(());
                        true
                    }
                    None => false,
                },
                None => false,
            },
            [t] if t.starts_with('w') => match t[1..].parse::<usize>().ok().filter(|i| *i < self.workers.len()) {
                Some(i) => match self.workers[i].parked.take() {
                    Some(Park::Go(tx)) => {
                        let _ = tx.send(());
                        true
                    }
                    other => {
                        self.workers[i].parked = other;
                        false
                    }
                },
                None => false,
            },
            [t, r] if t.starts_with('f') => match (t[1..].parse::<usize>().ok().filter(|i| *i < self.workers.len()), parse_resp(r)) {
                (Some(i), Some(resp)) => match self.workers[i].parked.take() {
                    Some(Park::Fetch(tx)) => {
                        let id = self.next_id;
                        self.next_id += 1;
                        self.workers[i].resp = Some((resp, id));
                        let _ = tx.send((resp, id));
                        true
                    }
                    other => {
                        self.workers[i].parked = other;
                        false
                    }
                },
                _ => false,
            },
            _ => false,
        };
        if !done {
            return false;
        }
        self.steps.push(tok.to_string());
        self.settle().await;
        // a caller whose Notified is complete according to the model must wake up by itself
        let mut od = self.overdue();
        if !od.is_empty() {
            let t0 = Instant::now();
            while !od.is_empty() && t0.elapsed() < Duration::from_millis(800) && self.fail.is_none() {
                tokio::time::sleep(Duration::from_millis(5)).await;
                self.settle().await;
                od = self.overdue();
            }
            if let Some(j) = od.first() {
                let c = &self.callers[*j];
                self.spec.push((
                    "C20:waiter-not-released".into(),
                    format!("caller {j} ({:?}, pair {}) registered for the completion notification and is still blocked after the worker of its path set has called notify_waiters()", c.kind, c.key),
                ));
                self.disagree(format!("wake-up of caller {j}"), "still blocked in its Notified".into(), "its Notified is complete (notify_waiters counter has moved)".into());
            }
        }
        self.check_state();
        self.check_spec();
        true
    }

    /// the options of the scheduler in the current state: (weight, token)
    fn options(&self, rng: &mut Rng, wc: u64, ww: u64, max_callers: usize) -> Vec<(u64, String)> {
        let mut o = vec![];
        for (j, c) in self.callers.iter().enumerate() {
            if c.parked.is_some() {
                o.push((wc, format!("c{j}")));
            }
        }
        let mut in_select = false;
        for (i, w) in self.workers.iter().enumerate() {
            match &w.parked {
                Some(Park::Go(_)) => o.push((ww, format!("w{i}"))),
                Some(Park::Fetch(_)) => {
                    // refetch schedules: near-expiry answers keep the worker refetching (tickRefetch)
                    let r = if self.refetch && rng.chance(1, 2) { Resp::Near } else { pick_resp(rng) };
                    o.push((ww, format!("f{i}.{}", r.s())))
                }
                _ => {
                    if w.site == "w:loop" && !w.done {
                        in_select = true;
                    }
                }
            }
        }
        if self.mgr.is_some() {
            if self.callers.len() < max_callers {
                let key = rng.below(2) as usize;
                let k = match pick_kind2(rng) {
                    Kind::Path => "p",
                    Kind::PathWait => "w",
                    Kind::Cached => "c",
                    Kind::Handle => "h",
                    Kind::HandleOld => "o",
                };
                o.push((3, format!("S.{k}.{key}")));
            }
            o.push((1, format!("T.{}", rng.below(2))));
            if rng.chance(1, 4) {
                o.push((1, "D".into()));
            }
        } else if self.callers.len() < max_callers && !self.workers.is_empty() {
            o.push((1, format!("S.{}.{}", if rng.chance(1, 2) { "h" } else { "o" }, rng.below(2))));
        }
        if self.timers && in_select {
            o.push((1, "Z".into()));
        }
        o
    }
}

async fn run_ctl_async(s: &Sched, lean: &mut Lean) -> Outcome {
    let mut out = Outcome::default();
    let spec = s.ctl.clone().unwrap_or_default();
    let ctl = Arc::new(Ctl::default());
    install_ctl(ctl.clone());
    let gate = GateShared::new(Some(ctl.clone()));
    let mut cfg = MultiPathManagerConfig::default();
    if s.idle_ms > 0 {
        cfg = cfg.with_max_idle_period(Duration::from_millis(s.idle_ms));
    }
    if s.refetch_ms > 0 {
        cfg = cfg.with_min_refetch_delay(Duration::from_millis(s.refetch_ms));
    }
    let mgr = match MultiPathManager::new(cfg, GFetcher(gate.clone()), PathStrategy::default()) {
        Ok(m) => m,
        Err(e) => {
            out.spec.push(("C20:panic".into(), format!("manager construction failed: {e}")));
            return out;
        }
    };
    let base_tasks = tokio::runtime::Handle::current().metrics().num_alive_tasks();
    let mut run = CRun {
        gate: gate.clone(),
        ctl,
        mgr: Some(mgr),
        callers: vec![],
        workers: vec![],
        model: Model::new(lean),
        fail: None,
        spec: vec![],
        steps: vec![],
        next_id: 1,
        spawns: vec![0; NKEYS],
        removals: vec![0; NKEYS],
        timers: s.idle_ms > 0 || s.refetch_ms > 0,
        refetch: s.refetch_ms > 0,
        sites: HashMap::new(),
        compared: 0,
        traffic: 0,
    };
    // ---- the schedule proper ----
    match spec.genr {
        Some((seed, n)) if spec.steps.is_empty() => {
            let mut rng = Rng::new(seed);
            let wc = *rng.pick(&[1u64, 2, 6]);
            let ww = *rng.pick(&[1u64, 2, 6]);
            let max_callers = *rng.pick(&[3usize, 6, 12]);
            // concurrent first requests
            let first = rng.range(1, 4);
            let key0 = rng.below(2) as usize;
            for _ in 0..first {
                let k = match pick_kind(&mut rng) {
                    Kind::Cached => "c",
                    Kind::PathWait => "w",
                    _ => "p",
                };
                let key = if rng.chance(3, 4) { key0 } else { 1 - key0 };
                run.step(&format!("S.{k}.{key}")).await;
            }
            for _ in 0..n {
                if run.fail.is_some() {
                    break;
                }
                let o = run.options(&mut rng, wc, ww, max_callers);
                if o.is_empty() {
                    break;
                }
                let total: u64 = o.iter().map(|x| x.0).sum();
                let mut r = rng.below(total);
                let mut tok = o[0].1.clone();
                for (w, t) in &o {
                    if r < *w {
                        tok = t.clone();
                        break;
                    }
                    r -= *w;
                }
                run.step(&tok).await;
            }
        }
        _ => {
            for tok in &spec.steps {
                if run.fail.is_some() {
                    break;
                }
                run.step(tok).await;
            }
        }
    }
    let recorded = run.steps.clone();
    // ---- drain: finish every lookup, let every caller return, drop the manager, let every worker end ----
    let t0 = Instant::now();
    let limit = Duration::from_millis(2500);
    // (a) while the manager is there: until every caller has returned
    while run.fail.is_none() && t0.elapsed() < limit && run.callers.iter().any(|c| c.result.is_none()) {
        let tok = run
            .callers
            .iter()
            .position(|c| c.parked.is_some())
            .map(|j| format!("c{j}"))
            .or_else(|| {
                run.workers.iter().enumerate().find_map(|(i, w)| match &w.parked {
                    Some(Park::Go(_)) => Some(format!("w{i}")),
                    Some(Park::Fetch(_)) => Some(format!("f{i}.ok")),
                    _ => None,
                })
            });
        match tok {
            Some(t) => {
                run.step(&t).await;
            }
            None => {
                run.step("Z").await;
            }
        }
    }
    let stuck: Vec<usize> = (0..run.callers.len()).filter(|j| run.callers[*j].result.is_none()).collect();
    if run.fail.is_none() {
        if let Some(j) = stuck.iter().find(|j| run.callers[**j].stopped == Some("stop")).or(stuck.iter().find(|j| run.callers[**j].stopped.is_some())).or(stuck.first()) {
            let c = &run.callers[*j];
            let pend = run.workers.iter().filter(|w| w.key == c.key && matches!(w.parked, Some(Park::Fetch(_)))).count();
            let (st, en) = (run.gate.starts()[c.key], run.gate.ends()[c.key]);
            if let Some(op) = c.stopped {
                // "… released as soon as the pending lookup for that pair finishes, however the waiter's arrival
                // interleaves with … a cancellation or the manager being dropped"
                run.spec.push((
                    format!("C20:waiter-not-released:after-{op}"),
                    format!(
                        "caller {j} ({:?}, pair {}) was waiting (last yield point {}) when {} was called; afterwards every pending lookup was answered ({st} started, {en} ran to completion, {pend} pending), every parked task was released and {} ms passed: the caller has not returned, neither with a path nor with an error",
                        c.kind,
                        c.key,
                        c.site,
                        if op == "stop" { "stop_managing_paths(src, dst)" } else { "the drop of the user's manager" },
                        limit.as_millis()
                    ),
                ));
            } else {
                run.spec.push((
                    "C20:waiter-not-released".into(),
                    format!("caller {j} ({:?}, pair {}) has not returned (last yield point {}) although every lookup was completed ({pend} pending) and every task was scheduled", c.kind, c.key, c.site),
                ));
            }
        }
    }
    // (b) drop, then until every worker task has ended
    if run.fail.is_none() {
        run.step("D").await;
    }
    let t1 = Instant::now();
    while run.fail.is_none() && t1.elapsed() < limit && run.workers.iter().any(|w| !w.done) {
        let tok = run
            .callers
            .iter()
            .position(|c| c.parked.is_some())
            .map(|j| format!("c{j}"))
            .or_else(|| {
                run.workers.iter().enumerate().find_map(|(i, w)| match &w.parked {
                    Some(Park::Go(_)) => Some(format!("w{i}")),
                    Some(Park::Fetch(_)) => Some(format!("f{i}.ok")),
                    _ => None,
                })
            });
        match tok {
            Some(t) => {
                run.step(&t).await;
            }
            None => {
                if stuck.is_empty() {
                    run.step("Z").await;
                } else {
                    break;
                }
            }
        }
    }
    if run.fail.is_none() && stuck.is_empty() {
        let alive = tokio::runtime::Handle::current().metrics().num_alive_tasks();
        if !run.gate.dropped.load(Ordering::SeqCst) {
            run.spec.push(("C20:worker-not-stopped".into(), "manager value (fetcher) not dropped after the user dropped the manager and all callers returned".into()));
        } else if alive > base_tasks {
            let n = run.workers.iter().filter(|w| !w.done).count();
            run.spec.push(("C20:worker-not-stopped".into(), format!("{n} worker task(s) have not ended ({} tokio tasks alive) after the manager was dropped, all lookups finished and every task was scheduled", alive.saturating_sub(base_tasks))));
        } else {
            // every task has ended – also a worker that never reached the end of its exit sequence (`w:done`), e.g.
            // because it was aborted: then its handle shows it
            let all_done = run.workers.iter().all(|w| w.done);
            // every handle reports an error instead of a path: the state, and an actual call on the handle
            for i in 0..run.workers.len() {
                let st = handle_state(&run.gate, run.workers[i].key, &run.workers[i].h);
                let ok = st.starts_with("init=1 ongoing=0 err=exited:") && st.ends_with("active=-") && !st.contains('?');
                if !ok {
                    run.spec.push(("C20:path-after-drop".into(), format!("handle of worker {i} (pair {}) after the manager was dropped and every task ended: {st}", run.workers[i].key)));
                }
                out.handles_after_drop += 1;
            }
            for key in 0..NKEYS {
                if all_done && run.workers.iter().any(|w| w.key == key) && run.fail.is_none() {
                    let j = run.callers.len();
                    run.step(&format!("S.o.{key}")).await;
                    let t2 = Instant::now();
                    while run.fail.is_none() && t2.elapsed() < limit && run.callers[j].result.is_none() {
                        if !run.step(&format!("c{j}")).await {
                            run.step("Z").await;
                        }
                    }
                    out.handle_callers += 1;
                    match run.callers[j].result.as_deref() {
                        Some(r) if r.starts_with("err:exited:") => {}
                        other => run.spec.push(("C20:path-after-drop".into(), format!("a call on the handle of the first worker of pair {key} after the drop returned {:?}", other))),
                    }
                }
            }
        }
    }
    set_yield_controller(None);
    // ---- outcome ----
    out.ctl_steps = recorded;
    out.disagree = run.fail.take();
    out.spec = std::mem::take(&mut run.spec);
    out.waiters = run.callers.len();
    for c in &run.callers {
        if let Some(r) = &c.result {
            out.finished += 1;
            let class = if r.starts_with("path:") { "path".to_string() } else { r.clone() };
            *out.results.entry(class).or_insert(0) += 1;
            if r.starts_with("panic") {
                out.spec.push(("C20:panic".into(), format!("caller task panicked: {r}")));
            } else if r.contains('?') {
                out.spec.push(("C20:bad-result".into(), format!("caller on pair {} returned {r}", c.key)));
            }
        }
    }
    out.fetches = run.gate.starts().iter().sum();
    out.workers = run.workers.len();
    out.model_actions = run.model.actions;
    out.counts = run.model.counts.clone();
    for (k, n) in &run.sites {
        out.counts.insert(format!("region {k}"), *n);
    }
    out.syncs = run.compared as usize;
    out.traffic = run.traffic;
    out.trace_tail = run.model.log.iter().rev().take(60).rev().cloned().collect();
    for c in &run.callers {
        c.join.abort();
    }
    out
}

// ---------------------------------------------------------------------------------------------------------
// generators
// ---------------------------------------------------------------------------------------------------------

fn pick_n(rng: &mut Rng) -> usize {
    match rng.below(20) {
        0..=5 => 1,
        6..=11 => 2,
        12..=18 => 8,
        _ => 64,
    }
}

fn pick_kind(rng: &mut Rng) -> Kind {
    match rng.below(10) {
        0..=5 => Kind::Path,
        6..=7 => Kind::PathWait,
        _ => Kind::Cached,
    }
}

/// later in a schedule also callers on bare handles (skipped while the harness holds no handle of the pair)
fn pick_kind2(rng: &mut Rng) -> Kind {
    match rng.below(14) {
        0..=5 => Kind::Path,
        6..=7 => Kind::PathWait,
        8..=9 => Kind::Cached,
        10..=12 => Kind::Handle,
        _ => Kind::HandleOld,
    }
}

fn pick_resp(rng: &mut Rng) -> Resp {
    match rng.below(10) {
        0..=3 => Resp::Ok,
        4 => Resp::Near,
        5..=6 => Resp::Empty,
        _ => Resp::Err,
    }
}

/// schedules around the "ongoing update" wait: the first lookup returns only near-expiry paths (no active
/// path, no error), the worker refetches, callers arriving during the refetch wait for it
fn gen_refetch(rng: &mut Rng) -> Sched {
    let threads = if rng.chance(1, 2) { 0 } else { rng.range(2, 4) as usize };
    let mut ops = vec![];
    let key = rng.below(2) as usize;
    ops.push(Op::Spawn { kind: pick_kind(rng), key, n: pick_n(rng).min(8) });
    if rng.chance(1, 2) {
        ops.push(Op::Sync);
    }
    ops.push(Op::Release { key, resp: Resp::Near });
    ops.push(Op::Sync);
    let rounds = rng.range(1, 3);
    for _ in 0..rounds {
        ops.push(Op::RefetchWait);
        // callers arriving while the refetch is ongoing (initialized, ongoing, no active path)
        ops.push(Op::Spawn { kind: pick_kind2(rng), key, n: pick_n(rng).min(8) });
        if rng.chance(1, 3) {
            ops.push(Op::Spawn { kind: Kind::Cached, key, n: 1 });
        }
        ops.push(Op::Sync);
        match rng.below(6) {
            0 => {
                ops.push(Op::Stop { key });
                ops.push(Op::Sync);
            }
            1 => {
                ops.push(Op::DropMgr);
            }
            _ => {}
        }
        let resp = match rng.below(4) {
            0 => Resp::Near,
            1 => Resp::Ok,
            2 => Resp::Empty,
            _ => Resp::Err,
        };
        ops.push(Op::Release { key, resp });
        if rng.chance(1, 2) {
            ops.push(Op::Spawn { kind: pick_kind2(rng), key, n: pick_n(rng).min(8) });
        }
        ops.push(Op::Sync);
        if resp != Resp::Near {
            break;
        }
    }
    Sched { threads, idle_ms: 0, cap: None, refetch_ms: 40, ops, perturb: threads > 0 && rng.chance(1, 2), ctl: None }
}

/// schedules around "the pair is cancelled / the manager dropped while callers wait for a lookup in flight":
/// callers park on the first lookup of a pair, `stop_managing_paths(src, dst)` (or the drop of the user's manager)
/// is called while the lookup is pending, the application keeps sending to another destination (`M`: every
/// `send_to` reads the manager's index – scc::HashIndex frees the removed entry, i.e. drops its `PathSetTask`,
/// only in the course of such later operations: ~190 `cached_path` calls when the index became empty), then the
/// lookup is answered.  Every caller must return.
fn gen_stop_pending(rng: &mut Rng) -> Sched {
    let threads = if rng.chance(1, 2) { 0 } else { rng.range(2, 4) as usize };
    let key = rng.below(2) as usize;
    let other = 1 - key;
    let mut ops = vec![];
    // the other destination is already in use before the stop (then the index does not become empty)
    let other_before = rng.chance(1, 5);
    if other_before {
        ops.push(Op::Spawn { kind: Kind::Cached, key: other, n: 1 });
        ops.push(Op::Sync);
    }
    let waves = rng.range(1, 2);
    for _ in 0..waves {
        let kind = if rng.chance(1, 2) { Kind::Path } else { Kind::PathWait };
        ops.push(Op::Spawn { kind, key, n: *rng.pick(&[1usize, 2, 8]) });
        // (multi-thread: always – which callers run `ensure_managed_paths` before a racing stop is not observable)
        if threads > 0 || rng.chance(2, 3) {
            ops.push(Op::Sync);
        }
    }
    let dropped = rng.chance(1, 6);
    if dropped {
        ops.push(Op::DropMgr);
    } else {
        ops.push(Op::Stop { key });
        if rng.chance(1, 2) {
            ops.push(Op::Sync);
        }
        ops.push(Op::Traffic { key: other, n: *rng.pick(&[40usize, 260, 420, 420]) });
        if rng.chance(1, 4) {
            // new callers after the stop: a successor worker for the pair
            ops.push(Op::Spawn { kind: pick_kind(rng), key, n: *rng.pick(&[1usize, 2]) });
            ops.push(Op::Sync);
        }
    }
    if rng.chance(1, 2) {
        ops.push(Op::Release { key, resp: pick_resp(rng) });
    } else {
        ops.push(Op::ReleaseAll { resp: pick_resp(rng) });
    }
    ops.push(Op::Sync);
    Sched { threads, idle_ms: 0, cap: None, refetch_ms: 0, ops, perturb: threads > 0 && rng.chance(1, 2), ctl: None }
}

fn gen_sched(rng: &mut Rng) -> Sched {
    if rng.chance(1, 8) {
        return gen_refetch(rng);
    }
    let refetch_ms = 0;
    let threads = if rng.chance(1, 2) { 0 } else { rng.range(2, 4) as usize };
    let idle = rng.chance(1, 8);
    let idle_ms = if idle { 120 } else { 0 };
    let nkeys = rng.range(1, 3) as usize;
    let mut ops = vec![];
    let mt = threads > 0;
    let mut dropped = false;
    // phase 1: concurrent first requests
    let waves = rng.range(1, 3);
    for _ in 0..waves {
        let key = rng.below(nkeys as u64) as usize;
        let kind = pick_kind(rng);
        ops.push(Op::Spawn { kind, key, n: pick_n(rng) });
        if rng.chance(1, 3) {
            // pre-armed or racing completion
            ops.push(Op::Release { key, resp: pick_resp(rng) });
        }
        if rng.chance(1, 2) {
            ops.push(Op::Sync);
        }
    }
    ops.push(Op::Sync);
    // phase 2
    let steps = if idle { rng.range(1, 3) } else { rng.range(2, 7) };
    let mut idled = false;
    for _ in 0..steps {
        let key = rng.below(nkeys as u64) as usize;
        match rng.below(12) {
            0..=3 => {
                ops.push(Op::Release { key, resp: pick_resp(rng) });
                if !dropped && rng.chance(1, 3) {
                    // callers arriving while the lookup completes (result does not depend on the order)
                    ops.push(Op::Spawn { kind: pick_kind2(rng), key, n: pick_n(rng).min(8) });
                }
                ops.push(Op::Sync);
            }
            4..=6 => {
                let kind = pick_kind2(rng);
                if !dropped || kind == Kind::Handle || kind == Kind::HandleOld {
                    ops.push(Op::Spawn { kind, key, n: pick_n(rng) });
                    ops.push(Op::Sync);
                }
            }
            7..=8 => {
                if !dropped {
                    ops.push(Op::Stop { key });
                    if mt || rng.chance(1, 2) {
                        ops.push(Op::Sync);
                    }
                    if rng.chance(1, 2) {
                        ops.push(Op::Spawn { kind: pick_kind2(rng), key, n: pick_n(rng).min(8) });
                        ops.push(Op::Sync);
                    }
                }
            }
            9 => {
                if idle && !idled {
                    ops.push(Op::ReleaseAll { resp: pick_resp(rng) });
                    ops.push(Op::IdleWait);
                    idled = true;
                    if !dropped && rng.chance(2, 3) {
                        ops.push(Op::Spawn { kind: pick_kind(rng), key, n: pick_n(rng).min(8) });
                        ops.push(Op::Sync);
                    }
                }
            }
            10 => {
                if !dropped {
                    ops.push(Op::DropMgr);
                    dropped = true;
                    if rng.chance(1, 2) {
                        ops.push(Op::Sync);
                    }
                }
            }
            _ => {
                ops.push(Op::ReleaseAll { resp: pick_resp(rng) });
            }
        }
    }
    if idle && !idled {
        ops.push(Op::ReleaseAll { resp: pick_resp(rng) });
        ops.push(Op::IdleWait);
    }
    Sched { threads, idle_ms, cap: None, refetch_ms, ops, perturb: mt && rng.chance(1, 2), ctl: None }
}

/// may a non-reproduced witness failure of a free-running schedule be a harness-timing artefact?
/// Yes if the harness had to guess timers, or if the implementation was merely *behind* the model when the
/// deadline of the synchronisation point passed (the observables concerned only ever move one way).
fn forgivable(s: &Sched, what: &str, im: &str, mo: &str) -> bool {
    if s.idle_ms > 0 || s.refetch_ms > 0 {
        return true;
    }
    let nums = |t: &str| -> Vec<i64> {
        t.split(|c: char| !c.is_ascii_digit()).filter(|x| !x.is_empty()).filter_map(|x| x.parse().ok()).collect()
    };
    if what.ends_with("finished?") {
        // the caller has not returned yet in the implementation
        return im.starts_with("Some(false)") && mo.starts_with("Some(true)");
    }
    if what == "fetcher invocations per pair" {
        // fewer lookups started so far, never more
        let (a, b) = (nums(im), nums(mo));
        return a.len() == b.len() && a.iter().zip(b.iter()).all(|(x, y)| x <= y);
    }
    if what == "manager value dropped" {
        return im == "false" && mo == "true";
    }
    if what.starts_with("live tasks") {
        return nums(im).first() > nums(mo).first();
    }
    false
}

/// controlled schedule: the steps are chosen while it runs (seeded), see `run_ctl_async`
fn gen_ctl(rng: &mut Rng) -> Sched {
    let (idle_ms, refetch_ms) = match rng.below(8) {
        0 => (120, 0),
        1 => (0, 40),
        _ => (0, 0),
    };
    let n = rng.range(15, 70) as usize;
    Sched { threads: 0, idle_ms, cap: None, refetch_ms, ops: vec![], perturb: false, ctl: Some(CtlSpec { steps: vec![], genr: Some((rng.next(), n)) }) }
}

/// controlled counterpart of `gen_stop_pending` (explicit steps): 1..3 callers of one pair are released up to some
/// yield point each (at least the first one far enough to have started the worker; 5 releases = blocked in its
/// `Notified`), the worker is released 0..2 times (2 = its lookup is in flight), then `stop_managing_paths`, traffic to
/// the other destination, the answer of the lookup; the drain of the runner completes everything else.
fn gen_ctl_stop_pending(rng: &mut Rng) -> Sched {
    let key = rng.below(2) as usize;
    let other = 1 - key;
    let mut steps: Vec<String> = vec![];
    if rng.chance(1, 6) {
        steps.push(format!("S.c.{other}"));
    }
    let callers = rng.range(1, 3) as usize;
    for j in 0..callers {
        steps.push(format!("S.{}.{key}", if rng.chance(1, 2) { "p" } else { "w" }));
        let adv = if j == 0 { rng.range(2, 5) } else { rng.range(0, 5) };
        for _ in 0..adv {
            steps.push(format!("c{j}"));
        }
    }
    // the worker of the pair is worker 0, unless the other destination was used first
    let w = if steps[0].starts_with("S.c.") { 1 } else { 0 };
    let wadv = *rng.pick(&[0u64, 1, 2, 2, 2]);
    for _ in 0..wadv {
        steps.push(format!("w{w}"));
    }
    if rng.chance(1, 3) {
        // a late caller
        let j = callers;
        steps.push(format!("S.p.{key}"));
        for _ in 0..rng.range(0, 5) {
            steps.push(format!("c{j}"));
        }
    }
    steps.push(format!("T.{key}"));
    steps.push(format!("M.{other}.{}", *rng.pick(&[40usize, 260, 420, 420])));
    if rng.chance(1, 4) {
        // a successor worker for the pair
        steps.push(format!("S.p.{key}"));
    }
    steps.push(format!("f{w}.{}", pick_resp(rng).s()));
    for _ in 0..rng.range(0, 6) {
        steps.push(format!("w{w}"));
    }
    Sched { threads: 0, idle_ms: 0, cap: None, refetch_ms: 0, ops: vec![], perturb: false, ctl: Some(CtlSpec { steps, genr: None }) }
}

/// best-effort shrinking: drop operations while the same kind of failure persists
fn shrink(s: &Sched, lean: &mut Lean, pred: &dyn Fn(&Outcome) -> bool) -> Sched {
    let mut cur = s.clone();
    let mut budget = 24;
    let mut i = 0;
    if cur.ctl.is_some() {
        // controlled schedule: drop step tokens (a token that no longer applies is skipped by the runner); first
        // try to cut the tail off in halves
        budget = 40;
        let mut n = cur.ctl.as_ref().unwrap().steps.len();
        while n > 1 && budget > 0 {
            let mut cand = cur.clone();
            cand.ctl.as_mut().unwrap().steps.truncate(n / 2);
            budget -= 1;
            if pred(&run_sched(&cand, lean)) {
                cur = cand;
                n /= 2;
            } else {
                break;
            }
        }
        while i < cur.ctl.as_ref().unwrap().steps.len() && budget > 0 {
            let mut cand = cur.clone();
            cand.ctl.as_mut().unwrap().steps.remove(i);
            budget -= 1;
            if pred(&run_sched(&cand, lean)) {
                cur = cand;
            } else {
                i += 1;
            }
        }
        return cur;
    }
    while i < cur.ops.len() && budget > 0 {
        let mut cand = cur.clone();
        cand.ops.remove(i);
        budget -= 1;
        let o = run_sched(&cand, lean);
        if pred(&o) {
            cur = cand;
        } else {
            i += 1;
        }
    }
    cur
}

fn main() {
    let args = Args::parse();
    let mut lean = Lean::spawn(&args.driver);
    let mut rng = Rng::new(args.seed);
    let mut rep = Report::new(
        "C20",
        "case = schedule run against the real MultiPathManager with a mock fetcher. Two streams. (a) controlled (rt=ctl): \
         every task parks at every verif-hooks yield point (between two lock regions / lock-free loads and stores of \
         manager.rs and pathset.rs) and at the fetcher; the harness releases one task at a time (current-thread runtime), so \
         the sequence of model actions is observed, not constructed; every action must be enabled in the Lean model and \
         after every step the model state is compared with the real one (handshake state, active slot and idle flag of \
         every path set, manager index, worker count, fetcher invocations, manager dropped, caller results, and that a \
         caller whose Notified is complete wakes up). (b) free-running (current-thread / multi-thread, optionally with \
         seeded re-scheduling at every yield point): program of spawn / lookup completion / stop / drop / idle operations; at \
         every synchronisation point a witness schedule of model actions is searched and replayed on the model. \
         Non-trivial = at least one caller finished and at least one worker was spawned; distinct by schedule text (for \
         controlled schedules: the steps actually performed)",
    );
    let mut schedules: Vec<(String, Sched)> = vec![];
    for l in read_corpus(&args.corpus) {
        match parse_sched(&l) {
            Some(s) => schedules.push(("corpus".into(), s)),
            None => rep.notes.push(format!("unparseable corpus line: {}", &l[..l.len().min(60)])),
        }
    }
    if let Some(p) = &args.replay {
        let txt = std::fs::read_to_string(p).expect("replay file");
        schedules = txt.lines().filter_map(|l| {
            // accept either a raw schedule line or a JSON replay file containing "line": "<schedule>"
            if let Some(i) = l.find("rt=") {
                let rest = &l[i..];
                let rest = rest.trim_end_matches(|c| c == '"' || c == ',' || c == ' ');
                parse_sched(rest).map(|s| ("replay".to_string(), s))
            } else {
                None
            }
        }).collect();
    } else {
        // two streams, interleaved: controlled schedules (the harness is the scheduler, lock-region granularity,
        // current-thread) and free-running ones (current-thread / multi-thread, races by true parallelism)
        let n = args.scale(330, 16000);
        for k in 0..n {
            let mut r = rng.fork();
            if k % 40 == 5 {
                schedules.push(("directed: stop / drop while callers wait for a lookup in flight, then traffic (free-running)".into(), gen_stop_pending(&mut r)));
            } else if k % 40 == 25 {
                schedules.push(("directed: stop while callers wait for a lookup in flight, then traffic (controlled)".into(), gen_ctl_stop_pending(&mut r)));
            } else if k % 3 != 2 {
                schedules.push(("controlled".into(), gen_ctl(&mut r)));
            } else {
                schedules.push(("random".into(), gen_sched(&mut r)));
            }
        }
    }
    let t0 = Instant::now();
    let budget = Duration::from_secs(if args.thorough() { 1300 } else { 150 });
    let mut skipped = 0u64;
    let mut transients = 0u64;
    let mut shrunk_disagreements = 0u32;
    let mut shrunk_keys: HashSet<String> = HashSet::new();
    for (origin, s) in &schedules {
        if t0.elapsed() > budget {
            skipped += 1;
            continue;
        }
        let o = run_sched(s, &mut lean);
        // a generated controlled schedule is identified (and replayed) by the steps it actually performed
        let explicit: Sched;
        let s = if s.ctl.as_ref().map(|c| c.steps.is_empty()).unwrap_or(false) {
            explicit = Sched { ctl: Some(CtlSpec { steps: o.ctl_steps.clone(), genr: None }), ..s.clone() };
            &explicit
        } else {
            s
        };
        let line = sched_line(s);
        let nontrivial = o.finished > 0 && o.workers > 0;
        rep.case(&line, nontrivial);
        rep.traces += 1;
        rep.hit(&format!("schedule origin {origin}"));
        rep.hit(&format!(
            "runtime {}",
            if s.ctl.is_some() {
                "current-thread, controlled (one task released at a time at the yield points)".to_string()
            } else if s.threads == 0 {
                "current-thread".to_string()
            } else {
                format!("multi-thread x{}{}", s.threads, if s.perturb { " + yield-point perturbation" } else { "" })
            }
        ));
        if s.ctl.is_some() {
            rep.hit_n("controlled steps (releases / operations chosen by the harness)", o.ctl_steps.len() as u64);
            if s.idle_ms > 0 {
                rep.hit("controlled schedule with idle period 120 ms");
            }
            if s.refetch_ms > 0 {
                rep.hit("controlled schedule with min refetch delay 40 ms");
            }
        }
        rep.hit_n("callers spawned", o.waiters as u64);
        rep.hit_n("callers finished", o.finished as u64);
        rep.hit_n("fetcher invocations", o.fetches as u64);
        rep.hit_n("workers (model)", o.workers as u64);
        rep.hit_n("model actions replayed", o.model_actions);
        rep.hit_n(if s.ctl.is_some() { "controlled steps after which model state = real state was checked" } else { "synchronisation points compared" }, o.syncs as u64);
        rep.hit_n("witness rebuilt after late quiescence", o.retries as u64);
        rep.hit_n("deferred cancellations (scc reclaim) inferred", o.reclaims as u64);
        rep.hit_n("callers on a bare handle", o.handle_callers as u64);
        rep.hit_n("cached_path calls as index traffic (M)", o.traffic as u64);
        rep.hit_n("handshake states compared (init/ongoing/error/active per held handle)", o.handle_states as u64);
        rep.hit_n("handles checked after drop (error, no path)", o.handles_after_drop as u64);
        for (a, n) in &o.counts {
            rep.hit_n(&format!("model action {a}"), *n);
        }
        for (r, n) in &o.results {
            rep.hit_n(&format!("caller result {r}"), *n);
        }
        for op in &s.ops {
            let k = match op {
                Op::Spawn { n, kind, .. } => format!("op spawn {:?} x{n}", kind),
                Op::Release { resp, .. } => format!("op lookup completes {}", resp.s()),
                Op::Stop { .. } => "op stop_managing_paths".into(),
                Op::DropMgr => "op drop manager".into(),
                Op::IdleWait => "op idle expiry".into(),
                Op::RefetchWait => "op wait for refetch".into(),
                Op::ReleaseAll { .. } => "op finish all lookups".into(),
                Op::Sync => "op sync".into(),
                Op::Traffic { n, .. } => format!("op traffic: {n} x cached_path to another destination"),
            };
            rep.hit(&k);
        }
        if rep.samples.len() < 4 && nontrivial && o.waiters <= 6 && o.disagree.is_none() && o.spec.is_empty() {
            rep.sample(json!({"schedule": line, "callers": o.waiters, "results": o.results, "fetcher_invocations": o.fetches,
                               "model_actions": o.model_actions, "witness_tail": o.trace_tail.iter().rev().take(12).rev().collect::<Vec<_>>() }));
        }
        // Free-running schedules only: the witness between two synchronisation points is *searched* by the
        // harness (which timers fired, which removed entries were reclaimed), and "quiescent" is a judgement.  A
        // failure of that search is forgiven as a harness-timing artefact ONLY if all of the following hold:
        //   * the real system was merely *behind* the model (late quiescence), or the schedule has timers the
        //     harness has to guess (idle / refetch) – see `forgivable`;
        //   * it does not reproduce in 2 re-runs of the same schedule;
        //   * none of the three runs produced a spec failure.
        // Anything else is reported even if it shows up only once (a genuine race need not reproduce).  Spec
        // failures of every run are kept.  Controlled schedules are never forgiven anything.
        let mut o = o;
        if let Some((what, im, mo)) = o.disagree.clone() {
            let first_spec = o.spec.clone();
            let mut reproduced = None;
            let mut rerun_spec: Vec<(String, String)> = vec![];
            for _ in 0..2 {
                let o2 = run_sched(s, &mut lean);
                rerun_spec.extend(o2.spec.iter().cloned());
                if o2.disagree.is_some() {
                    reproduced = Some(o2);
                    break;
                }
            }
            match reproduced {
                Some(mut o2) => {
                    o2.spec.extend(first_spec);
                    o = o2;
                }
                None => {
                    o.spec.extend(rerun_spec);
                    if s.ctl.is_none() && forgivable(s, &what, &im, &mo) && o.spec.is_empty() {
                        rep.hit("transient witness failure (free-running schedule, implementation merely behind / timer guess; not reproduced in 2 re-runs, no spec failure)");
                        transients += 1;
                        if rep.notes.len() < 12 {
                            rep.notes.push(format!("transient: {line} | {what}: impl {im} model {mo} | {:?}", o.cand_mm.iter().take(3).collect::<Vec<_>>()));
                        }
                        o.disagree = None;
                    } else {
                        rep.hit("witness failure seen once (not reproduced in 2 re-runs) – reported");
                    }
                }
            }
        }
        if let Some((what, im, mo)) = &o.disagree {
            // (shrinking re-runs the schedule up to 40 times: only the first few disagreements of a run are shrunk,
            // the others are reported as they are)
            shrunk_disagreements += 1;
            let small = if shrunk_disagreements <= 3 { shrink(s, &mut lean, &|o: &Outcome| o.disagree.is_some()) } else { s.clone() };
            let o2 = run_sched(&small, &mut lean);
            let (w2, i2, m2, tail, cm) = match &o2.disagree {
                Some((w, i, m)) => (w.clone(), i.clone(), m.clone(), o2.trace_tail.clone(), o2.cand_mm.clone()),
                None => (what.clone(), im.clone(), mo.clone(), o.trace_tail.clone(), o.cand_mm.clone()),
            };
            let ln = if o2.disagree.is_some() { sched_line(&small) } else { line.clone() };
            rep.disagree("path-manager trace inclusion", json!({"line": ln, "original": line, "what": w2, "candidates": cm, "witness_tail": tail}), &i2, &m2);
        }
        let mut seen = std::collections::HashSet::new();
        for (key, what) in &o.spec {
            if !seen.insert(key.clone()) {
                continue;
            }
            let k = key.clone();
            // every failing schedule is reported; only the first one of a key is shrunk
            let first = shrunk_keys.insert(key.clone());
            let small = if first { shrink(s, &mut lean, &|o: &Outcome| o.spec.iter().any(|(kk, _)| *kk == k)) } else { s.clone() };
            // the description that goes with the shrunk schedule is the one of the shrunk schedule
            let mut what = what.clone();
            if first && sched_line(&small) != line {
                if let Some((_, w2)) = run_sched(&small, &mut lean).spec.iter().find(|(kk, _)| *kk == k) {
                    what = w2.clone();
                }
            }
            rep.spec_fail(key, &what, json!({"line": sched_line(&small), "original": line}));
        }
    }
    if skipped > 0 {
        rep.notes.push(format!("time budget reached: {skipped} generated schedules not run"));
    }
    // harness timing cannot explain more than a handful of failed witness searches
    if transients > 3 + rep.traces / 100 {
        rep.spec_fail(
            "C20:harness:too-many-transients",
            &format!("{transients} witness failures of free-running schedules were classified as harness timing – too many to be timing"),
            json!({"line": "-"}),
        );
    }
    if rep.samples.is_empty() {
        if let Some((_, s)) = schedules.first() {
            rep.sample(json!({"schedule": sched_line(s)}));
        }
    }
    rep.write(&args.out);
    std::process::exit(if rep.ok() { 0 } else { 1 });
}
