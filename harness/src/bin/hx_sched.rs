//! C20 — trace inclusion + spec oracle for the path-manager concurrency protocol
//! (`scion_stack::path::manager::MultiPathManager`: callers of `path()` / `cached_path()`, the per-pair worker
//! task, `stop_managing_paths`, idle removal, drop of the manager).
//!
//! A case is a *schedule*: runtime flavour (current-thread / multi-thread) + a program of harness operations
//! executed against the REAL `MultiPathManager` with a gated mock `PathFetcher`:
//!   `S.<kind>.<key>.<n>` spawn n concurrent callers, `R.<key>.<ok|empty|err>` let the oldest pending lookup of
//!   the pair finish (or pre-arm the next one), `T.<key>` stop_managing_paths, `D` drop the user's manager,
//!   `I` wait out the idle period, `A` finish all pending lookups, `Y` synchronise.
//! At every `Y` the harness waits for the real system to become quiescent, then builds a *witness schedule*
//! of model actions (lock-region granularity: worker setOngoing / fetchDone / setErr / publishActive /
//! clearAndNotify / … / exitNotify / storeNone, caller peek / ensure / loadActive / lockCheck / awake / reload /
//! readErr, manager stop / drop) and replays it on the compiled Lean model (`drv_sched`): every action must be
//! enabled (`ok`), and the model's observable state must equal what the real system showed – per caller
//! (finished?, result), per pair (number of fetcher invocations = number of workers that started a lookup),
//! fetcher dropped (= manager value gone), number of live tokio tasks (= callers + workers not yet finished).
//! Where the real outcome depends on a race the model also allows (a caller woken by a worker that is already
//! on its way out reads the path or the exit error), the witness is chosen by the observed result
//! (`save`/`restore` on the driver); a result the model cannot produce at any position is a disagreement.
//!
//! Spec oracle (independent of the model), applied to the real system:
//!  * `C20:waiter-not-released`  a `path()` future still pending although no lookup of its pair is pending;
//!  * `C20:two-workers`          more than one fetcher invocation for a pair before any removal of that pair;
//!  * `C20:worker-not-stopped`   tokio tasks still alive / fetcher not dropped after the manager was dropped and
//!                               all lookups finished;
//!  * `C20:bad-result`, `C20:panic`  a caller returned something that is neither a served path nor an error.
use std::{
    collections::{HashMap, VecDeque},
    sync::{
        Arc, Mutex,
        atomic::{AtomicBool, Ordering},
    },
    time::{Duration, Instant, SystemTime},
};

use scion_stack::path::{
    PathStrategy,
    fetcher::traits::{PathFetchError, PathFetcher},
    manager::{MultiPathManager, MultiPathManagerConfig, traits::{PathManager, PathWaitError}},
};
use sciparse::{
    address::ip_addr::ScionIpAddr,
    identifier::{asn::Asn, isd::Isd, isd_asn::IsdAsn},
    path::ScionPath,
    util::test_builder::TestPathBuilder,
};
use serde_json::json;
use tokio::sync::Semaphore;
use verif_harness::*;

// ---------------------------------------------------------------------------------------------------------
// schedule
// ---------------------------------------------------------------------------------------------------------

#[derive(Clone, Copy, PartialEq, Eq, Debug)]
enum Resp {
    Ok,
    Empty,
    Err,
}
impl Resp {
    fn s(self) -> &'static str {
        match self {
            Resp::Ok => "ok",
            Resp::Empty => "empty",
            Resp::Err => "err",
        }
    }
}

#[derive(Clone, Copy, PartialEq, Eq, Debug)]
enum Kind {
    Path,
    PathWait,
    Cached,
}

#[derive(Clone, Debug, PartialEq)]
enum Op {
    Spawn { kind: Kind, key: usize, n: usize },
    Release { key: usize, resp: Resp },
    Stop { key: usize },
    DropMgr,
    IdleWait,
    ReleaseAll { resp: Resp },
    Sync,
}

#[derive(Clone, Debug)]
struct Sched {
    /// 0 = current-thread runtime, n>0 = multi-thread runtime with n workers
    threads: usize,
    /// max_idle_period in ms (0 = default 2 min, i.e. never during the schedule)
    idle_ms: u64,
    /// max_cached_paths_per_pair (None = default 50)
    cap: Option<usize>,
    ops: Vec<Op>,
}

fn sched_line(s: &Sched) -> String {
    let ops: Vec<String> = s
        .ops
        .iter()
        .map(|o| match o {
            Op::Spawn { kind, key, n } => format!(
                "S.{}.{key}.{n}",
                match kind {
                    Kind::Path => "p",
                    Kind::PathWait => "w",
                    Kind::Cached => "c",
                }
            ),
            Op::Release { key, resp } => format!("R.{key}.{}", resp.s()),
            Op::Stop { key } => format!("T.{key}"),
            Op::DropMgr => "D".into(),
            Op::IdleWait => "I".into(),
            Op::ReleaseAll { resp } => format!("A.{}", resp.s()),
            Op::Sync => "Y".into(),
        })
        .collect();
    format!(
        "rt={} idle={}{} ops={}",
        if s.threads == 0 { "ct".to_string() } else { format!("mt{}", s.threads) },
        s.idle_ms,
        match s.cap {
            Some(c) => format!(" cap={c}"),
            None => String::new(),
        },
        ops.join(";")
    )
}

fn parse_resp(s: &str) -> Option<Resp> {
    match s {
        "ok" => Some(Resp::Ok),
        "empty" => Some(Resp::Empty),
        "err" => Some(Resp::Err),
        _ => None,
    }
}

fn parse_sched(line: &str) -> Option<Sched> {
    let mut threads = 0usize;
    let mut idle_ms = 0u64;
    let mut cap = None;
    let mut ops = vec![];
    for tok in line.split_whitespace() {
        let (k, v) = tok.split_once('=')?;
        match k {
            "rt" => {
                threads = if v == "ct" { 0 } else { v.strip_prefix("mt")?.parse().ok()? };
            }
            "idle" => idle_ms = v.parse().ok()?,
            "cap" => cap = Some(v.parse().ok()?),
            "ops" => {
                for o in v.split(';').filter(|x| !x.is_empty()) {
                    let p: Vec<&str> = o.split('.').collect();
                    let op = match p.as_slice() {
                        ["S", k, key, n] => Op::Spawn {
                            kind: match *k {
                                "p" => Kind::Path,
                                "w" => Kind::PathWait,
                                "c" => Kind::Cached,
                                _ => return None,
                            },
                            key: key.parse().ok()?,
                            n: n.parse().ok()?,
                        },
                        ["R", key, r] => Op::Release { key: key.parse().ok()?, resp: parse_resp(r)? },
                        ["T", key] => Op::Stop { key: key.parse().ok()? },
                        ["D"] => Op::DropMgr,
                        ["I"] => Op::IdleWait,
                        ["A", r] => Op::ReleaseAll { resp: parse_resp(r)? },
                        ["Y"] => Op::Sync,
                        _ => return None,
                    };
                    ops.push(op);
                }
            }
            _ => return None,
        }
    }
    Some(Sched { threads, idle_ms, cap, ops })
}

// ---------------------------------------------------------------------------------------------------------
// gated mock fetcher
// ---------------------------------------------------------------------------------------------------------

const NKEYS: usize = 4;

fn key_pair(k: usize) -> (IsdAsn, IsdAsn) {
    (IsdAsn::new(Isd(1), Asn(1)), IsdAsn::new(Isd(2), Asn(10 + k as u64)))
}

fn mk_path(key: usize, id: u32) -> ScionPath {
    let (src, dst) = key_pair(key);
    let s = ScionIpAddr::new(src, std::net::IpAddr::V4(std::net::Ipv4Addr::LOCALHOST));
    let d = ScionIpAddr::new(dst, std::net::IpAddr::V4(std::net::Ipv4Addr::new(127, 0, 0, 2)));
    let ts = SystemTime::now().duration_since(SystemTime::UNIX_EPOCH).unwrap().as_secs() as u32;
    let h = (id % 60000) as u16;
    TestPathBuilder::new(s.into(), d.into())
        .using_info_timestamp(ts)
        .with_hop_expiry(100)
        .up()
        .add_hop(0, 1)
        .with_asn(1000 + id)
        .add_hop(h + 2, h + 3)
        .with_asn(5000 + id)
        .add_hop(h + 4, h + 5)
        .add_hop(1, 0)
        .build(ts)
        .path()
}

#[derive(Default)]
struct KeyGate {
    /// number of `fetch_paths` invocations so far
    starts: usize,
    /// tickets waiting for a response: (ticket, semaphore)
    waiting: VecDeque<(usize, Arc<Semaphore>)>,
    /// responses assigned to released tickets
    assigned: HashMap<usize, (Resp, u32)>,
    /// responses armed before the lookup started (the next lookups complete immediately)
    pre: VecDeque<(Resp, u32)>,
    /// completed lookups
    ends: usize,
}

struct GateShared {
    keys: Mutex<Vec<KeyGate>>,
    /// path id -> (key, path)
    served: Mutex<HashMap<u32, (usize, ScionPath)>>,
    dropped: AtomicBool,
}

impl GateShared {
    fn new() -> Arc<Self> {
        Arc::new(GateShared {
            keys: Mutex::new((0..NKEYS).map(|_| KeyGate::default()).collect()),
            served: Mutex::new(HashMap::new()),
            dropped: AtomicBool::new(false),
        })
    }
    /// complete the oldest pending lookup of `key`, or arm the next one
    fn release(&self, key: usize, resp: Resp, id: u32) {
        let mut g = self.keys.lock().unwrap();
        let kg = &mut g[key];
        if let Some((ticket, sem)) = kg.waiting.pop_front() {
            kg.assigned.insert(ticket, (resp, id));
            sem.add_permits(1);
        } else {
            kg.pre.push_back((resp, id));
        }
    }
    fn starts(&self) -> Vec<usize> {
        self.keys.lock().unwrap().iter().map(|k| k.starts).collect()
    }
    fn pending(&self) -> Vec<usize> {
        self.keys.lock().unwrap().iter().map(|k| k.waiting.len()).collect()
    }
    fn armed(&self) -> Vec<usize> {
        self.keys.lock().unwrap().iter().map(|k| k.pre.len()).collect()
    }
    fn ends(&self) -> Vec<usize> {
        self.keys.lock().unwrap().iter().map(|k| k.ends).collect()
    }
}

struct GFetcher(Arc<GateShared>);
impl Drop for GFetcher {
    fn drop(&mut self) {
        self.0.dropped.store(true, Ordering::SeqCst);
    }
}

impl PathFetcher for GFetcher {
    async fn fetch_paths(&self, src: IsdAsn, dst: IsdAsn) -> Result<Vec<ScionPath>, PathFetchError> {
        let key = (0..NKEYS).find(|k| key_pair(*k) == (src, dst)).expect("unknown pair");
        let (ticket, wait) = {
            let mut g = self.0.keys.lock().unwrap();
            let kg = &mut g[key];
            let ticket = kg.starts;
            kg.starts += 1;
            if let Some(r) = kg.pre.pop_front() {
                kg.assigned.insert(ticket, r);
                (ticket, None)
            } else {
                let sem = Arc::new(Semaphore::new(0));
                kg.waiting.push_back((ticket, sem.clone()));
                (ticket, Some(sem))
            }
        };
        if let Some(sem) = wait {
            sem.acquire().await.expect("semaphore closed").forget();
        }
        let (resp, id) = {
            let mut g = self.0.keys.lock().unwrap();
            let kg = &mut g[key];
            kg.ends += 1;
            kg.assigned.remove(&ticket).expect("released ticket has a response")
        };
        match resp {
            Resp::Ok => {
                let p = mk_path(key, id);
                self.0.served.lock().unwrap().insert(id, (key, p.clone()));
                Ok(vec![p])
            }
            Resp::Empty => Ok(vec![]),
            Resp::Err => Err(PathFetchError::InternalError("mock lookup failure".into())),
        }
    }
}

// ---------------------------------------------------------------------------------------------------------
// the real side
// ---------------------------------------------------------------------------------------------------------

struct RealWaiter {
    kind: Kind,
    key: usize,
    handle: tokio::task::JoinHandle<String>,
    result: Option<String>,
}

fn classify_err(gate: &GateShared, e: &PathFetchError) -> String {
    let _ = gate;
    match e {
        PathFetchError::NoPathsFound => "err:noPaths".into(),
        PathFetchError::InternalError(m) => {
            if let Some(r) = m.strip_prefix("PathSet task exited: ") {
                match r {
                    "idle" => "err:exited:idle".into(),
                    "cancelled" => "err:exited:cancelled".into(),
                    "manager dropped" => "err:exited:mgrGone".into(),
                    o => format!("err:exited:?{o}"),
                }
            } else if m == "mock lookup failure" {
                "err:fetchFailed".into()
            } else {
                format!("err:?{m}")
            }
        }
        o => format!("err:?{o}"),
    }
}

fn classify_path(gate: &GateShared, key: usize, p: &ScionPath) -> String {
    let served = gate.served.lock().unwrap();
    for (id, (k, sp)) in served.iter() {
        if *k == key && sp.fingerprint() == p.fingerprint() {
            return format!("path:{id}");
        }
    }
    "path:?".into()
}

struct Real {
    gate: Arc<GateShared>,
    mgr: Option<MultiPathManager<GFetcher>>,
    waiters: Vec<RealWaiter>,
    threads: usize,
    /// a removal of the pair has been requested / may have happened (stop, idle wait, drop)
    removal_possible: Vec<bool>,
}

#[derive(Clone, PartialEq, Debug)]
struct Obs {
    finished: Vec<bool>,
    starts: Vec<usize>,
    ends: Vec<usize>,
    dropped: bool,
    alive_tasks: usize,
}

impl Real {
    fn spawn(&mut self, kind: Kind, key: usize) {
        let mgr = self.mgr.as_ref().expect("spawn after drop").clone();
        let gate = self.gate.clone();
        let (src, dst) = key_pair(key);
        let handle = tokio::spawn(async move {
            let out = match kind {
                Kind::Path => match mgr.path(src, dst, SystemTime::now()).await {
                    Ok(p) => classify_path(&gate, key, &p),
                    Err(e) => classify_err(&gate, &e),
                },
                Kind::PathWait => match mgr.path_wait(src, dst, SystemTime::now()).await {
                    Ok(p) => classify_path(&gate, key, &p),
                    Err(PathWaitError::NoPathFound) => "err:noPaths".into(),
                    Err(PathWaitError::FetchFailed(e)) => classify_err(&gate, &e),
                    Err(o) => format!("err:?{o}"),
                },
                Kind::Cached => match mgr.cached_path(src, dst, SystemTime::now()) {
                    Some(p) => classify_path(&gate, key, &p),
                    None => "nothing".into(),
                },
            };
            drop(mgr);
            out
        });
        self.waiters.push(RealWaiter { kind, key, handle, result: None });
    }

    async fn collect(&mut self) {
        for w in self.waiters.iter_mut() {
            if w.result.is_none() && w.handle.is_finished() {
                w.result = Some(match (&mut w.handle).await {
                    Ok(s) => s,
                    Err(e) => format!("panic:{e}"),
                });
            }
        }
    }

    async fn observe(&mut self) -> Obs {
        self.collect().await;
        Obs {
            finished: self.waiters.iter().map(|w| w.result.is_some()).collect(),
            starts: self.gate.starts(),
            ends: self.gate.ends(),
            dropped: self.gate.dropped.load(Ordering::SeqCst),
            alive_tasks: tokio::runtime::Handle::current().metrics().num_alive_tasks(),
        }
    }

    /// wait until the observable state stops changing
    async fn quiesce(&mut self, extra: bool) -> Obs {
        let t0 = Instant::now();
        let mut last = self.observe().await;
        let mut stable = 0;
        let need = if self.threads == 0 { 2 } else if extra { 8 } else { 4 };
        loop {
            if self.threads == 0 {
                for _ in 0..40 {
                    tokio::task::yield_now().await;
                }
            } else {
                tokio::time::sleep(Duration::from_micros(250)).await;
            }
            let o = self.observe().await;
            if o == last {
                stable += 1;
                if stable >= need {
                    return o;
                }
            } else {
                stable = 0;
                last = o;
            }
            if t0.elapsed() > Duration::from_secs(3) {
                return last;
            }
        }
    }
}

// ---------------------------------------------------------------------------------------------------------
// the model side: witness construction
// ---------------------------------------------------------------------------------------------------------

struct MWorker {
    key: usize,
    resp: Option<(Resp, u32)>,
    /// the idle timer of this worker is assumed to have fired (IdleWait)
    idle_due: bool,
}

struct Model<'a> {
    lean: &'a mut Lean,
    /// every request sent since the last reset (for the report)
    log: Vec<String>,
    /// first action the model refused
    refused: Option<String>,
    workers: Vec<MWorker>,
    /// responses released by the harness that the model has not consumed yet, per key
    released: Vec<VecDeque<(Resp, u32)>>,
    n_waiters: usize,
    done: Vec<bool>,
    actions: u64,
}

fn field<'b>(line: &'b str, name: &str) -> &'b str {
    for tok in line.split_whitespace() {
        if let Some(v) = tok.strip_prefix(name) {
            if let Some(v) = v.strip_prefix('=') {
                return v;
            }
        }
    }
    ""
}

impl<'a> Model<'a> {
    fn new(lean: &'a mut Lean) -> Self {
        lean.ask("reset");
        Model {
            lean,
            log: vec![],
            refused: None,
            workers: vec![],
            released: (0..NKEYS).map(|_| VecDeque::new()).collect(),
            n_waiters: 0,
            done: vec![],
            actions: 0,
        }
    }
    fn enabled(&self) -> bool {
        self.lean.enabled
    }
    fn ask(&mut self, req: &str) -> String {
        let r = self.lean.ask(req);
        if !req.starts_with("q ") {
            self.log.push(format!("{req} -> {r}"));
            if self.log.len() > 400 {
                self.log.drain(..200);
            }
        }
        r
    }
    /// an action that must be enabled
    fn act(&mut self, req: &str) -> bool {
        if !self.enabled() {
            return true;
        }
        let r = self.ask(req);
        self.actions += 1;
        if r.starts_with("ok") {
            true
        } else {
            if self.refused.is_none() {
                self.refused = Some(format!("{req} -> {r}"));
            }
            false
        }
    }
    fn spawn(&mut self, kind: Kind, key: usize) {
        let a = match kind {
            Kind::Cached => format!("m spawnCached {key}"),
            _ => format!("m spawnPath {key}"),
        };
        self.act(&a);
        self.n_waiters += 1;
        self.done.push(false);
    }
    fn globals(&mut self) -> (usize, usize, bool) {
        let g = self.ask("q g");
        (field(&g, "nW").parse().unwrap_or(0), field(&g, "nT").parse().unwrap_or(0), field(&g, "alive") == "1")
    }
    /// run caller j until it blocks or finishes; returns (progress, finished-with-result)
    fn run_waiter(&mut self, j: usize) -> (bool, Option<String>) {
        let mut progress = false;
        loop {
            let r = self.ask(&format!("t {j} next"));
            if r.starts_with("ok") {
                self.actions += 1;
                progress = true;
                continue;
            }
            if r == "disabled" {
                let q = self.ask(&format!("q t {j}"));
                if field(&q, "pc") == "done" {
                    self.done[j] = true;
                    return (progress, Some(field(&q, "res").to_string()));
                }
            }
            return (progress, None);
        }
    }
    fn sync_workers(&mut self) {
        let (nw, _, _) = self.globals();
        while self.workers.len() < nw {
            let i = self.workers.len();
            let q = self.ask(&format!("q w {i}"));
            let key = field(&q, "key").parse().unwrap_or(0);
            self.workers.push(MWorker { key, resp: None, idle_due: false });
        }
    }
    /// callers whose real result is known and who would obtain exactly that result if they ran now
    fn early_waiters(&mut self, real: &[Option<String>]) -> bool {
        let mut progress = false;
        for j in 0..self.n_waiters {
            if self.done[j] {
                continue;
            }
            let Some(want) = real[j].clone() else { continue };
            self.ask("save");
            let (_, got) = self.run_waiter(j);
            if got.as_deref() == Some(want.as_str()) {
                self.ask("forget");
                progress = true;
            } else {
                self.done[j] = false;
                self.ask("restore");
            }
        }
        progress
    }
    /// one step of worker i if it can move; `real` = results of the real callers (for racy placements)
    fn step_worker(&mut self, i: usize, real: &[Option<String>]) -> bool {
        let q = self.ask(&format!("q w {i}"));
        let pc = field(&q, "pc").to_string();
        let cancelled = field(&q, "cancelled") == "1";
        let used = field(&q, "used") == "1";
        let (_, _, alive) = self.globals();
        let key = self.workers[i].key;
        let a: Option<String> = match pc.as_str() {
            "start" => Some(if alive { "upgradeStart".into() } else { "mgrGone".into() }),
            "setOngoing" => Some("setOngoing".into()),
            "fetching" => {
                if let Some(r) = self.released[key].pop_front() {
                    self.workers[i].resp = Some(r);
                    Some(format!("fetchDone {}", r.0.s()))
                } else {
                    None
                }
            }
            p if p.starts_with("cache:") => Some("cacheStore keep".into()),
            p if p.starts_with("setErr:") => Some("setErr".into()),
            "publish" => Some(match self.workers[i].resp {
                Some((Resp::Ok, id)) => format!("publishActive set:{id}"),
                _ => "publishActive keep".into(),
            }),
            "clear" => Some("clearAndNotify".into()),
            "release" => Some("releaseMgr".into()),
            "loop" => {
                if cancelled {
                    Some("cancelSeen".into())
                } else if !alive {
                    Some("mgrGone".into())
                } else if self.workers[i].idle_due {
                    if used {
                        Some("tickNothing 1".into())
                    } else {
                        Some("tickIdle".into())
                    }
                } else {
                    None
                }
            }
            p if p.starts_with("exitRemove:") => Some("exitRemove".into()),
            p if p.starts_with("exitNotify:") => Some("exitNotify".into()),
            "exitStore" => Some("storeNone".into()),
            _ => None,
        };
        let Some(a) = a else { return false };
        // a caller woken by this worker may have read the slot / the error before the worker went on: place
        // it by its observed result (the model allows both orders)
        // (also: a `cached_path` caller racing with the completion of a lookup returns nothing or the path)
        if self.enabled() {
            self.early_waiters(real);
        }
        self.act(&format!("w {i} {a}"));
        true
    }
    /// closure: workers first (as far as they can go), then callers, until nothing moves
    fn settle(&mut self, real: &[Option<String>]) {
        if !self.enabled() {
            return;
        }
        for _round in 0..10_000 {
            let mut progress = false;
            self.sync_workers();
            for i in 0..self.workers.len() {
                let mut guard = 0;
                while self.step_worker(i, real) {
                    progress = true;
                    guard += 1;
                    if guard > 64 || self.refused.is_some() {
                        break;
                    }
                }
            }
            for j in 0..self.n_waiters {
                if self.done[j] {
                    continue;
                }
                match real[j].clone() {
                    // the real caller has returned: commit a finishing run only if it yields that result
                    // (otherwise the caller ran at another position of the schedule: try again later)
                    Some(want) => {
                        self.ask("save");
                        let (p, got) = self.run_waiter(j);
                        if got.is_some() && got.as_deref() != Some(want.as_str()) {
                            self.done[j] = false;
                            self.ask("restore");
                        } else {
                            self.ask("forget");
                            progress |= p;
                        }
                    }
                    None => {
                        let (p, _) = self.run_waiter(j);
                        progress |= p;
                    }
                }
            }
            if !progress || self.refused.is_some() {
                break;
            }
        }
        for w in self.workers.iter_mut() {
            w.idle_due = false;
        }
    }
    /// back to the model state saved at the beginning of the current synchronisation point
    fn rewind(&mut self, sv: &Saved) {
        if !self.enabled() {
            return;
        }
        self.ask("restore");
        self.ask("save");
        self.refused = None;
        self.released = sv.released.clone();
        self.done = sv.done.clone();
        self.workers.truncate(sv.nworkers);
        for (i, w) in self.workers.iter_mut().enumerate() {
            w.resp = sv.resp[i];
            w.idle_due = sv.idle[i];
        }
        self.actions = sv.actions;
    }
    /// workers that were removed from the map but whose cancel token has not fired and that still run
    fn garbage(&mut self) -> Vec<usize> {
        if !self.enabled() {
            return vec![];
        }
        self.sync_workers();
        let mut v = vec![];
        for i in 0..self.workers.len() {
            let q = self.ask(&format!("q w {i}"));
            if field(&q, "cancelled") == "1" || field(&q, "pc") == "done" {
                continue;
            }
            let key = self.workers[i].key;
            let e = self.ask(&format!("q k {key}"));
            if field(&e, "entry") != i.to_string() {
                v.push(i);
            }
        }
        v
    }
    /// observable projection of the model state, same shape as `Obs` + results
    fn observe(&mut self) -> (Obs, Vec<Option<String>>) {
        self.sync_workers();
        let (nw, nt, alive) = self.globals();
        let mut finished = vec![];
        let mut results = vec![];
        let mut alive_tasks = 0;
        for j in 0..nt {
            let q = self.ask(&format!("q t {j}"));
            let d = field(&q, "pc") == "done";
            finished.push(d);
            results.push(if d { Some(field(&q, "res").to_string()) } else { None });
            if !d {
                alive_tasks += 1;
            }
        }
        let mut starts = vec![0usize; NKEYS];
        let mut ends = vec![0usize; NKEYS];
        for i in 0..nw {
            let q = self.ask(&format!("q w {i}"));
            let key: usize = field(&q, "key").parse().unwrap_or(0);
            let f: usize = field(&q, "fetches").parse().unwrap_or(0);
            starts[key] += f;
            let pc = field(&q, "pc");
            ends[key] += if pc == "fetching" { f.saturating_sub(1) } else if pc == "setOngoing" || pc == "start" { f } else { f };
            if pc != "done" {
                alive_tasks += 1;
            }
        }
        (Obs { finished, starts, ends, dropped: !alive, alive_tasks }, results)
    }
}

// ---------------------------------------------------------------------------------------------------------
// running one schedule
// ---------------------------------------------------------------------------------------------------------

#[derive(Default)]
struct Outcome {
    disagree: Option<(String, String, String)>, // (where, impl, model)
    spec: Vec<(String, String)>,
    waiters: usize,
    finished: usize,
    results: HashMap<String, u64>,
    fetches: usize,
    workers: usize,
    registered: usize,
    model_actions: u64,
    syncs: usize,
    retries: usize,
    reclaims: usize,
    trace_tail: Vec<String>,
}

fn run_sched(s: &Sched, lean: &mut Lean) -> Outcome {
    let rt = if s.threads == 0 {
        tokio::runtime::Builder::new_current_thread().enable_all().build().unwrap()
    } else {
        tokio::runtime::Builder::new_multi_thread().worker_threads(s.threads).enable_all().build().unwrap()
    };
    let out = rt.block_on(run_sched_async(s, lean));
    rt.shutdown_timeout(Duration::from_millis(200));
    out
}

async fn run_sched_async(s: &Sched, lean: &mut Lean) -> Outcome {
    let mut out = Outcome::default();
    let gate = GateShared::new();
    let mut cfg = MultiPathManagerConfig::default();
    if s.idle_ms > 0 {
        cfg = cfg.with_max_idle_period(Duration::from_millis(s.idle_ms));
    }
    if let Some(c) = s.cap {
        cfg = cfg.with_max_cached_paths_per_pair(c);
    }
    let mgr = match MultiPathManager::new(cfg, GFetcher(gate.clone()), PathStrategy::default()) {
        Ok(m) => m,
        Err(e) => {
            out.spec.push(("C20:panic".into(), format!("manager construction failed: {e}")));
            return out;
        }
    };
    let base_tasks = tokio::runtime::Handle::current().metrics().num_alive_tasks();
    let mut real = Real { gate: gate.clone(), mgr: Some(mgr), waiters: vec![], threads: s.threads, removal_possible: vec![false; NKEYS] };
    let mut model = Model::new(lean);
    let mut next_id: u32 = 1;
    let mut ops: Vec<Op> = s.ops.clone();
    // every schedule ends with: finish all lookups, drop, synchronise
    ops.push(Op::Sync);
    ops.push(Op::ReleaseAll { resp: Resp::Ok });
    ops.push(Op::DropMgr);
    ops.push(Op::Sync);
    let mut k = 0;
    while k < ops.len() {
        let op = ops[k].clone();
        k += 1;
        match op {
            Op::Spawn { kind, key, n } => {
                if real.mgr.is_none() {
                    continue;
                }
                for _ in 0..n {
                    model.spawn(kind, key);
                    real.spawn(kind, key);
                }
            }
            Op::Release { key, resp } => {
                let id = next_id;
                next_id += 1;
                real.gate.release(key, resp, id);
                model.released[key].push_back((resp, id));
            }
            Op::Stop { key } => {
                if let Some(m) = real.mgr.as_ref() {
                    let (a, b) = key_pair(key);
                    m.stop_managing_paths(a, b);
                    model.act(&format!("m stop {key}"));
                    real.removal_possible[key] = true;
                }
            }
            Op::DropMgr => {
                if real.mgr.take().is_some() {
                    model.act("m drop");
                    for r in real.removal_possible.iter_mut() {
                        *r = true;
                    }
                }
            }
            Op::IdleWait => {
                if s.idle_ms == 0 {
                    continue;
                }
                // quiesce first, then let two idle periods pass without touching anything
                sync_point(&mut real, &mut model, &mut out, base_tasks).await;
                tokio::time::sleep(Duration::from_millis(s.idle_ms * 2 + s.idle_ms / 2 + 10)).await;
                for r in real.removal_possible.iter_mut() {
                    *r = true;
                }
                for w in model.workers.iter_mut() {
                    w.idle_due = true;
                }
                sync_point(&mut real, &mut model, &mut out, base_tasks).await;
            }
            Op::ReleaseAll { resp } => {
                // finish every pending lookup (repeat: finishing one may let a successor start)
                for _ in 0..8 {
                    let pend = real.gate.pending();
                    if pend.iter().all(|p| *p == 0) {
                        break;
                    }
                    for (key, p) in pend.iter().enumerate() {
                        for _ in 0..*p {
                            let id = next_id;
                            next_id += 1;
                            real.gate.release(key, resp, id);
                            model.released[key].push_back((resp, id));
                        }
                    }
                    sync_point(&mut real, &mut model, &mut out, base_tasks).await;
                }
            }
            Op::Sync => {
                sync_point(&mut real, &mut model, &mut out, base_tasks).await;
            }
        }
        if out.disagree.is_some() {
            break;
        }
    }
    // final spec check: after the drop everything must be gone
    if out.disagree.is_none() {
        let o = real.quiesce(true).await;
        let pending_lookups: usize = real.gate.pending().iter().sum();
        if real.mgr.is_none() && pending_lookups == 0 && o.finished.iter().all(|f| *f) {
            if !o.dropped {
                out.spec.push(("C20:worker-not-stopped".into(), "manager value (fetcher) not dropped after the user dropped the manager and all callers returned".into()));
            } else if o.alive_tasks > base_tasks {
                out.spec.push(("C20:worker-not-stopped".into(), format!("{} tokio task(s) still alive after the manager was dropped and all lookups finished", o.alive_tasks - base_tasks)));
            }
        }
    }
    real.collect().await;
    out.waiters = real.waiters.len();
    for w in &real.waiters {
        if let Some(r) = &w.result {
            out.finished += 1;
            let class = if r.starts_with("path:") { "path".to_string() } else { r.clone() };
            *out.results.entry(class).or_insert(0) += 1;
            if r.starts_with("panic") {
                out.spec.push(("C20:panic".into(), format!("caller task panicked: {r}")));
            } else if r.contains('?') {
                out.spec.push(("C20:bad-result".into(), format!("caller on pair {} returned {r}", w.key)));
            }
        }
    }
    out.fetches = real.gate.starts().iter().sum();
    out.workers = model.workers.len();
    out.model_actions = model.actions;
    if out.disagree.is_none() {
        if let Some(r) = model.refused.take() {
            out.disagree = Some(("model refused an action of the witness schedule".into(), "enabled in the implementation".into(), r));
        }
    }
    out.trace_tail = model.log.iter().rev().take(60).rev().cloned().collect();
    // abort whatever is still there (a failed schedule may leave pending callers)
    for w in &real.waiters {
        w.handle.abort();
    }
    out
}

struct Saved {
    released: Vec<VecDeque<(Resp, u32)>>,
    done: Vec<bool>,
    nworkers: usize,
    resp: Vec<Option<(Resp, u32)>>,
    idle: Vec<bool>,
    actions: u64,
}

fn compare(model: &mut Model<'_>, real_o: &Obs, results: &[Option<String>]) -> Option<(String, String, String)> {
    if !model.enabled() {
        return None;
    }
    if let Some(r) = model.refused.clone() {
        return Some(("model refused an action of the witness schedule".into(), "enabled in the implementation".into(), r));
    }
    let (mo, mres) = model.observe();
    if real_o.finished != mo.finished {
        let j = (0..real_o.finished.len().max(mo.finished.len()))
            .find(|j| real_o.finished.get(*j) != mo.finished.get(*j))
            .unwrap_or(0);
        return Some((format!("caller {j} finished?"), format!("{:?}", real_o.finished.get(j)), format!("{:?}", mo.finished.get(j))));
    }
    if let Some(j) = (0..results.len()).find(|j| results[*j] != mres[*j]) {
        return Some((format!("result of caller {j}"), format!("{:?}", results[j]), format!("{:?}", mres[j])));
    }
    if real_o.starts != mo.starts {
        return Some(("fetcher invocations per pair".into(), format!("{:?}", real_o.starts), format!("{:?}", mo.starts)));
    }
    if real_o.dropped != mo.dropped {
        return Some(("manager value dropped".into(), format!("{}", real_o.dropped), format!("{}", mo.dropped)));
    }
    if real_o.alive_tasks != mo.alive_tasks {
        return Some(("live tasks (callers + workers)".into(), format!("{}", real_o.alive_tasks), format!("{}", mo.alive_tasks)));
    }
    None
}

/// wait for quiescence, build the witness, compare; on mismatch wait longer and rebuild (the real system
/// may simply not have been done yet) until the deadline
async fn sync_point(real: &mut Real, model: &mut Model<'_>, out: &mut Outcome, base_tasks: usize) {
    out.syncs += 1;
    let deadline = Instant::now() + Duration::from_millis(if real.threads == 0 { 1500 } else { 4000 });
    let mut o = real.quiesce(false).await;
    if model.enabled() {
        model.ask("save");
    }
    let saved = Saved {
        released: model.released.clone(),
        done: model.done.clone(),
        nworkers: model.workers.len(),
        resp: model.workers.iter().map(|w| w.resp).collect(),
        idle: model.workers.iter().map(|w| w.idle_due).collect(),
        actions: model.actions,
    };
    let mut attempt = 0;
    'outer: loop {
        let results: Vec<Option<String>> = real.waiters.iter().map(|w| w.result.clone()).collect();
        let real_o = Obs { alive_tasks: o.alive_tasks.saturating_sub(base_tasks), ..o.clone() };
        // candidate sets of removed-but-not-yet-dropped map entries whose `PathSetTask` the collector of
        // scc::HashIndex has dropped by now (cancel token fired): not observable directly, so try them
        let cands = model.garbage();
        let mut subsets: Vec<Vec<usize>> = vec![vec![]];
        for c in &cands {
            subsets.push(vec![*c]);
        }
        if cands.len() > 1 {
            subsets.push(cands.clone());
        }
        if cands.len() > 2 {
            for a in 0..cands.len() {
                for b in a + 1..cands.len() {
                    subsets.push(vec![cands[a], cands[b]]);
                }
            }
        }
        let mut first_mm = None;
        for (si, sub) in subsets.iter().enumerate() {
            if si > 0 {
                model.rewind(&saved);
            }
            for i in sub {
                model.act(&format!("m reclaim {i}"));
            }
            model.settle(&results);
            let mm = compare(model, &real_o, &results);
            match mm {
                None => {
                    if model.enabled() {
                        model.ask("forget");
                    }
                    if !sub.is_empty() {
                        out.reclaims += sub.len();
                    }
                    break 'outer;
                }
                Some(mm) => {
                    if first_mm.is_none() {
                        first_mm = Some(mm);
                    }
                }
            }
        }
        if Instant::now() > deadline {
            out.disagree = first_mm;
            if model.enabled() {
                model.ask("forget");
            }
            break;
        }
        // the real system may simply not have been done yet: wait, observe again, rebuild
        attempt += 1;
        out.retries += 1;
        model.rewind(&saved);
        tokio::time::sleep(Duration::from_millis(if attempt < 5 { 2 } else { 20 })).await;
        o = real.quiesce(true).await;
    }
    // ---- spec oracle on the real observation (independent of the model) ----
    let pending = real.gate.pending();
    let armed = real.gate.armed();
    let _ = armed;
    // (1) a caller of path() may stay pending only while a lookup of its pair is pending
    let mut stuck: Vec<usize> = (0..real.waiters.len())
        .filter(|j| real.waiters[*j].result.is_none() && pending[real.waiters[*j].key] == 0)
        .collect();
    if !stuck.is_empty() {
        // be sure: give it until the deadline
        while Instant::now() < deadline && !stuck.is_empty() {
            tokio::time::sleep(Duration::from_millis(10)).await;
            real.collect().await;
            let pending = real.gate.pending();
            stuck.retain(|j| real.waiters[*j].result.is_none() && pending[real.waiters[*j].key] == 0);
        }
        if let Some(j) = stuck.first() {
            out.spec.push((
                "C20:waiter-not-released".into(),
                format!("caller {j} ({:?}) of pair {} is still pending although no lookup of that pair is pending", real.waiters[*j].kind, real.waiters[*j].key),
            ));
        }
    }
    // (2) one worker per pair: before any removal of the pair, at most one fetcher invocation
    let starts = real.gate.starts();
    for key in 0..NKEYS {
        if !real.removal_possible[key] && starts[key] > 1 {
            out.spec.push(("C20:two-workers".into(), format!("{} fetcher invocations for pair {key} although it was never removed", starts[key])));
        }
        let any_caller = real.waiters.iter().any(|w| w.key == key);
        if any_caller && starts[key] == 0 && real.mgr.is_some() {
            out.spec.push(("C20:two-workers".into(), format!("no worker was started for requested pair {key}")));
        }
    }
    out.registered += 0;
}

// ---------------------------------------------------------------------------------------------------------
// generators
// ---------------------------------------------------------------------------------------------------------

fn pick_n(rng: &mut Rng) -> usize {
    match rng.below(20) {
        0..=5 => 1,
        6..=11 => 2,
        12..=18 => 8,
        _ => 64,
    }
}

fn pick_kind(rng: &mut Rng) -> Kind {
    match rng.below(10) {
        0..=5 => Kind::Path,
        6..=7 => Kind::PathWait,
        _ => Kind::Cached,
    }
}

fn pick_resp(rng: &mut Rng) -> Resp {
    match rng.below(10) {
        0..=4 => Resp::Ok,
        5..=6 => Resp::Empty,
        _ => Resp::Err,
    }
}

fn gen_sched(rng: &mut Rng) -> Sched {
    let threads = if rng.chance(1, 2) { 0 } else { rng.range(2, 4) as usize };
    let idle = rng.chance(1, 8);
    let idle_ms = if idle { 120 } else { 0 };
    let nkeys = rng.range(1, 3) as usize;
    let mut ops = vec![];
    let mt = threads > 0;
    let mut dropped = false;
    // phase 1: concurrent first requests
    let waves = rng.range(1, 3);
    for _ in 0..waves {
        let key = rng.below(nkeys as u64) as usize;
        let kind = pick_kind(rng);
        ops.push(Op::Spawn { kind, key, n: pick_n(rng) });
        if rng.chance(1, 3) {
            // pre-armed or racing completion
            ops.push(Op::Release { key, resp: pick_resp(rng) });
        }
        if rng.chance(1, 2) {
            ops.push(Op::Sync);
        }
    }
    ops.push(Op::Sync);
    // phase 2
    let steps = if idle { rng.range(1, 3) } else { rng.range(2, 7) };
    let mut idled = false;
    for _ in 0..steps {
        let key = rng.below(nkeys as u64) as usize;
        match rng.below(12) {
            0..=3 => {
                ops.push(Op::Release { key, resp: pick_resp(rng) });
                if !dropped && rng.chance(1, 3) {
                    // callers arriving while the lookup completes (result does not depend on the order)
                    ops.push(Op::Spawn { kind: pick_kind(rng), key, n: pick_n(rng).min(8) });
                }
                ops.push(Op::Sync);
            }
            4..=6 => {
                if !dropped {
                    ops.push(Op::Spawn { kind: pick_kind(rng), key, n: pick_n(rng) });
                    ops.push(Op::Sync);
                }
            }
            7..=8 => {
                if !dropped {
                    ops.push(Op::Stop { key });
                    if mt || rng.chance(1, 2) {
                        ops.push(Op::Sync);
                    }
                    if rng.chance(1, 2) {
                        ops.push(Op::Spawn { kind: pick_kind(rng), key, n: pick_n(rng).min(8) });
                        ops.push(Op::Sync);
                    }
                }
            }
            9 => {
                if idle && !idled {
                    ops.push(Op::ReleaseAll { resp: pick_resp(rng) });
                    ops.push(Op::IdleWait);
                    idled = true;
                    if !dropped && rng.chance(2, 3) {
                        ops.push(Op::Spawn { kind: pick_kind(rng), key, n: pick_n(rng).min(8) });
                        ops.push(Op::Sync);
                    }
                }
            }
            10 => {
                if !dropped {
                    ops.push(Op::DropMgr);
                    dropped = true;
                    if rng.chance(1, 2) {
                        ops.push(Op::Sync);
                    }
                }
            }
            _ => {
                ops.push(Op::ReleaseAll { resp: pick_resp(rng) });
            }
        }
    }
    if idle && !idled {
        ops.push(Op::ReleaseAll { resp: pick_resp(rng) });
        ops.push(Op::IdleWait);
    }
    Sched { threads, idle_ms, cap: None, ops }
}

/// best-effort shrinking: drop operations while the same kind of failure persists
fn shrink(s: &Sched, lean: &mut Lean, pred: &dyn Fn(&Outcome) -> bool) -> Sched {
    let mut cur = s.clone();
    let mut budget = 24;
    let mut i = 0;
    while i < cur.ops.len() && budget > 0 {
        let mut cand = cur.clone();
        cand.ops.remove(i);
        budget -= 1;
        let o = run_sched(&cand, lean);
        if pred(&o) {
            cur = cand;
        } else {
            i += 1;
        }
    }
    cur
}

fn main() {
    let args = Args::parse();
    let mut lean = Lean::spawn(&args.driver);
    let mut rng = Rng::new(args.seed);
    let mut rep = Report::new(
        "C20",
        "case = schedule (runtime flavour + program of spawn / lookup completion / stop / drop / idle operations) run \
         against the real MultiPathManager with a gated mock fetcher; at every synchronisation point a witness schedule of \
         model actions at lock-region granularity is replayed on the Lean model (every action must be enabled) and the \
         observable state (per-caller result, fetcher invocations per pair, manager dropped, live tasks) is compared. \
         Non-trivial = at least one caller finished and at least one worker was spawned; distinct by schedule text",
    );
    let mut schedules: Vec<(String, Sched)> = vec![];
    for l in read_corpus(&args.corpus) {
        match parse_sched(&l) {
            Some(s) => schedules.push(("corpus".into(), s)),
            None => rep.notes.push(format!("unparseable corpus line: {}", &l[..l.len().min(60)])),
        }
    }
    if let Some(p) = &args.replay {
        let txt = std::fs::read_to_string(p).expect("replay file");
        schedules = txt.lines().filter_map(|l| {
            // accept either a raw schedule line or a JSON replay file containing "line": "<schedule>"
            if let Some(i) = l.find("rt=") {
                let rest = &l[i..];
                let rest = rest.trim_end_matches(|c| c == '"' || c == ',' || c == ' ');
                parse_sched(rest).map(|s| ("replay".to_string(), s))
            } else {
                None
            }
        }).collect();
    } else {
        let n = args.scale(260, 12000);
        for _ in 0..n {
            let mut r = rng.fork();
            schedules.push(("random".into(), gen_sched(&mut r)));
        }
    }
    let t0 = Instant::now();
    let budget = Duration::from_secs(if args.thorough() { 1500 } else { 150 });
    let mut skipped = 0u64;
    for (origin, s) in &schedules {
        if t0.elapsed() > budget {
            skipped += 1;
            continue;
        }
        let o = run_sched(s, &mut lean);
        let line = sched_line(s);
        let nontrivial = o.finished > 0 && o.workers > 0;
        rep.case(&line, nontrivial);
        rep.traces += 1;
        rep.hit(&format!("schedule origin {origin}"));
        rep.hit(&format!("runtime {}", if s.threads == 0 { "current-thread".to_string() } else { format!("multi-thread x{}", s.threads) }));
        rep.hit_n("callers spawned", o.waiters as u64);
        rep.hit_n("callers finished", o.finished as u64);
        rep.hit_n("fetcher invocations", o.fetches as u64);
        rep.hit_n("workers (model)", o.workers as u64);
        rep.hit_n("model actions replayed", o.model_actions);
        rep.hit_n("synchronisation points compared", o.syncs as u64);
        rep.hit_n("witness rebuilt after late quiescence", o.retries as u64);
        rep.hit_n("deferred cancellations (scc reclaim) inferred", o.reclaims as u64);
        for (r, n) in &o.results {
            rep.hit_n(&format!("caller result {r}"), *n);
        }
        for op in &s.ops {
            let k = match op {
                Op::Spawn { n, kind, .. } => format!("op spawn {:?} x{n}", kind),
                Op::Release { resp, .. } => format!("op lookup completes {}", resp.s()),
                Op::Stop { .. } => "op stop_managing_paths".into(),
                Op::DropMgr => "op drop manager".into(),
                Op::IdleWait => "op idle expiry".into(),
                Op::ReleaseAll { .. } => "op finish all lookups".into(),
                Op::Sync => "op sync".into(),
            };
            rep.hit(&k);
        }
        if rep.samples.len() < 4 && nontrivial && o.waiters <= 6 && o.disagree.is_none() && o.spec.is_empty() {
            rep.sample(json!({"schedule": line, "callers": o.waiters, "results": o.results, "fetcher_invocations": o.fetches,
                               "model_actions": o.model_actions, "witness_tail": o.trace_tail.iter().rev().take(12).rev().collect::<Vec<_>>() }));
        }
        if let Some((what, im, mo)) = &o.disagree {
            let small = shrink(s, &mut lean, &|o: &Outcome| o.disagree.is_some());
            let o2 = run_sched(&small, &mut lean);
            let (w2, i2, m2, tail) = match &o2.disagree {
                Some((w, i, m)) => (w.clone(), i.clone(), m.clone(), o2.trace_tail.clone()),
                None => (what.clone(), im.clone(), mo.clone(), o.trace_tail.clone()),
            };
            let ln = if o2.disagree.is_some() { sched_line(&small) } else { line.clone() };
            rep.disagree("path-manager trace inclusion", json!({"line": ln, "what": w2, "witness_tail": tail}), &i2, &m2);
        }
        let mut seen = std::collections::HashSet::new();
        for (key, what) in &o.spec {
            if !seen.insert(key.clone()) {
                continue;
            }
            let k = key.clone();
            let small = shrink(s, &mut lean, &|o: &Outcome| o.spec.iter().any(|(kk, _)| *kk == k));
            rep.spec_fail(key, what, json!({"line": sched_line(&small), "original": line}));
        }
    }
    if skipped > 0 {
        rep.notes.push(format!("time budget reached: {skipped} generated schedules not run"));
    }
    if rep.samples.is_empty() {
        if let Some((_, s)) = schedules.first() {
            rep.sample(json!({"schedule": sched_line(s)}));
        }
    }
    rep.write(&args.out);
    std::process::exit(if rep.ok() { 0 } else { 1 });
}
