//! C16 — correspondence + spec oracle for `sciparse::path::policy` (ACL, hop pattern, hop predicate).
//!
//! Every request that is sent to the Lean model driver (`drv_policy`) is also evaluated on the real code
//! (under `catch`) and the two answers are diffed.  Independently of the model the implementation's answer
//! is checked against executable spec oracles written here from the documentation:
//!  * ACL: first-match-per-hop semantics, default when no entry matches (`acl_oracle`);
//!  * hop pattern: brute-force membership of the hop sequence in the regular language of the pattern
//!    (`lang`, a memoised substring recursion on the harness' own AST, no position sets, no fixpoint);
//!  * parser: an independent recursive-descent reference parser (`RefParser`) – Ok/Err and the AST;
//!    redundant parentheses / whitespace renderings of one AST must all parse to that AST;
//!  * hop predicates: `parse(to_string(p)) == p`;
//!  * lexer: spans slice the input to the token text, nothing but whitespace (char::is_whitespace) is lost;
//!  * no panic anywhere.
use std::collections::HashMap;

use sciparse::{
    dataplane_path::view::ScionDpPathView,
    identifier::{asn::Asn, isd::Isd, isd_asn::IsdAsn},
    path::{
        ScionPath,
        metadata::{PathMetadata, path_interface::PathInterface},
        policy::{
            PathPolicy, Policy,
            acl::{AclEntry, AclEntryOperator, AclPolicy},
            hop_pattern::{
                HopPatternPolicy, MAX_EXPRESSION_DEPTH, ParseError,
                lexer::{HopPatternLexer, Token, TokenKind},
                parser::HopPatternParser,
            },
            types::{HopPredicate, InterfacesPredicate, PathPolicyHop},
        },
    },
};
use serde_json::json;
use verif_harness::*;

// ------------------------------------------------------------------------------------------------
// harness-side data (independent of the implementation's types)

#[derive(Clone, Copy, PartialEq, Eq, Hash, Debug)]
enum Ifs {
    Any,
    Either(u16),
    Both(u16, u16),
}
#[derive(Clone, Copy, PartialEq, Eq, Hash, Debug)]
struct Pred {
    isd: u16,
    asn: Option<u64>,
    ifs: Ifs,
}
#[derive(Clone, Copy, PartialEq, Eq, Hash, Debug)]
struct Hop {
    isd: u16,
    asn: u64,
    ing: u16,
    eg: u16,
}
#[derive(Clone, PartialEq, Eq, Hash, Debug)]
enum Ast {
    P(Pred),
    Or(Box<Ast>, Box<Ast>),
    Opt(Box<Ast>),
    Plus(Box<Ast>),
    Star(Box<Ast>),
}

fn asn_text(a: u64) -> String {
    if a <= u32::MAX as u64 {
        format!("{a}")
    } else {
        format!("{:x}:{:x}:{:x}", (a >> 32) & 0xffff, (a >> 16) & 0xffff, a & 0xffff)
    }
}
impl Pred {
    /// the documented text form ("1", "1-2", "1-2#3", "1-2#3,4")
    fn text(&self) -> String {
        let mut s = format!("{}", self.isd);
        if let Some(a) = self.asn {
            s.push('-');
            s.push_str(&asn_text(a));
        }
        match self.ifs {
            Ifs::Any => {}
            Ifs::Either(a) => s.push_str(&format!("#{a}")),
            Ifs::Both(a, b) => s.push_str(&format!("#{a},{b}")),
        }
        s
    }
    /// request encoding for the driver
    fn enc(&self) -> String {
        let a = self.asn.map(|a| a.to_string()).unwrap_or("n".into());
        let f = match self.ifs {
            Ifs::Any => "a".to_string(),
            Ifs::Either(a) => format!("e{a}"),
            Ifs::Both(a, b) => format!("b{a},{b}"),
        };
        format!("{}/{}/{}", self.isd, a, f)
    }
    fn debug(&self) -> String {
        let a = self.asn.map(|a| format!("Some({})", asn_text(a))).unwrap_or("None".into());
        let f = match self.ifs {
            Ifs::Any => "Any".to_string(),
            Ifs::Either(a) => format!("Either(InterfacePredicate({a}))"),
            Ifs::Both(a, b) => format!("Both {{ ingress: InterfacePredicate({a}), egress: InterfacePredicate({b}) }}"),
        };
        format!("HopPredicate {{ isd: {}, asn: {}, interfaces: {} }}", self.isd, a, f)
    }
    fn to_impl(&self) -> HopPredicate {
        let f = match self.ifs {
            Ifs::Any => InterfacesPredicate::Any,
            Ifs::Either(a) => InterfacesPredicate::either(a),
            Ifs::Both(a, b) => InterfacesPredicate::both(a, b),
        };
        HopPredicate { isd: Isd(self.isd), asn: self.asn.map(Asn), interfaces: f }
    }
    /// SPEC (documentation of HopPredicate / Isd::matches / Asn::matches / InterfacePredicate):
    /// 0 is a wildcard for ISD and AS on either side, for interfaces only in the predicate;
    /// "#3" = ingress or egress is 3, "#3,4" = ingress 3 and egress 4.
    fn sat(&self, h: &Hop) -> bool {
        let isd = self.isd == 0 || h.isd == 0 || self.isd == h.isd;
        let asn = match self.asn {
            None => true,
            Some(a) => a == 0 || h.asn == 0 || a == h.asn,
        };
        let m = |p: u16, i: u16| p == 0 || p == i;
        let ifs = match self.ifs {
            Ifs::Any => true,
            Ifs::Either(a) => m(a, h.ing) || m(a, h.eg),
            Ifs::Both(a, b) => m(a, h.ing) && m(b, h.eg),
        };
        isd && asn && ifs
    }
}
impl Hop {
    fn enc(&self) -> String {
        format!("{}:{}:{}:{}", self.isd, self.asn, self.ing, self.eg)
    }
    fn to_impl(&self) -> PathPolicyHop {
        PathPolicyHop { isd_asn: IsdAsn::new(Isd(self.isd), Asn(self.asn)), ingress: self.ing, egress: self.eg }
    }
}
fn enc_hops(hs: &[Hop]) -> String {
    if hs.is_empty() { "-".into() } else { hs.iter().map(|h| h.enc()).collect::<Vec<_>>().join(",") }
}
fn impl_hops(hs: &[Hop]) -> Vec<PathPolicyHop> {
    hs.iter().map(|h| h.to_impl()).collect()
}

impl Ast {
    fn debug(&self) -> String {
        match self {
            Ast::P(p) => format!("HopPredicate({})", p.debug()),
            Ast::Or(a, b) => format!("Or({}, {})", a.debug(), b.debug()),
            Ast::Opt(a) => format!("Optional({})", a.debug()),
            Ast::Plus(a) => format!("OneOrMore({})", a.debug()),
            Ast::Star(a) => format!("ZeroOrMore({})", a.debug()),
        }
    }
    fn has_operator(&self) -> bool {
        !matches!(self, Ast::P(_))
    }
    fn depth(&self) -> usize {
        match self {
            Ast::P(_) => 0,
            Ast::Or(a, b) => 1 + a.depth().max(b.depth()),
            Ast::Opt(a) | Ast::Plus(a) | Ast::Star(a) => 1 + a.depth(),
        }
    }
    /// tokens of a rendering; `extra` decides where redundant parentheses go (None = minimal)
    fn render(&self, out: &mut Vec<String>, level: u8, rng: &mut Option<&mut Rng>) {
        // level 0 = or-level allowed, 1 = right operand of `|` (no bare Or), 2 = operand of a postfix operator
        let redundant = match rng {
            Some(r) => r.chance(1, 5),
            None => false,
        };
        let need = match self {
            Ast::P(_) => false,
            Ast::Or(..) => level >= 1,
            _ => false,
        };
        if need || redundant {
            out.push("(".into());
            self.render(out, 0, rng);
            out.push(")".into());
            return;
        }
        match self {
            Ast::P(p) => out.push(p.text()),
            Ast::Or(a, b) => {
                a.render(out, 0, rng);
                out.push("|".into());
                b.render(out, 1, rng);
            }
            Ast::Opt(a) | Ast::Plus(a) | Ast::Star(a) => {
                a.render(out, 2, rng);
                out.push(match self {
                    Ast::Opt(_) => "?",
                    Ast::Plus(_) => "+",
                    _ => "*",
                }
                .into());
            }
        }
    }
}
fn policy_debug(es: &[Ast]) -> String {
    format!("HopPatternPolicy([{}])", es.iter().map(|e| e.debug()).collect::<Vec<_>>().join(", "))
}
/// render a policy; with an rng: redundant parentheses and random whitespace (space / tab / newline)
fn render_policy(es: &[Ast], rng: &mut Option<&mut Rng>) -> String {
    let mut toks = vec![];
    for e in es {
        // a top-level Or needs no parentheses: `1 | 2 3` parses as [Or(1,2), 3]
        e.render(&mut toks, 0, rng);
    }
    let mut s = String::new();
    let mut prev: Option<String> = None;
    for t in toks {
        let is_pred = |x: &str| x.chars().next().map(|c| c.is_ascii_digit()).unwrap_or(false);
        let both_pred = prev.as_deref().map(is_pred).unwrap_or(false) && is_pred(&t);
        let ws: String = match rng {
            Some(r) => {
                let n = if both_pred { r.range(1, 2) } else { r.below(3) };
                (0..n).map(|_| *r.pick(&[' ', ' ', '\t', '\n', '\r', '\u{a0}', '\u{c}', '\u{2003}'])).collect()
            }
            None => {
                let tight = prev.is_none() || t == "?" || t == "+" || t == "*" || t == ")" || prev.as_deref() == Some("(");
                if tight { String::new() } else { " ".into() }
            }
        };
        s.push_str(&ws);
        s.push_str(&t);
        prev = Some(t);
    }
    s
}

// ------------------------------------------------------------------------------------------------
// SPEC ORACLES

/// ACL first-match semantics: the path is allowed iff for every hop the first entry whose predicate matches
/// is an allow entry; the default decides when no entry matches.
fn acl_oracle(default_allow: bool, entries: &[(bool, Pred)], hs: &[Hop]) -> bool {
    hs.iter().all(|h| entries.iter().find(|(_, p)| p.sat(h)).map(|(a, _)| *a).unwrap_or(default_allow))
}

/// brute-force language membership: is hs[i..j] in L(e)?  memoised on (node address, i, j)
struct LangMemo<'a> {
    hs: &'a [Hop],
    memo: HashMap<(*const Ast, usize, usize), bool>,
}
impl<'a> LangMemo<'a> {
    fn lang(&mut self, e: &Ast, i: usize, j: usize) -> bool {
        let key = (e as *const Ast, i, j);
        if let Some(v) = self.memo.get(&key) {
            return *v;
        }
        let v = match e {
            Ast::P(p) => j == i + 1 && p.sat(&self.hs[i]),
            Ast::Or(a, b) => self.lang(a, i, j) || self.lang(b, i, j),
            Ast::Opt(a) => i == j || self.lang(a, i, j),
            // L(a+) = ⋃ n≥1 L(a)^n.  The empty word is in it iff it is in L(a); a non-empty word is in it iff it
            // splits into a non-empty first piece in L(a) and a rest that is empty or again in L(a+)
            // (empty pieces can be dropped from any decomposition of a non-empty word).
            Ast::Plus(a) => {
                if i == j {
                    self.lang(a, i, i)
                } else {
                    (i + 1..=j).any(|k| self.lang(a, i, k) && (k == j || self.lang(e, k, j)))
                }
            }
            Ast::Star(a) => i == j || (i + 1..=j).any(|k| self.lang(a, i, k) && (k == j || self.lang(e, k, j))),
        };
        self.memo.insert(key, v);
        v
    }
    /// hs[i..] in L(e_0) · L(e_1) · …
    fn seq(&mut self, es: &[Ast], i: usize) -> bool {
        match es.split_first() {
            None => i == self.hs.len(),
            Some((e, rest)) => (i..=self.hs.len()).any(|k| self.lang(e, i, k) && self.seq(rest, k)),
        }
    }
}
fn lang_oracle(es: &[Ast], hs: &[Hop]) -> bool {
    LangMemo { hs, memo: HashMap::new() }.seq(es, 0)
}

/// reference tokeniser for the *documented* lexical structure: operators `| ? + * ( )` (and the reserved
/// `! &`), whitespace separates tokens and is otherwise ignored, anything else up to the next operator or
/// whitespace is a hop predicate.
#[derive(Clone, PartialEq, Eq, Debug)]
enum RTok {
    P(String),
    Sym(char),
}
fn ref_lex(s: &str) -> Vec<RTok> {
    let mut out = vec![];
    let mut cur = String::new();
    for c in s.chars() {
        if "!&|()+?*".contains(c) || c.is_whitespace() {
            if !cur.is_empty() {
                out.push(RTok::P(std::mem::take(&mut cur)));
            }
            if !c.is_whitespace() {
                out.push(RTok::Sym(c));
            }
        } else {
            cur.push(c);
        }
    }
    if !cur.is_empty() {
        out.push(RTok::P(cur));
    }
    out
}
/// reference predicate parser (documented forms only; decimal ISD / interfaces, decimal or x:x:x AS)
fn ref_pred(s: &str) -> Option<Pred> {
    fn num(s: &str, max: u64) -> Option<u64> {
        let d = s.strip_prefix('+').unwrap_or(s);
        if d.is_empty() || !d.bytes().all(|b| b.is_ascii_digit()) {
            return None;
        }
        let mut v: u128 = 0;
        for b in d.bytes() {
            v = v * 10 + (b - b'0') as u128;
            if v > max as u128 {
                return None;
            }
        }
        Some(v as u64)
    }
    fn hex16(s: &str) -> Option<u64> {
        let d = s.strip_prefix('+').unwrap_or(s);
        if d.is_empty() || !d.bytes().all(|b| b.is_ascii_hexdigit()) {
            return None;
        }
        let t = d.trim_start_matches('0');
        if t.len() > 4 {
            return None;
        }
        Some(u64::from_str_radix(if t.is_empty() { "0" } else { t }, 16).unwrap())
    }
    fn asn(s: &str) -> Option<u64> {
        if let Some(v) = num(s, u64::MAX) {
            return if v <= u32::MAX as u64 { Some(v) } else { None };
        }
        let parts: Vec<&str> = s.split(':').collect();
        if parts.len() != 3 {
            return None;
        }
        let mut v = 0u64;
        for p in parts {
            v = (v << 16) | hex16(p)?;
        }
        Some(v)
    }
    let (isd_s, rest) = match s.find('-') {
        Some(i) => (&s[..i], Some(&s[i + 1..])),
        None => (s, None),
    };
    let isd = num(isd_s, 65535)? as u16;
    let Some(rest) = rest else { return Some(Pred { isd, asn: None, ifs: Ifs::Any }) };
    let (asn_s, ifs_s) = match rest.find('#') {
        Some(i) => (&rest[..i], Some(&rest[i + 1..])),
        None => (rest, None),
    };
    let a = asn(asn_s)?;
    let Some(ifs_s) = ifs_s else { return Some(Pred { isd, asn: Some(a), ifs: Ifs::Any }) };
    let ifs = match ifs_s.find(',') {
        None => Ifs::Either(num(ifs_s, 65535)? as u16),
        Some(i) => Ifs::Both(num(&ifs_s[..i], 65535)? as u16, num(&ifs_s[i + 1..], 65535)? as u16),
    };
    Some(Pred { isd, asn: Some(a), ifs })
}
/// reference parser: plain recursive descent over the documented grammar
///   policy  := expr*          expr := postfix ('|' postfix)*   (left associative)
///   postfix := atom ('?' | '+' | '*')*        atom := PREDICATE | '(' expr ')'
struct RefParser {
    toks: Vec<RTok>,
    pos: usize,
    /// documented nesting: 1 + enclosing parentheses + enclosing right-hand sides of `|`
    level: usize,
    max_level: usize,
}
impl RefParser {
    fn peek(&self) -> Option<&RTok> {
        self.toks.get(self.pos)
    }
    fn atom(&mut self) -> Option<Ast> {
        match self.peek()?.clone() {
            RTok::P(s) => {
                self.pos += 1;
                Some(Ast::P(ref_pred(&s)?))
            }
            RTok::Sym('(') => {
                self.pos += 1;
                self.level += 1;
                self.max_level = self.max_level.max(self.level);
                let e = self.expr();
                self.level -= 1;
                let e = e?;
                if self.peek() == Some(&RTok::Sym(')')) {
                    self.pos += 1;
                    Some(e)
                } else {
                    None
                }
            }
            _ => None,
        }
    }
    fn postfix(&mut self) -> Option<Ast> {
        let mut e = self.atom()?;
        loop {
            match self.peek() {
                Some(RTok::Sym('?')) => e = Ast::Opt(Box::new(e)),
                Some(RTok::Sym('+')) => e = Ast::Plus(Box::new(e)),
                Some(RTok::Sym('*')) => e = Ast::Star(Box::new(e)),
                _ => return Some(e),
            }
            self.pos += 1;
        }
    }
    fn expr(&mut self) -> Option<Ast> {
        let mut e = self.postfix()?;
        while self.peek() == Some(&RTok::Sym('|')) {
            self.pos += 1;
            self.level += 1;
            self.max_level = self.max_level.max(self.level);
            let r = self.postfix();
            self.level -= 1;
            e = Ast::Or(Box::new(e), Box::new(r?));
        }
        // `&` is reserved and unsupported
        if self.peek() == Some(&RTok::Sym('&')) {
            return None;
        }
        Some(e)
    }
    fn policy(toks: Vec<RTok>) -> Option<(Vec<Ast>, usize)> {
        let mut p = RefParser { toks, pos: 0, level: 1, max_level: 1 };
        let mut out = vec![];
        while p.pos < p.toks.len() {
            out.push(p.expr()?);
        }
        Some((out, p.max_level))
    }
}
/// the documented grammar, without the depth limit
fn ref_parse(s: &str) -> Option<Vec<Ast>> {
    RefParser::policy(ref_lex(s)).map(|r| r.0)
}
/// is a pattern of the documented grammar beyond the documented depth limit?  (`MAX_EXPRESSION_DEPTH`:
/// syntax tree deeper than the limit – a hop predicate has depth 1 –, or parentheses / right-hand sides of `|`
/// nested more than the limit)
fn ref_too_deep(s: &str) -> Option<bool> {
    let (es, max_level) = RefParser::policy(ref_lex(s))?;
    Some(max_level > MAX_EXPRESSION_DEPTH || es.iter().any(|e| e.depth() + 1 > MAX_EXPRESSION_DEPTH))
}

// ------------------------------------------------------------------------------------------------
// implementation adapters (canonical one-line answers, same vocabulary as the driver)

/// "ok" | "err <class>" | "panic"
fn head2(line: &str) -> String {
    let mut w = line.split(' ');
    match w.next() {
        Some("err") => format!("err {}", w.next().unwrap_or("")),
        Some(x) => x.to_string(),
        None => String::new(),
    }
}
fn hexs(s: &str) -> String {
    hex(s.as_bytes())
}
fn perr_class(msg: &str) -> &'static str {
    if msg.starts_with("invalid hop predicate") {
        "invalid_pred"
    } else if msg.starts_with("Negative lookahead") {
        "bang"
    } else if msg.starts_with("expected ')'") {
        "expected_rparen"
    } else if msg == "unexpected end of token stream" {
        "unclosed_paren"
    } else if msg.starts_with("unexpected end of token stream, Expected") {
        "unexpected_end"
    } else if msg.starts_with("unexpected token:") {
        "unexpected_token"
    } else if msg.starts_with("AND operator") {
        "and"
    } else if msg.starts_with("unexpected trailing tokens") {
        "trailing"
    } else if msg.starts_with("expression is nested deeper than") {
        "too_deep"
    } else {
        "UNKNOWN"
    }
}
fn perr_line(e: &ParseError, toks: &[Token]) -> String {
    let class = perr_class(&e.message);
    if class == "unexpected_end" {
        return format!("err {class} -");
    }
    match toks.iter().position(|t| t.span == e.span) {
        Some(i) => format!("err {class} {i}"),
        None => format!("err {class} span{:?}", e.span),
    }
}
/// `HopPatternPolicy::parse(s)`
fn impl_parse(s: &str) -> (String, Option<HopPatternPolicy>) {
    match catch(|| {
        let toks = HopPatternLexer::new(s).tokenize();
        (HopPatternParser::new(&toks).parse(), HopPatternPolicy::parse(s), toks)
    }) {
        Err(m) => (format!("panic {m}"), None),
        Ok((r1, r2, toks)) => {
            if r1 != r2 {
                return ("INCONSISTENT parse() vs lexer+parser".into(), None);
            }
            match r2 {
                Ok(p) => (format!("ok {p:?}"), Some(p)),
                Err(e) => {
                    // error reporting must not panic either
                    let line = perr_line(&e, &toks);
                    match catch(|| e.report(s)) {
                        Ok(_) => (line, None),
                        Err(m) => (format!("{line} REPORT-PANIC {m}"), None),
                    }
                }
            }
        }
    }
}
fn tok_enc(k: &TokenKind) -> String {
    match k {
        TokenKind::HopPredicate(s) => format!("P{}", if s.is_empty() { "".into() } else { hexs(s) }),
        TokenKind::Bang => "!".into(),
        TokenKind::And => "&".into(),
        TokenKind::Or => "|".into(),
        TokenKind::LParen => "(".into(),
        TokenKind::RParen => ")".into(),
        TokenKind::QMark => "?".into(),
        TokenKind::Plus => "+".into(),
        TokenKind::Star => "*".into(),
        TokenKind::EOI => "$".into(),
    }
}
/// `HopPatternParser::new(tokens).parse()` on tokens with spans (i, i+1)
fn impl_ptoks(kinds: &[TokenKind]) -> String {
    let toks: Vec<Token> = kinds.iter().enumerate().map(|(i, k)| Token { kind: k.clone(), span: (i, i + 1) }).collect();
    match catch(|| HopPatternParser::new(&toks).parse()) {
        Err(m) => format!("panic {m}"),
        Ok(Ok(p)) => format!("ok {p:?}"),
        Ok(Err(e)) => perr_line(&e, &toks),
    }
}
fn impl_lex(s: &str) -> Result<Vec<Token>, String> {
    catch(|| HopPatternLexer::new(s).tokenize())
}
fn lex_line(toks: &[Token]) -> String {
    toks.iter().map(|t| format!("{}:{}:{}", tok_enc(&t.kind), t.span.0, t.span.1)).collect::<Vec<_>>().join(" ")
}
fn impl_pred(s: &str) -> (String, Option<HopPredicate>) {
    match catch(|| s.parse::<HopPredicate>()) {
        Err(m) => (format!("panic {m}"), None),
        Ok(Ok(p)) => (format!("ok {p:?}"), Some(p)),
        Ok(Err(_)) => ("err".into(), None),
    }
}
fn acl_err_class(m: &str) -> &'static str {
    if m.starts_with("Invalid operator") {
        "invalid_operator"
    } else if m.starts_with("Wildcard hop predicate must be the last entry") {
        "wildcard_not_last"
    } else if m.starts_with("Missing default operator") {
        "missing_default"
    } else {
        "invalid_predicate"
    }
}
fn impl_acl(s: &str) -> (String, Option<AclPolicy>) {
    match catch(|| AclPolicy::parse(s)) {
        Err(m) => (format!("panic {m}"), None),
        Ok(Ok(a)) => (format!("ok {a:?}"), Some(a)),
        Ok(Err(e)) => (format!("err {}", acl_err_class(&e)), None),
    }
}
fn bits(v: &[Result<bool, String>]) -> String {
    v.iter().map(|r| match r { Ok(true) => '1', Ok(false) => '0', Err(_) => 'P' }).collect()
}
fn mk_acl(default_allow: bool, entries: &[(bool, Pred)]) -> AclPolicy {
    let op = |a: bool| if a { AclEntryOperator::Allow } else { AclEntryOperator::Deny };
    AclPolicy::new_from_entries(op(default_allow), entries.iter().map(|(a, p)| AclEntry::new(op(*a), p.to_impl())))
}
fn enc_entries(entries: &[(bool, Pred)]) -> String {
    if entries.is_empty() {
        "_".into()
    } else {
        entries.iter().map(|(a, p)| format!("{}{}", if *a { '+' } else { '-' }, p.enc())).collect::<Vec<_>>().join(";")
    }
}
fn acl_text(default_allow: bool, entries: &[(bool, Pred)]) -> String {
    let mut s = String::new();
    for (a, p) in entries {
        s.push_str(&format!("{} {} ", if *a { '+' } else { '-' }, p.text()));
    }
    s.push(if default_allow { '+' } else { '-' });
    s
}
fn mk_path(ifs: Option<Option<&[(u16, u64, u16)]>>) -> ScionPath {
    let ia = |i: u16, a: u64| IsdAsn::new(Isd(i), Asn(a));
    let (src, dst) = match ifs {
        Some(Some(l)) if !l.is_empty() => (ia(l[0].0, l[0].1), ia(l[l.len() - 1].0, l[l.len() - 1].1)),
        _ => (ia(1, 1), ia(1, 2)),
    };
    let meta = match ifs {
        None => None,
        Some(None) => {
            let mut m = PathMetadata::new_minimal(0, 0, vec![]);
            m.interfaces = None;
            Some(m)
        }
        Some(Some(l)) => Some(PathMetadata::new_minimal(0, 0, l.iter().map(|(i, a, id)| PathInterface::new(ia(*i, *a), *id)).collect())),
    };
    ScionPath::new(src, dst, ScionDpPathView::Empty, meta, None)
}
fn hops_err_class(m: &str) -> &'static str {
    match m {
        "Path has no metadata" => "no_metadata",
        "Path metadata has no interfaces" => "no_interfaces",
        "Path contains an odd number of hop interfaces" => "odd_interfaces",
        "Path contains a hop with interfaces in different Isd-Asn's" => "different_isd_asn",
        _ => "UNKNOWN",
    }
}
fn impl_hops_from(ifs: Option<Option<&[(u16, u64, u16)]>>) -> (String, Option<Vec<PathPolicyHop>>) {
    match catch(|| {
        let p = mk_path(ifs);
        PathPolicyHop::hops_from_path(&p)
    }) {
        Err(m) => (format!("panic {m}"), None),
        Ok(Err(e)) => (format!("err {}", hops_err_class(e)), None),
        Ok(Ok(hs)) => (
            format!(
                "ok {}",
                hs.iter().map(|h| format!("{}:{}:{}:{}", h.isd_asn.isd().0, h.isd_asn.asn().0, h.ingress, h.egress)).collect::<Vec<_>>().join(",")
            ),
            Some(hs),
        ),
    }
}

// ------------------------------------------------------------------------------------------------
// checks: implementation vs model (disagree) and implementation vs spec oracle (spec_fail)

struct Ctx {
    lean: Lean,
    rep: Report,
}
impl Ctx {
    fn compare(&mut self, stream: &str, req: &str, imp: &str) {
        let model = self.lean.ask(req);
        if self.lean.differs(&model, imp) {
            self.rep.disagree(stream, json!({"request": req}), imp, &model);
        }
    }
    fn panic_check(&mut self, what: &str, line: &str, case: serde_json::Value) {
        if line.contains("REPORT-PANIC") {
            self.rep.spec_fail("C16:parse-error-report:panic", &format!("ParseError::report panicked ({what}): {line}"), case);
        } else if line.starts_with("panic") || line.contains('P') && line.chars().all(|c| "01P".contains(c)) && !line.is_empty() {
            self.rep.spec_fail(&format!("C16:{what}:panic"), &format!("{what} panicked: {line}"), case);
        }
    }

    /// one pattern string × hop sequences: parse (Ok/Err + AST), match verdicts, language oracle
    fn pattern(&mut self, s: &str, expect: Option<&[Ast]>, hss: &[Vec<Hop>], stream: &str) {
        let (line, pol) = impl_parse(s);
        self.rep.hit(&format!("parse {}", head2(&line)));
        self.panic_check("parse", &line, json!({"pattern": s}));
        let line_cmp = line.split(" REPORT-PANIC").next().unwrap().to_string();
        self.compare(stream, &format!("parse {}", hexs(s)), &line_cmp);
        // spec: reference parser
        let mut reference = ref_parse(s);
        let too_deep = ref_too_deep(s).unwrap_or(false);
        let impl_too_deep = line_cmp.starts_with("err too_deep");
        if reference.is_some() && too_deep != impl_too_deep {
            self.rep.spec_fail(
                "C16:parse:depth-limit",
                "the parser must reject a pattern of the documented grammar with the depth error exactly when it is nested deeper than MAX_EXPRESSION_DEPTH",
                json!({"pattern": &s[..s.len().min(400)], "pattern_len": s.len(), "impl": &line_cmp[..line_cmp.len().min(200)], "beyond_documented_limit": too_deep, "line": format!("parse {}", hexs(s))}),
            );
        }
        if too_deep {
            self.rep.hit("parse: pattern beyond MAX_EXPRESSION_DEPTH");
            reference = None; // outside the accepted language
        }
        match (&reference, &pol) {
            (Some(es), Some(_)) => {
                if line_cmp != format!("ok {}", policy_debug(es)) {
                    self.rep.spec_fail("C16:parse:ast", "parsed AST differs from the reference parser's", json!({"pattern": s, "impl": line_cmp, "reference": policy_debug(es)}));
                }
            }
            (None, None) => {}
            (Some(_), None) => self.rep.spec_fail("C16:parse:rejects-valid", "implementation rejects a pattern of the documented grammar", json!({"pattern": s, "impl": line_cmp})),
            (None, Some(_)) => self.rep.spec_fail("C16:parse:accepts-invalid", "implementation accepts a string outside the documented grammar", json!({"pattern": s, "impl": line_cmp})),
        }
        if let (Some(exp), Some(es)) = (expect, &reference) {
            if exp != es.as_slice() {
                self.rep.spec_fail("C16:parens-ws", "a rendering with redundant parentheses / whitespace parses to a different AST", json!({"pattern": s, "expected": policy_debug(exp), "got": policy_debug(es)}));
            }
        } else if expect.is_some() && reference.is_none() && !too_deep {
            self.rep.notes.push(format!("harness self-check: rendering {s:?} rejected by the reference parser"));
        }
        let Some(pol) = pol else { return };
        if hss.is_empty() {
            return;
        }
        let verdicts: Vec<Result<bool, String>> = hss.iter().map(|hs| { let ih = impl_hops(hs); catch(|| pol.matches(&ih)) }).collect();
        let b = bits(&verdicts);
        self.panic_check("match", &b, json!({"pattern": s}));
        let req = format!("pmatch {} {}", hexs(s), hss.iter().map(|h| enc_hops(h)).collect::<Vec<_>>().join(" "));
        let model = self.lean.ask(&req);
        if self.lean.differs(&model, &b) {
            // report the first differing hop sequence only
            let i = model.chars().zip(b.chars()).position(|(a, c)| a != c).unwrap_or(0);
            let hs = hss.get(i).cloned().unwrap_or_default();
            self.rep.disagree(stream, json!({"pattern": s, "hops": enc_hops(&hs), "line": format!("pmatch {} {}", hexs(s), enc_hops(&hs))}), &b.chars().nth(i).map(String::from).unwrap_or(b.clone()), &model.chars().nth(i).map(String::from).unwrap_or(model.clone()));
        }
        let es = reference.or_else(|| expect.map(|e| e.to_vec()));
        let Some(es) = es else { return };
        let ops = es.iter().any(|e| e.has_operator());
        for (hs, v) in hss.iter().zip(&verdicts) {
            let o = lang_oracle(&es, hs);
            self.rep.case(&format!("P|{s}|{}", enc_hops(hs)), ops && !hs.is_empty());
            self.rep.hit(if o { "pattern verdict allow" } else { "pattern verdict deny" });
            if let Ok(v) = v {
                if *v != o {
                    let (s2, hs2) = shrink_pattern(&es, hs);
                    self.rep.spec_fail(
                        if *v { "C16:pattern:allows-outside-language" } else { "C16:pattern:rejects-member" },
                        "hop pattern verdict differs from membership in the denoted regular language",
                        json!({"pattern": s, "hops": enc_hops(hs), "impl": v, "language": o, "shrunk_pattern": s2, "shrunk_hops": enc_hops(&hs2), "line": format!("pmatch {} {}", hexs(&s2), enc_hops(&hs2))}),
                    );
                }
            }
        }
        self.rep.traces += 1;
    }

    /// structural ACL × hop sequences
    fn acl_struct(&mut self, default_allow: bool, entries: &[(bool, Pred)], hss: &[Vec<Hop>], stream: &str) {
        let acl = mk_acl(default_allow, entries);
        let verdicts: Vec<Result<bool, String>> = hss.iter().map(|hs| { let ih = impl_hops(hs); catch(|| acl.matches(&ih)) }).collect();
        let b = bits(&verdicts);
        self.panic_check("acl-match", &b, json!({"acl": acl_text(default_allow, entries)}));
        let req = format!("aclm {} {} {}", if default_allow { '+' } else { '-' }, enc_entries(entries), hss.iter().map(|h| enc_hops(h)).collect::<Vec<_>>().join(" "));
        let model = self.lean.ask(&req);
        if self.lean.differs(&model, &b) {
            let i = model.chars().zip(b.chars()).position(|(a, c)| a != c).unwrap_or(0);
            let hs = hss.get(i).cloned().unwrap_or_default();
            self.rep.disagree(stream, json!({"acl": acl_text(default_allow, entries), "hops": enc_hops(&hs), "line": format!("aclm {} {} {}", if default_allow { '+' } else { '-' }, enc_entries(entries), enc_hops(&hs))}), &b, &model);
        }
        for (hs, v) in hss.iter().zip(&verdicts) {
            let o = acl_oracle(default_allow, entries, hs);
            self.rep.case(&format!("A|{}|{}", acl_text(default_allow, entries), enc_hops(hs)), !entries.is_empty() && !hs.is_empty());
            self.rep.hit(if o { "acl verdict allow" } else { "acl verdict deny" });
            if let Ok(v) = v {
                if *v != o {
                    let key = if hs.is_empty() { "C16:acl:empty-path-default-deny" } else { "C16:acl:first-match" };
                    self.rep.spec_fail(key, "ACL verdict differs from first-match-per-hop semantics", json!({"acl": acl_text(default_allow, entries), "hops": enc_hops(hs), "impl": v, "spec": o, "line": format!("aclm {} {} {}", if default_allow { '+' } else { '-' }, enc_entries(entries), enc_hops(hs))}));
                }
            }
        }
        self.rep.traces += 1;
    }

    /// ACL string: parse result, and (if it parses) verdicts through the parsed policy
    fn acl_string(&mut self, s: &str, expect: Option<(bool, &[(bool, Pred)])>, hss: &[Vec<Hop>], stream: &str) {
        let (line, acl) = impl_acl(s);
        self.rep.hit(&format!("acl-parse {}", head2(&line)));
        self.panic_check("acl-parse", &line, json!({"acl": s}));
        self.compare(stream, &format!("acl {}", hexs(s)), &line);
        self.rep.case(&format!("AS|{s}"), s.split_whitespace().count() >= 3);
        if let Some((d, es)) = expect {
            let want = mk_acl(d, es);
            if acl.as_ref() != Some(&want) {
                self.rep.spec_fail("C16:acl-parse", "the documented text form of an ACL does not parse to that ACL", json!({"acl": s, "impl": line}));
            }
        }
        if let (Some(acl), false) = (acl, hss.is_empty()) {
            let verdicts: Vec<Result<bool, String>> = hss.iter().map(|hs| { let ih = impl_hops(hs); catch(|| acl.matches(&ih)) }).collect();
            let req = format!("aclmatch {} {}", hexs(s), hss.iter().map(|h| enc_hops(h)).collect::<Vec<_>>().join(" "));
            self.compare(stream, &req, &bits(&verdicts));
        }
    }

    fn pred_string(&mut self, s: &str, stream: &str) {
        let (line, _) = impl_pred(s);
        self.rep.hit(if line.starts_with("ok") { "pred-parse ok" } else { "pred-parse err" });
        self.panic_check("pred-parse", &line, json!({"pred": s}));
        self.compare(stream, &format!("pred {}", hexs(s)), &line);
        self.rep.case(&format!("PS|{s}"), s.contains('-'));
        // spec: reference predicate parser
        let r = ref_pred(s).map(|p| format!("ok {}", p.debug())).unwrap_or("err".into());
        if r != line && !line.starts_with("panic") {
            self.rep.spec_fail("C16:pred-parse", "hop predicate parse differs from the documented text form", json!({"pred": s, "impl": line, "reference": r}));
        }
    }

    /// predicate value: Display vs model, print/parse round trip, matching on a hop grid
    fn pred_value(&mut self, p: &Pred, hops: &[Hop], stream: &str) {
        let ip = p.to_impl();
        let shown = catch(|| ip.to_string()).unwrap_or_else(|m| format!("panic {m}"));
        self.compare(stream, &format!("show {}", p.enc()), &hexs(&shown));
        let back = impl_pred(&shown).1;
        self.rep.case(&format!("PV|{}", p.enc()), p.asn.is_some());
        if back != Some(ip) {
            let key = if p.asn.is_none() && p.ifs != Ifs::Any { "C16:pred-roundtrip:no-asn-with-interfaces" } else { "C16:pred-roundtrip" };
            self.rep.spec_fail(key, "a hop predicate does not survive printing and re-parsing", json!({"pred": p.enc(), "printed": shown, "reparsed": format!("{back:?}")}));
        }
        if !hops.is_empty() {
            let v: Vec<Result<bool, String>> = hops.iter().map(|h| { let ih = h.to_impl(); catch(|| ih.matches(&ip)) }).collect();
            self.compare(stream, &format!("pm {} {}", p.enc(), hops.iter().map(|h| h.enc()).collect::<Vec<_>>().join(" ")), &bits(&v));
            for (h, r) in hops.iter().zip(&v) {
                if *r != Ok(p.sat(h)) {
                    self.rep.spec_fail("C16:pred-match", "hop predicate match differs from the documented wildcard / Either / Both semantics", json!({"pred": p.enc(), "hop": h.enc(), "impl": format!("{r:?}")}));
                }
            }
        }
    }

    fn lexer(&mut self, s: &str, stream: &str) {
        match impl_lex(s) {
            Err(m) => self.rep.spec_fail("C16:lex:panic", &format!("lexer panicked: {m}"), json!({"input": s})),
            Ok(toks) => {
                self.compare(stream, &format!("lex {}", hexs(s)), &lex_line(&toks));
                self.rep.case(&format!("L|{s}"), toks.len() > 2);
                // spec: spans slice the input to the token text; tokens in order; only skipped whitespace is lost
                let mut pos = 0usize;
                let mut ok = toks.last().map(|t| t.kind == TokenKind::EOI && t.span == (s.len(), s.len())).unwrap_or(false);
                for t in &toks[..toks.len().saturating_sub(1)] {
                    let (lo, hi) = t.span;
                    let text = s.get(lo..hi);
                    let gap_ok = lo >= pos && s.get(pos..lo).map(|g| g.chars().all(|c| c.is_whitespace())).unwrap_or(false);
                    let text_ok = match (&t.kind, text) {
                        (TokenKind::HopPredicate(p), Some(x)) => p == x && !x.is_empty(),
                        (k, Some(x)) => tok_enc(k) == x,
                        _ => false,
                    };
                    ok &= gap_ok && text_ok;
                    pos = hi;
                }
                ok &= s.get(pos..).map(|g| g.chars().all(|c| c.is_whitespace())).unwrap_or(false);
                if !ok {
                    self.rep.spec_fail("C16:lex:spans", "token spans do not tile the input (up to skipped whitespace)", json!({"input": s, "tokens": lex_line(&toks)}));
                }
            }
        }
    }

    fn ptoks(&mut self, kinds: &[TokenKind], stream: &str) {
        let line = impl_ptoks(kinds);
        self.rep.hit(&format!("ptoks {}", head2(&line)));
        self.panic_check("parse-tokens", &line, json!({"tokens": kinds.iter().map(tok_enc).collect::<Vec<_>>()}));
        let req = format!("ptoks {}", kinds.iter().map(tok_enc).collect::<Vec<_>>().join(" "));
        self.compare(stream, req.trim_end(), &line);
        self.rep.case(&req, kinds.len() >= 3);
    }

    fn hops_from(&mut self, ifs: Option<Option<&[(u16, u64, u16)]>>, stream: &str) {
        let (line, hs) = impl_hops_from(ifs);
        self.rep.hit(&format!("hops_from_path {}", head2(&line)));
        self.panic_check("hops_from_path", &line, json!({"interfaces": format!("{ifs:?}")}));
        let arg = match ifs {
            None => "nometa".to_string(),
            Some(None) => "noifs".to_string(),
            Some(Some(l)) if l.is_empty() => "-".to_string(),
            Some(Some(l)) => l.iter().map(|(i, a, d)| format!("{i}:{a}:{d}")).collect::<Vec<_>>().join(","),
        };
        self.compare(stream, &format!("hops {arg}"), &line);
        self.rep.case(&format!("H|{arg}"), matches!(ifs, Some(Some(l)) if l.len() >= 2));
        // spec: n interfaces (n even, ≥ 2) -> n/2 + 1 hops, first ingress 0, last egress 0, interfaces in order
        if let (Some(hs), Some(Some(l))) = (hs, ifs) {
            let mut flat = vec![];
            for h in &hs {
                flat.push((h.isd_asn, h.ingress));
                flat.push((h.isd_asn, h.egress));
            }
            let want: Vec<(IsdAsn, u16)> = l.iter().map(|(i, a, d)| (IsdAsn::new(Isd(*i), Asn(*a)), *d)).collect();
            let ok = l.len() % 2 == 0 && hs.len() == l.len() / 2 + 1 && flat.len() >= 2 && flat[0].1 == 0 && flat[flat.len() - 1].1 == 0 && flat[1..flat.len() - 1] == want[..];
            if !ok {
                self.rep.spec_fail("C16:hops-from-path", "hops_from_path does not pair the interfaces of a path into hops", json!({"interfaces": arg, "impl": line}));
            }
        }
    }
}

/// shrink a failing (policy, hops) pair against the language oracle and the implementation
fn shrink_pattern(es: &[Ast], hs: &[Hop]) -> (String, Vec<Hop>) {
    let fails = |es: &[Ast], hs: &[Hop]| -> bool {
        let s = render_policy(es, &mut None);
        match HopPatternPolicy::parse(&s) {
            Ok(p) => {
                let ih = impl_hops(hs);
                catch(|| p.matches(&ih)).map(|v| v != lang_oracle(es, hs)).unwrap_or(true)
            }
            Err(_) => false,
        }
    };
    let mut es = es.to_vec();
    let mut hs = hs.to_vec();
    if !fails(&es, &hs) {
        return (render_policy(&es, &mut None), hs);
    }
    let mut progress = true;
    while progress {
        progress = false;
        for i in 0..hs.len() {
            let mut h2 = hs.clone();
            h2.remove(i);
            if fails(&es, &h2) {
                hs = h2;
                progress = true;
                break;
            }
        }
        if progress {
            continue;
        }
        for i in 0..es.len() {
            if es.len() > 1 {
                let mut e2 = es.clone();
                e2.remove(i);
                if fails(&e2, &hs) {
                    es = e2;
                    progress = true;
                    break;
                }
            }
            let subs: Vec<Ast> = match &es[i] {
                Ast::P(_) => vec![],
                Ast::Or(a, b) => vec![(**a).clone(), (**b).clone()],
                Ast::Opt(a) | Ast::Plus(a) | Ast::Star(a) => vec![(**a).clone()],
            };
            for sub in subs {
                let mut e2 = es.clone();
                e2[i] = sub;
                if fails(&e2, &hs) {
                    es = e2;
                    progress = true;
                    break;
                }
            }
            if progress {
                break;
            }
        }
    }
    (render_policy(&es, &mut None), hs)
}

// ------------------------------------------------------------------------------------------------
// generators

const AS1: u64 = 0xff00_0000_0001;
const AS2: u64 = 0xff00_0000_0002;
const AS3: u64 = 0xff00_0000_0003;

/// the 6-predicate alphabet: wildcards in ISD, AS, one or both interfaces
fn preds6() -> Vec<Pred> {
    vec![
        Pred { isd: 0, asn: None, ifs: Ifs::Any },
        Pred { isd: 1, asn: None, ifs: Ifs::Any },
        Pred { isd: 1, asn: Some(AS1), ifs: Ifs::Any },
        Pred { isd: 1, asn: Some(0), ifs: Ifs::Either(1) },
        Pred { isd: 0, asn: Some(0), ifs: Ifs::Both(1, 2) },
        Pred { isd: 2, asn: Some(0), ifs: Ifs::Both(0, 2) },
    ]
}
/// hop alphabet: first-hop shape (ingress 0), transit hops, last-hop shape (egress 0), a hop with wildcard ISD-AS
fn hops5() -> Vec<Hop> {
    vec![
        Hop { isd: 1, asn: AS1, ing: 0, eg: 1 },
        Hop { isd: 1, asn: AS2, ing: 1, eg: 2 },
        Hop { isd: 2, asn: AS2, ing: 2, eg: 1 },
        Hop { isd: 2, asn: AS3, ing: 2, eg: 0 },
        Hop { isd: 0, asn: 0, ing: 5, eg: 5 },
    ]
}
fn all_asts(preds: &[Pred], depth: usize) -> Vec<Ast> {
    let atoms: Vec<Ast> = preds.iter().map(|p| Ast::P(*p)).collect();
    if depth == 0 {
        return atoms;
    }
    let sub = all_asts(preds, depth - 1);
    let mut out = atoms;
    for a in &sub {
        out.push(Ast::Opt(Box::new(a.clone())));
        out.push(Ast::Plus(Box::new(a.clone())));
        out.push(Ast::Star(Box::new(a.clone())));
    }
    for a in &sub {
        for b in &sub {
            out.push(Ast::Or(Box::new(a.clone()), Box::new(b.clone())));
        }
    }
    out
}
fn all_seqs<T: Clone>(alphabet: &[T], max_len: usize) -> Vec<Vec<T>> {
    let mut out = vec![vec![]];
    let mut layer: Vec<Vec<T>> = vec![vec![]];
    for _ in 0..max_len {
        let mut next = vec![];
        for s in &layer {
            for a in alphabet {
                let mut t = s.clone();
                t.push(a.clone());
                next.push(t);
            }
        }
        out.extend(next.iter().cloned());
        layer = next;
    }
    out
}
fn rand_u16(rng: &mut Rng) -> u16 {
    *rng.pick(&[0u16, 0, 1, 1, 2, 3, 5, 9, 10, 255, 256, 65534, 65535])
}
fn rand_asn(rng: &mut Rng) -> u64 {
    match rng.below(8) {
        0 => 0,
        1 => 1,
        2 => u32::MAX as u64,
        3 => u32::MAX as u64 + 1,
        4 => (1u64 << 48) - 1,
        5 => AS1,
        6 => rng.below(1 << 32),
        _ => rng.below(1 << 48),
    }
}
fn rand_pred(rng: &mut Rng, parser_image: bool) -> Pred {
    let isd = if rng.chance(1, 2) { rng.below(4) as u16 } else { rand_u16(rng) };
    let asn = if rng.chance(1, 4) { None } else { Some(if rng.chance(1, 2) { *rng.pick(&[0, AS1, AS2, AS3, 1, 2]) } else { rand_asn(rng) }) };
    let small = |rng: &mut Rng| if rng.chance(3, 4) { rng.below(4) as u16 } else { rand_u16(rng) };
    let ifs = match rng.below(3) {
        0 => Ifs::Any,
        1 => Ifs::Either(small(rng)),
        _ => Ifs::Both(small(rng), small(rng)),
    };
    let ifs = if parser_image && asn.is_none() { Ifs::Any } else { ifs };
    Pred { isd, asn, ifs }
}
fn rand_hop(rng: &mut Rng) -> Hop {
    Hop {
        isd: rng.below(4) as u16,
        asn: *rng.pick(&[0, AS1, AS2, AS3, 1, 2]),
        ing: rng.below(4) as u16,
        eg: rng.below(4) as u16,
    }
}
/// a hop that satisfies `p` (when one exists in the small value space)
fn hop_for(p: &Pred, rng: &mut Rng) -> Hop {
    let mut h = rand_hop(rng);
    if p.isd != 0 {
        h.isd = p.isd;
    }
    if let Some(a) = p.asn {
        if a != 0 {
            h.asn = a;
        }
    }
    match p.ifs {
        Ifs::Any => {}
        Ifs::Either(a) => {
            if a != 0 {
                if rng.chance(1, 2) { h.ing = a } else { h.eg = a }
            }
        }
        Ifs::Both(a, b) => {
            if a != 0 {
                h.ing = a;
            }
            if b != 0 {
                h.eg = b;
            }
        }
    }
    h
}
fn rand_ast(rng: &mut Rng, depth: usize, pool: &[Pred]) -> Ast {
    if depth == 0 || rng.chance(1, 4) {
        return Ast::P(*rng.pick(pool));
    }
    match rng.below(5) {
        0 | 1 => Ast::Or(Box::new(rand_ast(rng, depth - 1, pool)), Box::new(rand_ast(rng, depth - 1, pool))),
        2 => Ast::Opt(Box::new(rand_ast(rng, depth - 1, pool))),
        3 => Ast::Plus(Box::new(rand_ast(rng, depth - 1, pool))),
        _ => Ast::Star(Box::new(rand_ast(rng, depth - 1, pool))),
    }
}
/// a random member of L(e) (bounded repetition)
fn sample_word(e: &Ast, rng: &mut Rng, out: &mut Vec<Hop>) {
    match e {
        Ast::P(p) => out.push(hop_for(p, rng)),
        Ast::Or(a, b) => sample_word(if rng.chance(1, 2) { a } else { b }, rng, out),
        Ast::Opt(a) => {
            if rng.chance(1, 2) {
                sample_word(a, rng, out)
            }
        }
        Ast::Plus(a) => {
            for _ in 0..rng.range(1, 3) {
                sample_word(a, rng, out)
            }
        }
        Ast::Star(a) => {
            for _ in 0..rng.below(3) {
                sample_word(a, rng, out)
            }
        }
    }
}
fn mutate_hops(hs: &mut Vec<Hop>, rng: &mut Rng) {
    match rng.below(4) {
        0 if !hs.is_empty() => {
            let i = rng.below(hs.len() as u64) as usize;
            hs.remove(i);
        }
        1 => {
            let i = rng.below(hs.len() as u64 + 1) as usize;
            hs.insert(i, rand_hop(rng));
        }
        2 if !hs.is_empty() => {
            let i = rng.below(hs.len() as u64) as usize;
            hs[i] = rand_hop(rng);
        }
        _ => {}
    }
}
fn rand_pred_string(rng: &mut Rng) -> String {
    let num = |rng: &mut Rng| -> String {
        match rng.below(12) {
            0 => "0".into(),
            1 => "65535".into(),
            2 => "65536".into(),
            3 => "+7".into(),
            4 => "007".into(),
            5 => "".into(),
            6 => "-1".into(),
            7 => "4294967295".into(),
            8 => "4294967296".into(),
            9 => "18446744073709551616".into(),
            10 => "٣".into(),
            _ => rng.below(70000).to_string(),
        }
    };
    let asn = |rng: &mut Rng| -> String {
        match rng.below(10) {
            0 => "ff00:0:110".into(),
            1 => "FF00:0:1".into(),
            2 => "ffff:ffff:ffff".into(),
            3 => "1:2".into(),
            4 => "1:2:3:4".into(),
            5 => "10000:0:0".into(),
            6 => "+f:0:00001".into(),
            7 => ":0:1".into(),
            8 => format!("{:x}:{:x}:{:x}", rng.below(70000), rng.below(70000), rng.below(70000)),
            _ => num(rng),
        }
    };
    let mut s = num(rng);
    if rng.chance(3, 4) {
        s.push('-');
        s.push_str(&asn(rng));
        if rng.chance(2, 3) {
            s.push('#');
            s.push_str(&num(rng));
            if rng.chance(1, 2) {
                s.push(',');
                s.push_str(&num(rng));
                if rng.chance(1, 10) {
                    s.push_str(",1");
                }
            }
        }
    }
    // character-level mutation
    if rng.chance(1, 6) && !s.is_empty() {
        let mut cs: Vec<char> = s.chars().collect();
        let i = rng.below(cs.len() as u64) as usize;
        match rng.below(3) {
            0 => {
                cs.remove(i);
            }
            1 => cs.insert(i, *rng.pick(&['-', '#', ',', ':', '+', ' ', 'x', '0', 'g'])),
            _ => cs[i] = *rng.pick(&['-', '#', ',', ':', '+', 'a', '9']),
        }
        s = cs.into_iter().collect();
    }
    s
}
fn rand_lex_string(rng: &mut Rng) -> String {
    let n = rng.below(14);
    (0..n)
        .map(|_| *rng.pick(&['1', '2', '-', '#', ',', 'f', ':', ' ', ' ', '\t', '\n', '\r', '\u{a0}', '\u{2003}', '\u{0b}', 'é', '€', '𝄞', '!', '&', '|', '(', ')', '?', '+', '*']))
        .collect()
}

// ------------------------------------------------------------------------------------------------
// corpus / replay lines (= driver request syntax): pmatch | parse | aclm | acl | aclmatch | pred | lex | predval

fn dec_str(h: &str) -> Option<String> {
    String::from_utf8(unhex(h)?).ok()
}
fn dec_hop(s: &str) -> Option<Hop> {
    let v: Vec<&str> = s.split(':').collect();
    if v.len() != 4 {
        return None;
    }
    Some(Hop { isd: v[0].parse().ok()?, asn: v[1].parse().ok()?, ing: v[2].parse().ok()?, eg: v[3].parse().ok()? })
}
fn dec_hops(s: &str) -> Option<Vec<Hop>> {
    if s == "-" { Some(vec![]) } else { s.split(',').map(dec_hop).collect() }
}
fn dec_pred(s: &str) -> Option<Pred> {
    let v: Vec<&str> = s.split('/').collect();
    if v.len() != 3 {
        return None;
    }
    let ifs = if v[2] == "a" {
        Ifs::Any
    } else if let Some(r) = v[2].strip_prefix('e') {
        Ifs::Either(r.parse().ok()?)
    } else if let Some(r) = v[2].strip_prefix('b') {
        let (a, b) = r.split_once(',')?;
        Ifs::Both(a.parse().ok()?, b.parse().ok()?)
    } else {
        return None;
    };
    Some(Pred { isd: v[0].parse().ok()?, asn: if v[1] == "n" { None } else { Some(v[1].parse().ok()?) }, ifs })
}
fn dec_entries(s: &str) -> Option<Vec<(bool, Pred)>> {
    if s == "_" {
        return Some(vec![]);
    }
    s.split(';')
        .map(|e| {
            let (op, p) = e.split_at(1);
            Some((match op { "+" => true, "-" => false, _ => return None }, dec_pred(p)?))
        })
        .collect()
}
fn replay_line(cx: &mut Ctx, l: &str) -> bool {
    let w: Vec<&str> = l.split_whitespace().collect();
    let hss = |from: usize| -> Option<Vec<Vec<Hop>>> { w[from..].iter().map(|x| dec_hops(x)).collect() };
    match w.first().copied() {
        Some("pmatch") if w.len() >= 2 => match (dec_str(w[1]), hss(2)) {
            (Some(s), Some(h)) => cx.pattern(&s, None, &h, "corpus"),
            _ => return false,
        },
        Some("parse") if w.len() == 2 => match dec_str(w[1]) {
            Some(s) => cx.pattern(&s, None, &[], "corpus"),
            None => return false,
        },
        Some("aclm") if w.len() >= 3 => match (w[1], dec_entries(w[2]), hss(3)) {
            (d @ ("+" | "-"), Some(es), Some(h)) => cx.acl_struct(d == "+", &es, &h, "corpus"),
            _ => return false,
        },
        Some("acl") if w.len() == 2 => match dec_str(w[1]) {
            Some(s) => cx.acl_string(&s, None, &[], "corpus"),
            None => return false,
        },
        Some("aclmatch") if w.len() >= 2 => match (dec_str(w[1]), hss(2)) {
            (Some(s), Some(h)) => cx.acl_string(&s, None, &h, "corpus"),
            _ => return false,
        },
        Some("pred") if w.len() == 2 => match dec_str(w[1]) {
            Some(s) => cx.pred_string(&s, "corpus"),
            None => return false,
        },
        Some("lex") if w.len() == 2 => match dec_str(w[1]) {
            Some(s) => cx.lexer(&s, "corpus"),
            None => return false,
        },
        Some("predval") if w.len() == 2 => match dec_pred(w[1]) {
            Some(p) => cx.pred_value(&p, &hops5(), "corpus"),
            None => return false,
        },
        _ => return false,
    }
    true
}

// ------------------------------------------------------------------------------------------------

fn sample_of<T: Clone>(rng: &mut Rng, xs: &[T], n: usize) -> Vec<T> {
    if xs.len() <= n {
        return xs.to_vec();
    }
    (0..n).map(|_| rng.pick(xs).clone()).collect()
}

/// Pattern strings of size `n` for every way a pattern text can make the parser recurse or the AST deep.
const PROBE_SHAPES: [&str; 6] = ["parens", "parens-plus", "or-left", "or-right", "juxt", "qmark-chain"];
fn probe_pattern(shape: &str, n: usize) -> String {
    match shape {
        // parser recursion n, AST depth 1
        "parens" => format!("{}1{}", "(".repeat(n), ")".repeat(n)),
        // parser recursion n, AST depth n+1
        "parens-plus" => format!("{}1{}", "(".repeat(n), ")+".repeat(n)),
        // parser recursion 2 (iterative infix loop), AST left-nested to depth n+1
        "or-left" => format!("1{}", "|1".repeat(n)),
        // parser recursion 2n, AST right-nested to depth n+1
        "or-right" => format!("{}1{}", "1|(".repeat(n), ")".repeat(n)),
        // no recursion: n top-level expressions
        "juxt" => "1 ".repeat(n),
        // parser recursion 1 (iterative postfix loop), AST depth n+1
        "qmark-chain" => format!("1{}", "?".repeat(n)),
        // (chains of `*` / `+` have the same shape but exponential / quadratic matching cost, see the timing probe)
        "star-chain" => format!("1{}", "*".repeat(n)),
        _ => String::new(),
    }
}

fn main() {
    let args = Args::parse();
    if let Some(spec) = args.extra.get("probe") {
        // child mode (a stack overflow aborts the process and cannot be caught): `--probe shape:n[:stack_bytes]`
        // parses, matches (against the empty path and a one-hop path), clones and drops the pattern of that
        // shape and size on a thread with the given stack (default 2 MiB = std's / tokio's default for spawned
        // threads); prints one line per completed stage.
        let w: Vec<&str> = spec.split(':').collect();
        let n: usize = w.get(1).and_then(|s| s.parse().ok()).unwrap_or(0);
        let stack: usize = w.get(2).and_then(|s| s.parse().ok()).unwrap_or(2 << 20);
        let s = probe_pattern(w[0], n);
        let r = std::thread::Builder::new()
            .stack_size(stack)
            .spawn(move || {
                use std::io::Write;
                let say = |m: &str| {
                    println!("{m}");
                    let _ = std::io::stdout().flush();
                };
                let p = HopPatternPolicy::parse(&s);
                say(if p.is_ok() { "parsed ok" } else { "parsed err" });
                if let Ok(p) = p {
                    let a = p.matches(&[]);
                    let b = p.matches(&[Hop { isd: 1, asn: 1, ing: 0, eg: 0 }.to_impl()]);
                    say(&format!("matched {a} {b}"));
                    let q = p.clone();
                    say(&format!("cloned {}", q == p));
                    drop(q);
                    drop(p);
                    say("dropped");
                }
            })
            .map(|h| h.join());
        std::process::exit(if matches!(r, Ok(Ok(()))) { 0 } else { 3 });
    }
    quiet_panics();
    let mut rng = Rng::new(args.seed);
    let thorough = args.thorough();
    let mut cx = Ctx {
        lean: Lean::spawn(&args.driver),
        rep: Report::new(
            "C16",
            "case = one verdict / parse result compared between the real code, the Lean model and the spec oracle: \
             (ACL, hop sequence), (hop pattern string, hop sequence), a pattern / ACL / predicate string for the parsers, \
             a predicate value for print+re-parse+match, a string for the lexer, an interface list for hops_from_path. \
             Non-trivial = the policy has at least one operator / ACL entry and the hop sequence is non-empty (match cases), \
             the string has at least 3 tokens / words (parser, lexer cases), the predicate has an AS part (predicate cases); \
             distinct by hash of (policy text, hop sequence) resp. the input string",
        ),
    };

    // ---- corpus / replay -------------------------------------------------------------------------
    if let Some(p) = &args.replay {
        let txt = std::fs::read_to_string(p).expect("replay file");
        // accept a corpus-format file or a bin/check replay json (the `line` of each case)
        let mut lines: Vec<String> = vec![];
        if let Ok(v) = serde_json::from_str::<serde_json::Value>(&txt) {
            fn walk(v: &serde_json::Value, out: &mut Vec<String>) {
                match v {
                    serde_json::Value::Object(m) => {
                        for (k, x) in m {
                            if k == "line" || k == "request" {
                                if let Some(s) = x.as_str() {
                                    out.push(s.to_string());
                                }
                            } else {
                                walk(x, out);
                            }
                        }
                    }
                    serde_json::Value::Array(a) => a.iter().for_each(|x| walk(x, out)),
                    _ => {}
                }
            }
            walk(&v, &mut lines);
        } else {
            lines = txt.lines().map(|l| l.trim().to_string()).filter(|l| !l.is_empty() && !l.starts_with('#')).collect();
        }
        for l in lines {
            if !replay_line(&mut cx, &l) {
                cx.rep.notes.push(format!("unparseable replay line: {l}"));
            }
        }
        cx.rep.write(&args.out);
        std::process::exit(if cx.rep.ok() { 0 } else { 1 });
    }
    let corpus = read_corpus(&args.corpus);
    for l in &corpus {
        if !replay_line(&mut cx, l) {
            cx.rep.notes.push(format!("unparseable corpus line: {}", &l[..l.len().min(60)]));
        }
    }
    cx.rep.hit_n("corpus lines", corpus.len() as u64);

    // ---- 0. translator sanity: Rust's char::is_whitespace vs the model's table -------------------
    {
        let imp: Vec<String> = (0u32..0x110000).filter_map(char::from_u32).filter(|c| c.is_whitespace()).map(|c| (c as u32).to_string()).collect();
        cx.compare("whitespace-table", "ws", &imp.join(" "));
    }

    let p6 = preds6();
    let h5 = hops5();

    // ---- 1. witnesses of the recorded findings, replayed on the real code on every run -----------
    {
        // §9 row 13: "+ 1-ff00:0:110 -" with the empty path
        let es = [(true, Pred { isd: 1, asn: Some(0xff00_0000_0110), ifs: Ifs::Any })];
        cx.acl_struct(false, &es, &[vec![]], "witness");
        cx.acl_string("+ 1-ff00:0:110 -", Some((false, &es)), &[vec![]], "witness");
        // a predicate without AS but with interfaces prints as "1#3", which does not parse
        cx.pred_value(&Pred { isd: 1, asn: None, ifs: Ifs::Either(3) }, &h5, "witness");
    }

    // ---- 2. hop predicates -------------------------------------------------------------------------
    for p in &p6 {
        cx.pred_value(p, &h5, "pred-alphabet");
    }
    let grid: Vec<Hop> = {
        let mut g = h5.clone();
        for _ in 0..8 {
            g.push(rand_hop(&mut rng));
        }
        g
    };
    for i in 0..args.scale(1500, 40000) {
        let p = rand_pred(&mut rng, true);
        let mut hs = grid.clone();
        hs.push(hop_for(&p, &mut rng));
        cx.pred_value(&p, &hs, "pred-value");
        if i < 3 {
            cx.rep.sample(json!({"predicate": p.text(), "hops": enc_hops(&hs[..3])}));
        }
    }
    for _ in 0..args.scale(3000, 100000) {
        let s = rand_pred_string(&mut rng);
        cx.pred_string(&s, "pred-string");
    }

    // ---- 3. lexer --------------------------------------------------------------------------------
    for _ in 0..args.scale(2500, 60000) {
        let s = rand_lex_string(&mut rng);
        cx.lexer(&s, "lexer");
    }

    // ---- 3b. ParseError::report on inputs with multi-byte characters around the error ---------------
    for _ in 0..args.scale(600, 20000) {
        let pre = rng.below(30) as usize;
        let post = rng.below(30) as usize;
        let filler = |rng: &mut Rng, n: usize| -> String { (0..n).map(|_| *rng.pick(&[' ', ' ', '1', ' ', '\t'])).collect() };
        let bad = *rng.pick(&["&", "!", ")", "x", "1-é", "(", "| |", "1 ) 2"]);
        let tail = *rng.pick(&["é", "€", "𝄞", "éé€", ""]);
        let s = format!("{}{}{}{}", filler(&mut rng, pre), bad, filler(&mut rng, post), tail);
        cx.pattern(&s, None, &[], "parse-error-report");
    }

    // ---- 4. parser: all token strings up to N tokens -----------------------------------------------
    {
        let alphabet: Vec<&str> = vec!["1", "2-0#1", "x", "!", "&", "|", "(", ")", "?", "+", "*"];
        let n = match args.extra.get("parse-len").and_then(|s| s.parse().ok()) {
            Some(n) => n,
            None => args.scale(4, 6),
        };
        let mut idx = vec![0usize; 0];
        // odometer over lengths 0..=n
        let mut count = 0u64;
        for len in 0..=n {
            idx.clear();
            idx.resize(len, 0);
            loop {
                let s: String = idx.iter().map(|&i| alphabet[i]).collect::<Vec<_>>().join(" ");
                cx.pattern(&s, None, &[], "parser-exhaustive");
                cx.rep.case(&format!("T|{s}"), len >= 3);
                count += 1;
                let mut k = len;
                loop {
                    if k == 0 {
                        break;
                    }
                    k -= 1;
                    idx[k] += 1;
                    if idx[k] < alphabet.len() {
                        break;
                    }
                    idx[k] = 0;
                    if k == 0 {
                        k = usize::MAX;
                        break;
                    }
                }
                if len == 0 || k == usize::MAX {
                    break;
                }
            }
        }
        cx.rep.hit_n(&format!("parser: all strings of <= {n} tokens over 11 symbols"), count);
        if thorough {
            let small: Vec<&str> = vec!["1", "&", "|", "(", ")", "?", "+", "*"];
            let mut c7 = 0u64;
            for seq in all_seqs(&small, 7).into_iter().filter(|q| q.len() == 7) {
                let s7 = seq.join(" ");
                cx.pattern(&s7, None, &[], "parser-exhaustive-7");
                cx.rep.case(&format!("T|{s7}"), true);
                c7 += 1;
            }
            cx.rep.hit_n("parser: all strings of exactly 7 tokens over 8 symbols", c7);
        }
        // token level (spans (i,i+1)), with EOI anywhere / missing
        let kinds = [
            TokenKind::HopPredicate("1".into()),
            TokenKind::HopPredicate("x".into()),
            TokenKind::Bang,
            TokenKind::And,
            TokenKind::Or,
            TokenKind::LParen,
            TokenKind::RParen,
            TokenKind::QMark,
            TokenKind::Plus,
            TokenKind::Star,
            TokenKind::EOI,
        ];
        for seq in all_seqs(&kinds, args.scale(3, 4)) {
            cx.ptoks(&seq, "parser-token-level");
        }
        for _ in 0..args.scale(1500, 30000) {
            let len = rng.range(4, 9) as usize;
            let seq: Vec<TokenKind> = (0..len).map(|_| rng.pick(&kinds).clone()).collect();
            cx.ptoks(&seq, "parser-token-level");
        }
    }

    // ---- 5. ACLs ---------------------------------------------------------------------------------
    {
        let entry_alphabet: Vec<(bool, Pred)> = p6.iter().flat_map(|p| [(true, *p), (false, *p)]).collect();
        let acls = all_seqs(&entry_alphabet, 3);
        let seqs_small = all_seqs(&h5, args.scale(2, 4));
        let seqs_mid = all_seqs(&h5, args.scale(3, 4));
        let mut n = 0u64;
        for es in &acls {
            let full = es.len() <= 2 || thorough;
            if !full && !rng.chance(1, 6) {
                continue;
            }
            let hss = if es.len() <= 2 { &seqs_mid } else { &seqs_small };
            for d in [true, false] {
                for chunk in hss.chunks(400) {
                    cx.acl_struct(d, es, chunk, "acl-exhaustive");
                }
                n += 1;
            }
        }
        cx.rep.hit_n("acl: structural ACLs evaluated (<=3 entries over 6 predicates x 2 operators x 2 defaults)", n);
        if thorough {
            cx.rep.exhaustive = true;
        }
        // text form + larger random ACLs
        for i in 0..args.scale(1500, 40000) {
            let k = rng.below(6) as usize;
            let es: Vec<(bool, Pred)> = (0..k)
                .map(|_| {
                    let mut p = rand_pred(&mut rng, true);
                    if p.to_impl().is_wildcard() {
                        p.isd = 1;
                    }
                    (rng.chance(1, 2), p)
                })
                .collect();
            let d = rng.chance(1, 2);
            let hss: Vec<Vec<Hop>> = (0..6)
                .map(|_| {
                    let n = rng.below(7) as usize;
                    (0..n).map(|_| if es.is_empty() || rng.chance(1, 3) { rand_hop(&mut rng) } else { let p = rng.pick(&es).1; hop_for(&p, &mut rng) }).collect()
                })
                .collect();
            cx.acl_struct(d, &es, &hss, "acl-random");
            let mut s = acl_text(d, &es);
            if rng.chance(1, 3) {
                s = s.replace(' ', *rng.pick(&["  ", "\t", "\n ", "\u{a0}", "\r\n"]));
            }
            cx.acl_string(&s, Some((d, &es)), &hss, "acl-text");
            if i < 2 {
                cx.rep.sample(json!({"acl": s, "hops": hss.iter().map(|h| enc_hops(h)).collect::<Vec<_>>()}));
            }
            // malformed: drop / duplicate / replace a word, or a wildcard in the middle
            let mut words: Vec<String> = s.split_whitespace().map(String::from).collect();
            match rng.below(5) {
                0 if !words.is_empty() => {
                    let j = rng.below(words.len() as u64) as usize;
                    words.remove(j);
                }
                1 => {
                    let j = rng.below(words.len() as u64 + 1) as usize;
                    words.insert(j, rng.pick(&["+", "-", "0", "0-0", "0-0#0", "0-0#0,0", "1", "x", "+-", "0-0#0,1"]).to_string());
                }
                2 if !words.is_empty() => {
                    let j = rng.below(words.len() as u64) as usize;
                    words[j] = rng.pick(&["+", "-", "0", "0-0#0", "1-1", "*", ""]).to_string();
                }
                3 => words.clear(),
                _ => {}
            }
            cx.acl_string(&words.join(" "), None, &hss[..2], "acl-malformed");
        }
    }

    // ---- 6. hop patterns ---------------------------------------------------------------------------
    {
        let p2 = vec![p6[1], p6[5]]; // "1" and "2-0#0,2"
        let h3 = vec![h5[0], h5[2], h5[4]];
        let seqs3_5 = all_seqs(&h3, 5);
        // the property's quantifier: hop sequences up to length 6 (thorough tier)
        let seqs3_6 = if thorough { all_seqs(&h3, 6) } else { vec![] };
        let seqs3_4 = all_seqs(&h3, 4);
        let seqs5_3 = all_seqs(&h5, 3);
        let seqs5_4 = all_seqs(&h5, 4);
        // E1: depth <= 2 over 2 predicates x all hop sequences <= 5 over 3 hops
        let d2 = all_asts(&p2, 2);
        for e in &d2 {
            let s = render_policy(std::slice::from_ref(e), &mut None);
            for chunk in (if thorough { &seqs3_6 } else { &seqs3_5 }).chunks(400) {
                cx.pattern(&s, Some(std::slice::from_ref(e)), chunk, "pattern-exhaustive-d2");
            }
        }
        cx.rep.hit_n(&format!("pattern: expressions of depth <= 2 over 2 predicates (all) x all hop sequences <= {} over 3 hops", if thorough { 6 } else { 5 }), d2.len() as u64);
        // E2: depth 3 over 2 predicates
        let d3 = all_asts(&p2, 3);
        let d3s = if thorough { d3.clone() } else { sample_of(&mut rng, &d3, 500) };
        for e in &d3s {
            let s = render_policy(std::slice::from_ref(e), &mut None);
            let hss = if thorough { &seqs3_5 } else { &seqs3_4 };
            for chunk in hss.chunks(400) {
                cx.pattern(&s, Some(std::slice::from_ref(e)), chunk, "pattern-exhaustive-d3");
            }
        }
        cx.rep.hit_n(&format!("pattern: expressions of depth <= 3 over 2 predicates ({} of {})", d3s.len(), d3.len()), d3s.len() as u64);
        // E3: depth <= 2 over the 6-predicate alphabet x hop sequences over the 5-hop alphabet
        let d2_6 = all_asts(&p6, 2);
        let d2_6s = if thorough { d2_6.clone() } else { sample_of(&mut rng, &d2_6, 300) };
        for e in &d2_6s {
            let s = render_policy(std::slice::from_ref(e), &mut None);
            let hss = if thorough { &seqs5_4 } else { &seqs5_3 };
            for chunk in hss.chunks(400) {
                cx.pattern(&s, Some(std::slice::from_ref(e)), chunk, "pattern-exhaustive-6preds");
            }
        }
        cx.rep.hit_n(&format!("pattern: expressions of depth <= 2 over 6 predicates ({} of {})", d2_6s.len(), d2_6.len()), d2_6s.len() as u64);
        // E4: juxtapositions of 2..3 expressions of depth <= 1
        let d1 = all_asts(&p2, 1);
        let mut seqs: Vec<Vec<Ast>> = all_seqs(&d1, 3).into_iter().filter(|s| s.len() >= 2).collect();
        if !thorough {
            seqs = sample_of(&mut rng, &seqs, 300);
        }
        for es in &seqs {
            let s = render_policy(es, &mut None);
            let hss = if thorough { &seqs3_5 } else { &seqs3_4 };
            for chunk in hss.chunks(400) {
                cx.pattern(&s, Some(es), chunk, "pattern-exhaustive-seq");
            }
        }
        cx.rep.hit_n("pattern: juxtapositions of 2..3 expressions of depth <= 1", seqs.len() as u64);
        // random larger: depth <= 6, 0..4 expressions, redundant parentheses + whitespace, members of the language and mutations
        let pool: Vec<Pred> = {
            let mut v = p6.clone();
            for _ in 0..6 {
                v.push(rand_pred(&mut rng, true));
            }
            v
        };
        for i in 0..args.scale(1500, 40000) {
            let k = if rng.chance(1, 30) { 0 } else { rng.range(1, 4) as usize };
            let depth = rng.range(1, 6) as usize;
            let es: Vec<Ast> = (0..k).map(|_| rand_ast(&mut rng, depth, &pool)).collect();
            let s = render_policy(&es, &mut Some(&mut rng));
            let mut hss: Vec<Vec<Hop>> = vec![];
            for _ in 0..8 {
                let mut w = vec![];
                for e in &es {
                    sample_word(e, &mut rng, &mut w);
                }
                if rng.chance(1, 2) {
                    mutate_hops(&mut w, &mut rng);
                }
                w.truncate(14);
                hss.push(w);
            }
            cx.pattern(&s, Some(&es), &hss, "pattern-random");
            // the minimal rendering and the random rendering must agree
            let s_min = render_policy(&es, &mut None);
            cx.pattern(&s_min, Some(&es), &hss[..2], "pattern-random-minimal");
            cx.rep.hit(&format!("random pattern depth {}", es.iter().map(|e| e.depth()).max().unwrap_or(0)));
            if i < 2 {
                cx.rep.sample(json!({"pattern": s, "hops": enc_hops(&hss[0]), "in_language": lang_oracle(&es, &hss[0])}));
            }
        }
    }

    // ---- 7. hops_from_path + Policy / PathPolicy wiring ----------------------------------------------
    {
        cx.hops_from(None, "hops-from-path");
        cx.hops_from(Some(None), "hops-from-path");
        cx.hops_from(Some(Some(&[])), "hops-from-path");
        for _ in 0..args.scale(1000, 20000) {
            let n = rng.below(9) as usize;
            let mut l: Vec<(u16, u64, u16)> = vec![];
            let mut cur = (rng.range(1, 3) as u16, *rng.pick(&[AS1, AS2, AS3]));
            for j in 0..n {
                // interfaces 1..: (first), then pairs of the same AS; sometimes break the pairing
                if (j % 2 == 1 && !rng.chance(1, 12)) || (j % 2 == 0 && j > 0 && rng.chance(1, 8)) {
                    cur = (rng.range(1, 3) as u16, *rng.pick(&[AS1, AS2, AS3, 7]));
                }
                l.push((cur.0, cur.1, rng.below(5) as u16));
            }
            cx.hops_from(Some(Some(&l)), "hops-from-path");
            // wiring: path_allowed == matches(hops_from_path) for ACL, hop pattern and the combined Policy
            if let (_, Some(hs)) = impl_hops_from(Some(Some(&l))) {
                let path = mk_path(Some(Some(&l)));
                let acl = mk_acl(rng.chance(1, 2), &[(rng.chance(1, 2), *rng.pick(&p6)), (rng.chance(1, 2), *rng.pick(&p6))]);
                let pat = HopPatternPolicy::parse(*rng.pick(&["0+", "1+ 2*", "0 0* 2-0#2", "(1|2)+", "1 2"])).unwrap();
                let pol = Policy::new(Some(acl.clone()), Some(pat.clone()));
                let ok = acl.path_allowed(&path).ok() == Some(acl.matches(&hs))
                    && pat.path_allowed(&path).ok() == Some(pat.matches(&hs))
                    && pol.path_allowed(&path).ok() == Some(acl.matches(&hs) && pat.matches(&hs))
                    && Policy::new(None, None).matches(&hs);
                cx.rep.hit("path_allowed wiring checked");
                if !ok {
                    cx.rep.spec_fail("C16:path-allowed-wiring", "path_allowed differs from matches(hops_from_path(path))", json!({"interfaces": format!("{l:?}")}));
                }
            }
        }
    }

    // ---- 8. depth limit and native stack ------------------------------------------------------------
    // 8a. boundary of MAX_EXPRESSION_DEPTH, in process (model + reference oracle): every way a pattern gets deep
    {
        let m = MAX_EXPRESSION_DEPTH;
        let one = [vec![], vec![Hop { isd: 1, asn: 1, ing: 0, eg: 0 }]];
        for shape in PROBE_SHAPES {
            for n in [m - 2, m - 1, m, m + 1, m + 2, 2 * m + 1] {
                let s = probe_pattern(shape, n);
                // matching a `+` tower on a matching hop is quadratic: parse only above the boundary
                cx.pattern(&s, None, if n < m { &one } else { &[] }, "depth-boundary");
                cx.rep.case(&format!("T|{s}"), true);
            }
        }
        // mixed: deep arm on either side of `|`, postfix on top of a deep parenthesised group, juxtaposed deep expressions
        for n in [m - 2, m - 1, m] {
            let q = probe_pattern("qmark-chain", n - 1); // depth n
            let pr = probe_pattern("parens", n - 1); // nesting n, depth 1
            for s in [
                format!("{q}|1"),
                format!("1|({q})"),
                format!("1|{q}"),
                format!("({q})?"),
                format!("(({q}))"),
                format!("{pr}?"),
                format!("({pr})|1"),
                format!("1|{pr}"),
                format!("1|1|{pr}"),
                format!("{q} {q} {pr}"),
                format!("({q}|{q})"),
                format!("({q}|{q})+"),
            ] {
                cx.pattern(&s, None, &[], "depth-boundary");
                cx.rep.case(&format!("T|{s}"), true);
            }
        }
        for _ in 0..args.scale(150, 3000) {
            // random towers around the limit: k operators / parentheses stacked in random order
            let k = rng.range((m - 6) as u64, (m + 6) as u64) as usize;
            let mut s = String::from("1");
            for _ in 0..k {
                s = match rng.below(6) {
                    0 => format!("({s})"),
                    1 => format!("{s}?"),
                    2 => format!("({s})+"),
                    3 => format!("{s}|1"),
                    4 => format!("1|({s})"),
                    _ => format!("({s}|2)?"),
                };
            }
            cx.pattern(&s, None, &[], "depth-boundary-random");
            cx.rep.case(&format!("T|{s}"), true);
        }
    }
    // 8b. native stack: a child process (a stack overflow aborts, it cannot be caught) parses, matches, clones
    //     and drops huge patterns of every shape on a 2 MiB thread (the default of spawned / tokio worker threads),
    //     and patterns just inside the limit on a 256 KiB thread
    if let Ok(exe) = std::env::current_exe() {
        let mut probes: Vec<(&str, usize, usize)> = vec![];
        for shape in PROBE_SHAPES {
            for n in [20_000usize, 200_000] {
                probes.push((shape, n, 2 << 20));
            }
            probes.push((shape, MAX_EXPRESSION_DEPTH - 1, 256 << 10));
        }
        for (shape, n, stack) in probes {
            let spec = format!("{shape}:{n}:{stack}");
            match std::process::Command::new(&exe).args(["--probe", &spec]).output() {
                Ok(o) => {
                    let stages = String::from_utf8_lossy(&o.stdout).replace('\n', "; ");
                    cx.rep.hit(&format!("stack probe {}", if o.status.code() == Some(0) { "survived" } else { "died" }));
                    cx.rep.case(&format!("S|{spec}"), true);
                    if o.status.code() != Some(0) {
                        let stage = if stages.contains("cloned") { "drop" } else if stages.contains("matched") { "clone" } else if stages.contains("parsed") { "match" } else { "parse" };
                        let s = probe_pattern(shape, n);
                        cx.rep.spec_fail(
                            &format!("C16:{stage}:stack-overflow"),
                            "parsing / matching / cloning / dropping a hop pattern must terminate without aborting the process, whatever the pattern text",
                            json!({"shape": shape, "size": n, "thread_stack_bytes": stack, "pattern_prefix": &s[..s.len().min(40)], "pattern_len": s.len(),
                                   "status": format!("{:?}", o.status), "completed_stages": stages, "stderr": String::from_utf8_lossy(&o.stderr).chars().take(160).collect::<String>(),
                                   "replay": format!("hx_policy --probe {spec}")}),
                        );
                    }
                }
                Err(e) => cx.rep.notes.push(format!("stack probe {spec}: cannot spawn child: {e}")),
            }
        }
    }
    // 8c. cost of nested repetition (reported, not judged: the property asks for termination, not for a time bound)
    {
        let hs = impl_hops(&vec![Hop { isd: 1, asn: 1, ing: 0, eg: 0 }; 6]);
        let mut k = 2usize;
        loop {
            let s = format!("1{}", "*".repeat(k));
            let p = HopPatternPolicy::parse(&s).unwrap();
            let t = std::time::Instant::now();
            let _ = p.matches(&hs);
            let dt = t.elapsed();
            if dt.as_millis() > 200 || k >= 40 {
                cx.rep.notes.push(format!("cost probe: `1` followed by {k} `*` on a 6-hop path matched in {dt:?} (each further `*` at least doubles the work; only MAX_EXPRESSION_DEPTH bounds the tower)"));
                break;
            }
            k += 2;
        }
    }

    cx.rep.hit_n("driver requests", cx.lean.requests);
    if !cx.lean.enabled {
        cx.rep.notes.push("model driver not available: only the spec oracles ran".into());
    }
    cx.rep.write(&args.out);
    std::process::exit(if cx.rep.ok() { 0 } else { 1 });
}
