//! C02 / C03 — correspondence + spec oracle for the sciparse views and wire codec.
//!
//! `--prop C02`
//!  (A) size correspondence: `View::has_required_size` of every view kind vs the Lean model
//!      (`size <kind> <hex>`): Ok/Err class, reported size, error location / required / actual.
//!      Inputs: cross product of the size-determining fields (path type, 16×16 address nibbles,
//!      header-length byte, stratified segment-length triples, curr-hop/info, payload-len / UDP-len /
//!      SCMP-type boundaries) × truncation points, plus a random mostly-valid / malformed stream.
//!  (B) every accepted view is copied flush against a PROT_NONE guard page and every pub accessor and
//!      safe mutator is invoked on it (the crate's own `view_function_checks` exercisers + the accessors
//!      they do not call), each under `catch`; an out-of-view access faults or trips the crate's
//!      debug precondition, a panic is a spec failure (`C02:panic:<where>`).
//!  (C) slice-returning accessors: offset/length relative to the view vs the model's access table
//!      (`ranges <kind> <hex>`).
//!  (D) random safe-mutator sequences with random values, then (A)+(B) again on the mutated bytes.
//! Spec oracle (independent of the model): reported size ≤ input length; re-parsing the first `size`
//! bytes gives the same size; no panic; safe mutators keep the reported size.
use std::collections::BTreeMap;

use sciparse::{
    core::view::{View, ViewConversionError},
    dataplane_path::{
        onehop::view::OneHopPathView,
        standard::{
            types::{HopFieldFlags, HopFieldMac, InfoFieldFlags},
            view::{HopFieldView, InfoFieldView, StandardPathView},
        },
        view::{ScionDpPathViewExt, ScionDpPathViewExtMut, ScionDpPathViewRef, ScionDpPathViewRefMut},
    },
    header::view::ScionHeaderView,
    identifier::{asn::Asn, isd::Isd},
    packet::view::{ScionRawPacketView, ScionScmpPacketView, ScionUdpPacketView},
    payload::{
        ProtocolNumber,
        scmp::view::{
            ScmpDestinationUnreachableMessageView, ScmpEchoReplyMessageView, ScmpEchoRequestMessageView,
            ScmpExternalInterfaceDownMessageView, ScmpInternalConnectivityDownMessageView, ScmpMessageExt,
            ScmpMessageViewMut, ScmpPacketTooBigMessageView, ScmpParameterProblemMessageView, ScmpPayloadView,
            ScmpTracerouteReplyMessageView, ScmpTracerouteRequestMessageView, ScmpUnknownMessageView,
        },
        udp::view::UdpDatagramView,
    },
    util::fuzz::view_function_checks as vfc,
};
use serde_json::json;
use verif_harness::*;

// ------------------------------------------------------------------------------------------------
// guard-page arena: a view placed at the very end of the accessible region; the next byte faults
// ------------------------------------------------------------------------------------------------
struct Arena {
    base: *mut u8,
    usable: usize,
}
impl Arena {
    fn new(usable_pages: usize) -> Arena {
        unsafe {
            let page = libc::sysconf(libc::_SC_PAGESIZE) as usize;
            let total = (usable_pages + 1) * page;
            let p = libc::mmap(
                std::ptr::null_mut(),
                total,
                libc::PROT_READ | libc::PROT_WRITE,
                libc::MAP_PRIVATE | libc::MAP_ANONYMOUS,
                -1,
                0,
            );
            assert!(p != libc::MAP_FAILED, "mmap failed");
            let guard = (p as *mut u8).add(usable_pages * page);
            assert!(libc::mprotect(guard as *mut libc::c_void, page, libc::PROT_NONE) == 0);
            Arena { base: p as *mut u8, usable: usable_pages * page }
        }
    }
    /// copy `b` flush against the guard page
    #[allow(clippy::mut_from_ref)]
    fn place(&self, b: &[u8]) -> &mut [u8] {
        assert!(b.len() <= self.usable);
        unsafe {
            let p = self.base.add(self.usable - b.len());
            std::ptr::copy_nonoverlapping(b.as_ptr(), p, b.len());
            std::slice::from_raw_parts_mut(p, b.len())
        }
    }
}

// fault reporting: a SIGSEGV / SIGABRT while exercising a view writes a report naming the case
static mut FAULT_OUT: Option<String> = None;
static mut FAULT_CASE: Option<String> = None;
static mut FAULT_PROP: Option<String> = None;
fn set_case(s: String) {
    unsafe {
        *(&raw mut FAULT_CASE) = Some(s);
    }
}
extern "C" fn on_fault(sig: libc::c_int) {
    unsafe {
        let out = (*(&raw const FAULT_OUT)).clone().unwrap_or_default();
        let case = (*(&raw const FAULT_CASE)).clone().unwrap_or_default();
        let prop = (*(&raw const FAULT_PROP)).clone().unwrap_or_default();
        let v = json!({"property": prop, "rule": "", "evaluations": 0, "distinct_nontrivial": 0,
            "traces_validated_against_impl": 0, "samples": [], "distribution": {}, "disagreements": [],
            "spec_failures": [{"key": format!("{prop}:fault"), "what": format!("signal {sig} (out-of-view access or abort) while exercising a view"), "case": case}],
            "notes": [], "exhaustive": false});
        let _ = std::fs::write(&out, serde_json::to_string_pretty(&v).unwrap());
        libc::_exit(1);
    }
}
fn install_fault_handler(out: &str, prop: &str) {
    unsafe {
        *(&raw mut FAULT_OUT) = Some(out.to_string());
        *(&raw mut FAULT_PROP) = Some(prop.to_string());
        libc::signal(libc::SIGSEGV, on_fault as *const () as usize);
        libc::signal(libc::SIGBUS, on_fault as *const () as usize);
        libc::signal(libc::SIGABRT, on_fault as *const () as usize);
    }
}

// ------------------------------------------------------------------------------------------------
// (A) sizes
// ------------------------------------------------------------------------------------------------

const SCMP_MSG_KINDS: &[&str] = &[
    "DestinationUnreachable", "PacketTooBig", "ParameterProblem", "ExternalInterfaceDown", "InternalConnectivityDown",
    "EchoRequest", "EchoReply", "TracerouteRequest", "TracerouteReply", "Unknown",
];

fn us(s: &str) -> String {
    s.replace(' ', "_")
}
fn conv(r: Result<Result<usize, ViewConversionError>, String>) -> String {
    match r {
        Err(_) => "panic".into(),
        Ok(Ok(n)) => format!("ok {n}"),
        Ok(Err(ViewConversionError::BufferTooSmall { at, required, actual })) => format!("err small {} {required} {actual}", us(at)),
        Ok(Err(ViewConversionError::Other(m))) => format!("err other {}", us(m)),
    }
}
fn impl_size(kind: &str, b: &[u8]) -> String {
    match kind {
        "header" => conv(catch(|| ScionHeaderView::has_required_size(b))),
        "stdpath" => conv(catch(|| StandardPathView::has_required_size(b))),
        "onehop" => conv(catch(|| OneHopPathView::has_required_size(b))),
        "info" => conv(catch(|| InfoFieldView::has_required_size(b))),
        "hop" => conv(catch(|| HopFieldView::has_required_size(b))),
        "raw" => conv(catch(|| ScionRawPacketView::has_required_size(b))),
        "udppkt" => conv(catch(|| ScionUdpPacketView::has_required_size(b))),
        "scmppkt" => conv(catch(|| ScionScmpPacketView::has_required_size(b))),
        "udp" => conv(catch(|| UdpDatagramView::has_required_size(b))),
        "scmp" => conv(catch(|| ScmpPayloadView::has_required_size(b))),
        "scmpmsg:DestinationUnreachable" => conv(catch(|| ScmpDestinationUnreachableMessageView::has_required_size(b))),
        "scmpmsg:PacketTooBig" => conv(catch(|| ScmpPacketTooBigMessageView::has_required_size(b))),
        "scmpmsg:ParameterProblem" => conv(catch(|| ScmpParameterProblemMessageView::has_required_size(b))),
        "scmpmsg:ExternalInterfaceDown" => conv(catch(|| ScmpExternalInterfaceDownMessageView::has_required_size(b))),
        "scmpmsg:InternalConnectivityDown" => conv(catch(|| ScmpInternalConnectivityDownMessageView::has_required_size(b))),
        "scmpmsg:EchoRequest" => conv(catch(|| ScmpEchoRequestMessageView::has_required_size(b))),
        "scmpmsg:EchoReply" => conv(catch(|| ScmpEchoReplyMessageView::has_required_size(b))),
        "scmpmsg:TracerouteRequest" => conv(catch(|| ScmpTracerouteRequestMessageView::has_required_size(b))),
        "scmpmsg:TracerouteReply" => conv(catch(|| ScmpTracerouteReplyMessageView::has_required_size(b))),
        "scmpmsg:Unknown" => conv(catch(|| ScmpUnknownMessageView::has_required_size(b))),
        _ => "unknown-kind".into(),
    }
}

/// `View::try_from_boxed` / `to_boxed` / `as_slice_boxed` / `copy_to_slice`: a box is accepted iff the view needs
/// exactly the whole box; the boxed view owns exactly those bytes; copies are byte-identical and never larger
/// than the destination.  Returns a description of the first deviation.
fn boxed_oracle<V: View + ?Sized>(b: &[u8]) -> Option<String> {
    let want = matches!(V::has_required_size(b), Ok(n) if n == b.len());
    let r = catch(|| -> Result<(), String> {
        match V::try_from_boxed(b.to_vec().into_boxed_slice()) {
            Ok(v) => {
                if !want { return Err(format!("try_from_boxed accepted a {} byte box although has_required_size says {:?}", b.len(), V::has_required_size(b))) }
                if v.as_slice() != b { return Err("boxed view does not hold the input bytes".into()) }
                let c = v.to_boxed();
                if c.as_slice() != b { return Err("to_boxed differs".into()) }
                let mut dst = vec![0x5au8; b.len() + 2];
                match v.copy_to_slice(&mut dst) {
                    Ok((w, rest)) => { if w.as_slice() != b || rest.len() != 2 { return Err("copy_to_slice differs".into()) } }
                    Err(e) => return Err(format!("copy_to_slice into a larger buffer failed: {e:?}")),
                }
                if !b.is_empty() {
                    let mut small = vec![0u8; b.len() - 1];
                    if v.copy_to_slice(&mut small).is_ok() { return Err("copy_to_slice into a smaller buffer succeeded".into()) }
                }
                if &*c.as_slice_boxed() != b { return Err("as_slice_boxed differs".into()) }
                Ok(())
            }
            Err(_) => if want { Err("try_from_boxed rejected an exact-size box".into()) } else { Ok(()) },
        }
    });
    match r { Ok(Ok(())) => None, Ok(Err(m)) => Some(m), Err(p) => Some(format!("panic: {}", &p[..p.len().min(100)])) }
}
fn impl_boxed(kind: &str, b: &[u8]) -> Option<String> {
    match kind {
        "header" => boxed_oracle::<ScionHeaderView>(b),
        "stdpath" => boxed_oracle::<StandardPathView>(b),
        "onehop" => boxed_oracle::<OneHopPathView>(b),
        "info" => boxed_oracle::<InfoFieldView>(b),
        "hop" => boxed_oracle::<HopFieldView>(b),
        "raw" => boxed_oracle::<ScionRawPacketView>(b),
        "udppkt" => boxed_oracle::<ScionUdpPacketView>(b),
        "scmppkt" => boxed_oracle::<ScionScmpPacketView>(b),
        "udp" => boxed_oracle::<UdpDatagramView>(b),
        "scmp" => boxed_oracle::<ScmpPayloadView>(b),
        "scmpmsg:DestinationUnreachable" => boxed_oracle::<ScmpDestinationUnreachableMessageView>(b),
        "scmpmsg:PacketTooBig" => boxed_oracle::<ScmpPacketTooBigMessageView>(b),
        "scmpmsg:ParameterProblem" => boxed_oracle::<ScmpParameterProblemMessageView>(b),
        "scmpmsg:ExternalInterfaceDown" => boxed_oracle::<ScmpExternalInterfaceDownMessageView>(b),
        "scmpmsg:InternalConnectivityDown" => boxed_oracle::<ScmpInternalConnectivityDownMessageView>(b),
        "scmpmsg:EchoRequest" => boxed_oracle::<ScmpEchoRequestMessageView>(b),
        "scmpmsg:EchoReply" => boxed_oracle::<ScmpEchoReplyMessageView>(b),
        "scmpmsg:TracerouteRequest" => boxed_oracle::<ScmpTracerouteRequestMessageView>(b),
        "scmpmsg:TracerouteReply" => boxed_oracle::<ScmpTracerouteReplyMessageView>(b),
        "scmpmsg:Unknown" => boxed_oracle::<ScmpUnknownMessageView>(b),
        _ => None,
    }
}

struct Ctx {
    lean: Lean,
    rep: Report,
    arena: Arena,
    rng: Rng,
    exercised: u64,
}

fn short_hex(b: &[u8]) -> String {
    if b.len() <= 96 { hex(b) } else { format!("{}…({} B)", hex(&b[..96]), b.len()) }
}

/// one size case: implementation vs model + spec oracle; exercises the accepted view
fn size_case(cx: &mut Ctx, stream: &str, kind: &str, b: &[u8], exercise: bool) -> String {
    set_case(format!("size {kind} {}", hex(b)));
    let im = impl_size(kind, b);
    let mo = cx.lean.ask(&format!("size {kind} {}", hex(b)));
    let class = im.split(' ').take(if im.starts_with("err") { 3 } else { 1 }).collect::<Vec<_>>().join(" ");
    cx.rep.hit(&format!("{kind}: {class}"));
    let nontrivial = im.starts_with("ok") || !(im.contains("CommonHeader") || im.ends_with(" 0"));
    cx.rep.case(&format!("{kind}|{}|{}|{im}", b.len(), hex(&b[..b.len().min(48)])), nontrivial);
    if cx.lean.differs(&mo, &im) {
        cx.rep.disagree(stream, json!({"kind": kind, "len": b.len(), "bytes": short_hex(b), "line": format!("size {kind} {}", hex(b))}), &im, &mo);
    }
    if b.len() <= 2048 {
        if let Some(m) = impl_boxed(kind, b) {
            cx.rep.spec_fail(&format!("C02:boxed:{kind}"), &format!("{kind}: {m}"), json!({"kind": kind, "bytes": short_hex(b), "line": format!("size {kind} {}", hex(b))}));
        }
        cx.rep.hit("boxed / copy conversions checked");
    }
    if im == "panic" {
        cx.rep.spec_fail(&format!("C02:panic:has_required_size:{kind}"), "has_required_size panicked", json!({"kind": kind, "bytes": short_hex(b)}));
    }
    if let Some(n) = im.strip_prefix("ok ").and_then(|s| s.parse::<usize>().ok()) {
        if n > b.len() {
            cx.rep.spec_fail("C02:size-exceeds-input", &format!("{kind}: reported size {n} > input length {}", b.len()), json!({"kind": kind, "bytes": short_hex(b)}));
        } else {
            let again = impl_size(kind, &b[..n]);
            if again != im {
                cx.rep.spec_fail("C02:reparse", &format!("{kind}: first {n} bytes re-parse as `{again}`"), json!({"kind": kind, "bytes": short_hex(b)}));
            }
            if exercise {
                exercise_view(cx, kind, &b[..n]);
            }
        }
    }
    im
}

// ------------------------------------------------------------------------------------------------
// (B)+(C) accessors
// ------------------------------------------------------------------------------------------------
fn off(base: &[u8], s: &[u8]) -> String {
    let o = (s.as_ptr() as usize).wrapping_sub(base.as_ptr() as usize);
    format!("{o}+{}", s.len())
}

/// accessors of the standard path that the crate's own exerciser does not call
fn extra_std(p: &StandardPathView, out: &mut Vec<(String, String)>) {
    let base = p.as_slice();
    let _ = p.expiration();
    let _ = p.curr_egress_interface();
    let mut n = 0;
    for (i, hs) in p.segments() {
        let _ = i.timestamp();
        for h in hs {
            let _ = h.expiry_timestamp(i);
            let _ = h.ingress_scmp_alert(i);
            let _ = h.egress_scmp_alert(i);
        }
        n += hs.len();
    }
    let _ = n;
    for k in 0..200usize {
        let _ = p.calculate_segment_index(k);
    }
    let _ = format!("{p} {p:?}");
    let r = ScionDpPathViewRef::Standard(p);
    let _ = (r.first_egress_interface(), r.current_egress_interface(), r.last_ingress_interface(), r.current_ingress_interface(), r.expiration());
    let _ = r.to_owned_view();
    let inf = p.info_fields();
    let hf = p.hop_fields();
    let infb = unsafe { std::slice::from_raw_parts(inf.as_ptr() as *const u8, inf.len() * 8) };
    let hfb = unsafe { std::slice::from_raw_parts(hf.as_ptr() as *const u8, hf.len() * 12) };
    out.push(("info_fields".into(), off(base, infb)));
    out.push(("hop_fields".into(), off(base, hfb)));
    if let Some(f) = p.curr_info_field() {
        out.push(("curr_info_field".into(), off(base, f.as_slice())));
    }
    if let Some(f) = p.curr_hop_field() {
        out.push(("curr_hop_field".into(), off(base, f.as_slice())));
    }
}
fn extra_onehop(p: &OneHopPathView) {
    let _ = p.expiration();
    let _ = format!("{p} {p:?}");
    let r = ScionDpPathViewRef::OneHop(p);
    let _ = (r.first_egress_interface(), r.current_egress_interface(), r.last_ingress_interface(), r.current_ingress_interface(), r.expiration());
    let _ = r.to_owned_view();
}
fn extra_header(h: &ScionHeaderView, out: &mut Vec<(String, String)>) {
    let base = h.as_slice();
    let _ = format!("{h:?}");
    match h.path() {
        ScionDpPathViewRef::Standard(p) => {
            out.push(("path".into(), off(base, p.as_slice())));
            let mut o2 = vec![];
            extra_std(p, &mut o2);
        }
        ScionDpPathViewRef::OneHop(p) => {
            out.push(("path".into(), off(base, p.as_slice())));
            extra_onehop(p);
        }
        ScionDpPathViewRef::Unsupported { data, .. } => out.push(("path".into(), off(base, data))),
        ScionDpPathViewRef::Empty => out.push(("path".into(), "-".into())),
    }
    let _ = h.path().to_model();
}

/// run `f` under catch; a panic is a spec failure with a stable key
fn guarded(cx: &mut Ctx, wher: &str, kind: &str, bytes: &[u8], f: impl FnOnce()) -> bool {
    match catch(f) {
        Ok(()) => true,
        Err(m) => {
            cx.rep.spec_fail(&format!("C02:panic:{wher}"), &format!("{kind} view: {wher} panicked: {}", &m[..m.len().min(120)]), json!({"kind": kind, "bytes": short_hex(bytes), "line": format!("view {kind} {}", hex(bytes))}));
            false
        }
    }
}

fn exercise_view(cx: &mut Ctx, kind: &str, v: &[u8]) {
    cx.exercised += 1;
    cx.rep.hit(&format!("exercised {kind}"));
    set_case(format!("exercise {kind} {}", hex(v)));
    // SAFETY of the harness: `arena.place` hands out the only reference to that region
    let arena: &Arena = unsafe { &*(&cx.arena as *const Arena) };
    let buf = arena.place(v);
    let mut ranges: Vec<(String, String)> = vec![];
    let snapshot = v.to_vec();
    match kind {
        "header" => {
            guarded(cx, "header:exerciser", kind, v, || {
                let (h, _) = ScionHeaderView::try_from_mut_slice(buf).unwrap();
                vfc::header::exec_every_view_function(h);
            });
            let mut r = vec![];
            guarded(cx, "header:extra", kind, v, || {
                let (h, _) = ScionHeaderView::try_from_slice(arena.place(&snapshot)).unwrap();
                extra_header(h, &mut r);
            });
            ranges = r;
        }
        "stdpath" => {
            guarded(cx, "stdpath:exerciser", kind, v, || {
                let (p, _) = StandardPathView::try_from_mut_slice(buf).unwrap();
                vfc::path::exec_standard_path_view_mut(p);
            });
            let mut r = vec![];
            guarded(cx, "stdpath:extra", kind, v, || {
                let (p, _) = StandardPathView::try_from_slice(arena.place(&snapshot)).unwrap();
                extra_std(p, &mut r);
            });
            ranges = r;
        }
        "onehop" => {
            guarded(cx, "onehop:exerciser", kind, v, || {
                let (p, _) = OneHopPathView::try_from_mut_slice(buf).unwrap();
                vfc::path::exec_onehop_path_view_mut(p);
            });
            guarded(cx, "onehop:expiration", kind, v, || {
                let (p, _) = OneHopPathView::try_from_slice(arena.place(&snapshot)).unwrap();
                let _ = p.expiration();
            });
            guarded(cx, "onehop:extra", kind, v, || {
                let (p, _) = OneHopPathView::try_from_slice(arena.place(&snapshot)).unwrap();
                let _ = format!("{p} {p:?}");
                let r = ScionDpPathViewRef::OneHop(p);
                let _ = (r.first_egress_interface(), r.current_egress_interface(), r.last_ingress_interface(), r.current_ingress_interface());
            });
        }
        "info" => {
            guarded(cx, "info:exerciser", kind, v, || {
                let (p, _) = InfoFieldView::try_from_mut_slice(buf).unwrap();
                vfc::path::exec_info_field_view_mut(p);
            });
        }
        "hop" => {
            guarded(cx, "hop:exerciser", kind, v, || {
                let (p, _) = HopFieldView::try_from_mut_slice(buf).unwrap();
                vfc::path::exec_hop_field_view_mut(p);
            });
        }
        "raw" | "udppkt" | "scmppkt" => {
            guarded(cx, "packet:exerciser", kind, v, || {
                let (p, _) = ScionRawPacketView::try_from_mut_slice(buf).unwrap();
                vfc::packet::exec_every_view_function(p);
            });
            let mut r = vec![];
            guarded(cx, "packet:extra", kind, v, || {
                let b2 = arena.place(&snapshot);
                let (p, _) = ScionRawPacketView::try_from_slice(b2).unwrap();
                let base = p.as_slice();
                r.push(("header".into(), off(base, p.header().as_slice())));
                r.push(("payload".into(), off(base, p.payload())));
                let _ = (p.src_scion_addr(), p.dst_scion_addr());
                let _ = format!("{p:?}");
                if let Ok(c) = p.try_classify() {
                    let _ = (c.dst_port(), c.dst_socket_addr(), c.is_udp(), c.is_scmp(), c.is_other());
                }
                let _ = (p.try_as_udp().is_ok(), p.try_as_scmp().is_ok());
                if kind == "udppkt" {
                    let (u, _) = ScionUdpPacketView::try_from_slice(b2).unwrap();
                    let d = u.udp();
                    r.push(("udp".into(), off(base, d.as_slice())));
                    r.push(("udp.payload".into(), off(base, d.payload())));
                    let _ = (u.src_socket_addr(), u.dst_socket_addr());
                    let _ = format!("{u:?}");
                }
                if kind == "scmppkt" {
                    let (s, _) = ScionScmpPacketView::try_from_slice(b2).unwrap();
                    let m = s.scmp();
                    r.push(("scmp".into(), off(base, m.as_slice())));
                    let _ = (m.dst_port(), m.message().is_error(), m.message().is_informational());
                    let _ = format!("{s:?}");
                }
                let mut o2 = vec![];
                extra_header(p.header(), &mut o2);
            });
            ranges = r;
        }
        "udp" => {
            guarded(cx, "udp:exerciser", kind, v, || {
                let (p, _) = UdpDatagramView::try_from_mut_slice(buf).unwrap();
                vfc::payload::udp::exec_every_view_function(p);
                let _ = format!("{p:?}");
            });
            let (p, _) = UdpDatagramView::try_from_slice(arena.place(&snapshot)).unwrap();
            ranges.push(("payload".into(), off(p.as_slice(), p.payload())));
        }
        "scmp" => {
            guarded(cx, "scmp:exerciser", kind, v, || {
                let (p, _) = ScmpPayloadView::try_from_mut_slice(buf).unwrap();
                vfc::payload::scmp::exec_every_view_function(p);
                let _ = format!("{p:?}");
                let _ = p.message().to_model();
            });
        }
        k if k.starts_with("scmpmsg:") => {
            // typed message views constructed on their own: every getter, slice accessor and Debug, flush against the guard page
            macro_rules! msg { ($t:ty, |$m:ident| $body:expr) => {{
                guarded(cx, "scmpmsg:accessors", kind, v, || {
                    let ($m, _) = <$t>::try_from_mut_slice(buf).unwrap();
                    let _ = ($m.message_type(), $m.code(), $m.checksum(), format!("{:?}", $m), $m.as_slice().len());
                    let _ = $body;
                });
            }} }
            let touch = |s: &[u8]| { if let (Some(a), Some(b)) = (s.first(), s.last()) { std::hint::black_box((*a, *b)); } s.len() };
            match &k[8..] {
                "DestinationUnreachable" => msg!(ScmpDestinationUnreachableMessageView, |m| (m.reserved(), touch(m.offending_packet()), touch(m.offending_packet_mut()))),
                "PacketTooBig" => msg!(ScmpPacketTooBigMessageView, |m| (m.reserved(), m.mtu(), touch(m.offending_packet()), touch(m.offending_packet_mut()))),
                "ParameterProblem" => msg!(ScmpParameterProblemMessageView, |m| (m.reserved(), m.pointer(), touch(m.offending_packet()), touch(m.offending_packet_mut()))),
                "ExternalInterfaceDown" => msg!(ScmpExternalInterfaceDownMessageView, |m| (m.isd_asn(), m.interface_id(), touch(m.offending_packet()), touch(m.offending_packet_mut()))),
                "InternalConnectivityDown" => msg!(ScmpInternalConnectivityDownMessageView, |m| (m.isd_asn(), m.ingress_interface_id(), m.egress_interface_id(), touch(m.offending_packet()), touch(m.offending_packet_mut()))),
                "EchoRequest" => msg!(ScmpEchoRequestMessageView, |m| (m.identifier(), m.sequence_number(), touch(m.data()), touch(m.data_mut()))),
                "EchoReply" => msg!(ScmpEchoReplyMessageView, |m| (m.identifier(), m.sequence_number(), touch(m.data()), touch(m.data_mut()))),
                "TracerouteRequest" => msg!(ScmpTracerouteRequestMessageView, |m| (m.identifier(), m.sequence_number(), m.isd_asn(), m.interface_id())),
                "TracerouteReply" => msg!(ScmpTracerouteReplyMessageView, |m| (m.identifier(), m.sequence_number(), m.isd_asn(), m.interface_id())),
                "Unknown" => msg!(ScmpUnknownMessageView, |m| (touch(m.message_specific_data()), touch(m.message_specific_data_mut()))),
                _ => {}
            }
        }
        _ => {}
    }
    // (C) slice-returning accessors vs the model's access table
    if !ranges.is_empty() {
        let im = ranges.iter().map(|(n, r)| format!("{n}={r}")).collect::<Vec<_>>().join(" ");
        let mo = cx.lean.ask(&format!("ranges {kind} {}", hex(v)));
        if mo != "bad-op" && cx.lean.differs(&mo, &im) {
            cx.rep.disagree("ranges", json!({"kind": kind, "bytes": short_hex(v), "line": format!("ranges {kind} {}", hex(v))}), &im, &mo);
        }
        cx.rep.hit("ranges compared");
    }
}

// ------------------------------------------------------------------------------------------------
// the setter table extracted from the Rust source (Generated/Setters.lean, served by the driver)
// ------------------------------------------------------------------------------------------------
/// `View::fn` -> `safe` | `exempt` | `unsafe`, as the translator found it in the source on this run.  The mutator
/// sequences call a setter iff the *source* declares it safe (every call site below is wrapped in an `unsafe`
/// block so that the harness compiles whichever way the source declares it): a setter that is turned into a
/// safe fn is exercised with random values from then on.
static SETTERS: std::sync::OnceLock<BTreeMap<String, String>> = std::sync::OnceLock::new();
/// every setter the mutator sequences know how to call
const KNOWN_SETTERS: &[&str] = &[
    "ScionHeaderView::set_version", "ScionHeaderView::set_traffic_class", "ScionHeaderView::set_flow_id", "ScionHeaderView::set_payload_len",
    "ScionHeaderView::set_next_header", "ScionHeaderView::set_header_len", "ScionHeaderView::set_path_type", "ScionHeaderView::set_dst_addr_type",
    "ScionHeaderView::set_src_addr_type", "ScionHeaderView::set_src_isd", "ScionHeaderView::set_src_as", "ScionHeaderView::set_dst_isd", "ScionHeaderView::set_dst_as",
    "StandardPathView::set_curr_info_field", "StandardPathView::set_curr_hop_field", "StandardPathView::set_seg0_len", "StandardPathView::set_seg1_len", "StandardPathView::set_seg2_len",
    "InfoFieldView::set_segment_id", "InfoFieldView::set_timestamp", "InfoFieldView::set_flags",
    "HopFieldView::set_exp_time", "HopFieldView::set_cons_ingress", "HopFieldView::set_cons_egress", "HopFieldView::set_flags", "HopFieldView::set_mac",
    "UdpDatagramView::set_src_port", "UdpDatagramView::set_dst_port", "UdpDatagramView::set_length", "UdpDatagramView::set_checksum",
    "ScmpPayloadView::set_message_type", "ScmpPayloadView::set_code", "ScmpPayloadView::set_checksum",
    "ScmpDestinationUnreachableMessageView::set_message_type", "ScmpDestinationUnreachableMessageView::set_code", "ScmpDestinationUnreachableMessageView::set_checksum", "ScmpDestinationUnreachableMessageView::set_reserved",
    "ScmpPacketTooBigMessageView::set_message_type", "ScmpPacketTooBigMessageView::set_code", "ScmpPacketTooBigMessageView::set_checksum", "ScmpPacketTooBigMessageView::set_reserved", "ScmpPacketTooBigMessageView::set_mtu",
    "ScmpParameterProblemMessageView::set_message_type", "ScmpParameterProblemMessageView::set_code", "ScmpParameterProblemMessageView::set_checksum", "ScmpParameterProblemMessageView::set_reserved", "ScmpParameterProblemMessageView::set_pointer",
    "ScmpExternalInterfaceDownMessageView::set_message_type", "ScmpExternalInterfaceDownMessageView::set_code", "ScmpExternalInterfaceDownMessageView::set_checksum", "ScmpExternalInterfaceDownMessageView::set_isd_asn", "ScmpExternalInterfaceDownMessageView::set_interface_id",
    "ScmpInternalConnectivityDownMessageView::set_message_type", "ScmpInternalConnectivityDownMessageView::set_code", "ScmpInternalConnectivityDownMessageView::set_checksum", "ScmpInternalConnectivityDownMessageView::set_isd_asn", "ScmpInternalConnectivityDownMessageView::set_ingress_interface_id", "ScmpInternalConnectivityDownMessageView::set_egress_interface_id",
    "ScmpEchoRequestMessageView::set_message_type", "ScmpEchoRequestMessageView::set_code", "ScmpEchoRequestMessageView::set_checksum", "ScmpEchoRequestMessageView::set_identifier", "ScmpEchoRequestMessageView::set_sequence_number",
    "ScmpEchoReplyMessageView::set_message_type", "ScmpEchoReplyMessageView::set_code", "ScmpEchoReplyMessageView::set_checksum", "ScmpEchoReplyMessageView::set_identifier", "ScmpEchoReplyMessageView::set_sequence_number",
    "ScmpTracerouteRequestMessageView::set_message_type", "ScmpTracerouteRequestMessageView::set_code", "ScmpTracerouteRequestMessageView::set_checksum", "ScmpTracerouteRequestMessageView::set_identifier", "ScmpTracerouteRequestMessageView::set_sequence_number", "ScmpTracerouteRequestMessageView::set_isd_asn", "ScmpTracerouteRequestMessageView::set_interface_id",
    "ScmpTracerouteReplyMessageView::set_message_type", "ScmpTracerouteReplyMessageView::set_code", "ScmpTracerouteReplyMessageView::set_checksum", "ScmpTracerouteReplyMessageView::set_identifier", "ScmpTracerouteReplyMessageView::set_sequence_number", "ScmpTracerouteReplyMessageView::set_isd_asn", "ScmpTracerouteReplyMessageView::set_interface_id",
    "ScmpUnknownMessageView::set_message_type", "ScmpUnknownMessageView::set_code", "ScmpUnknownMessageView::set_checksum",
];
/// every other safe `&mut self` function the harness calls (directly or through the crate's exercisers)
const KNOWN_MUT_FNS: &[&str] = &[
    "ScionHeaderView::path_mut", "ScionPacketView::header_mut", "ScmpPayloadView::message_mut",
    "StandardPathView::curr_info_field_mut", "StandardPathView::info_field_mut", "StandardPathView::curr_hop_field_mut", "StandardPathView::hop_field_mut",
    "StandardPathView::info_fields_mut", "StandardPathView::hop_fields_mut", "StandardPathView::try_reverse", "StandardPathView::advance_ingress",
    "StandardPathView::advance_egress", "StandardPathView::advance_ingress_with_validator", "StandardPathView::advance_egress_with_validator",
    "OneHopPathView::info_field_mut", "OneHopPathView::mut_hop_fields", "OneHopPathView::set_second_hop", "OneHopPathView::try_reverse",
    "ScionRawPacketView::payload_mut", "ScionRawPacketView::try_as_udp_mut", "ScionRawPacketView::try_as_scmp_mut", "UdpDatagramView::payload_mut",
    "ScmpDestinationUnreachableMessageView::offending_packet_mut", "ScmpPacketTooBigMessageView::offending_packet_mut", "ScmpParameterProblemMessageView::offending_packet_mut",
    "ScmpExternalInterfaceDownMessageView::offending_packet_mut", "ScmpInternalConnectivityDownMessageView::offending_packet_mut",
    "ScmpEchoRequestMessageView::data_mut", "ScmpEchoReplyMessageView::data_mut", "ScmpUnknownMessageView::message_specific_data_mut",
];
/// does the source declare `View::fn` a safe (non-exempt) setter?
fn src_safe(key: &str) -> bool {
    debug_assert!(KNOWN_SETTERS.contains(&key), "setter {key} missing in KNOWN_SETTERS");
    SETTERS.get().and_then(|m| m.get(key)).map(|c| c == "safe").unwrap_or(false)
}
/// call a setter iff the source declares it safe
macro_rules! set {
    ($key:expr, $log:expr, $call:expr) => {
        if src_safe($key) {
            $log.push($key.to_string());
            #[allow(unused_unsafe)]
            unsafe { $call };
        }
    };
}
/// read the extracted tables from the driver; every safe setter / `&mut self` function of the source that the
/// harness does not know how to call is a failure (an accessor nobody exercises)
fn load_setter_table(cx: &mut Ctx) {
    let mut m = BTreeMap::new();
    if cx.lean.enabled {
        let line = cx.lean.ask("setters");
        for w in line.split_whitespace() {
            let f: Vec<&str> = w.rsplitn(4, ':').collect();
            if f.len() != 4 { cx.rep.disagree("setter-table", json!({"row": w}), "View::fn:class:start:stop", w); continue }
            let (key, class) = (f[3].to_string(), f[2].to_string());
            cx.rep.hit(&format!("source setters: {class}"));
            if class != "unsafe" && !KNOWN_SETTERS.contains(&key.as_str()) {
                cx.rep.spec_fail(&format!("C02:unmodelled-setter:{key}"), "the source has a safe setter that neither the access model nor the mutator sequences know", json!({"setter": key}));
            }
            m.insert(key, class);
        }
        for k in KNOWN_SETTERS {
            if !m.contains_key(*k) { cx.rep.disagree("setter-table", json!({"setter": k}), "present in the harness", "absent from Generated/Setters.lean") }
        }
        for w in cx.lean.ask("mutfns").split_whitespace() {
            let f: Vec<&str> = w.rsplitn(3, ':').collect();
            if f.len() != 3 { continue }
            cx.rep.hit(&format!("source &mut self fns: {} {}", f[1], f[0]));
            if f[1] == "safe" && (f[0] != "modelled" || !KNOWN_MUT_FNS.contains(&f[2])) {
                cx.rep.spec_fail(&format!("C02:unmodelled-mut-fn:{}", f[2]), "the source has a safe `&mut self` function on a view type that is neither modelled nor exercised", json!({"fn": f[2]}));
            }
        }
    }
    let _ = SETTERS.set(m);
}

// ------------------------------------------------------------------------------------------------
// (D) random safe-mutator sequences
// ------------------------------------------------------------------------------------------------
fn mutate_info(f: &mut InfoFieldView, rng: &mut Rng, log: &mut Vec<String>) {
    set!("InfoFieldView::set_flags", log, f.set_flags(InfoFieldFlags::from_bits_retain(rng.next() as u8)));
    set!("InfoFieldView::set_segment_id", log, f.set_segment_id(rng.next() as u16));
    set!("InfoFieldView::set_timestamp", log, f.set_timestamp(*rng.pick(&[0u32, 1, u32::MAX, u32::MAX - 1, 0x8000_0000, 0x7fff_ffff])));
}
fn mutate_hop(f: &mut HopFieldView, rng: &mut Rng, log: &mut Vec<String>) {
    set!("HopFieldView::set_flags", log, f.set_flags(HopFieldFlags::from_bits_retain(rng.next() as u8)));
    set!("HopFieldView::set_exp_time", log, f.set_exp_time(rng.next() as u8));
    set!("HopFieldView::set_cons_ingress", log, f.set_cons_ingress(rng.next() as u16));
    set!("HopFieldView::set_cons_egress", log, f.set_cons_egress(rng.next() as u16));
    set!("HopFieldView::set_mac", log, f.set_mac(HopFieldMac(rng.bytes(6).try_into().unwrap())));
}
fn mutate_std(p: &mut StandardPathView, rng: &mut Rng, log: &mut Vec<String>) {
    match rng.below(10) {
        0 => { let x = rng.next() as u8; set!("StandardPathView::set_curr_info_field", log, p.set_curr_info_field(x)) }
        1 => { let x = rng.next() as u8; set!("StandardPathView::set_curr_hop_field", log, p.set_curr_hop_field(x)) }
        2 => {
            let i = rng.below(4) as usize;
            if let Some(f) = p.info_field_mut(i) { log.push(format!("info_field_mut({i})")); mutate_info(f, rng, log) }
        }
        3 => {
            let i = rng.below(200) as usize;
            if let Some(f) = p.hop_field_mut(i) { log.push(format!("hop_field_mut({i})")); mutate_hop(f, rng, log) }
        }
        4 => { log.push("try_reverse".into()); let _ = p.try_reverse(); }
        5 => { log.push("advance_ingress".into()); let _ = p.advance_ingress(rng.chance(1, 2)); }
        6 => { log.push("advance_egress".into()); let _ = p.advance_egress(); }
        7 => {
            log.push("curr_*_mut".into());
            if let Some(f) = p.curr_info_field_mut() { mutate_info(f, rng, log) }
            if let Some(f) = p.curr_hop_field_mut() { mutate_hop(f, rng, log) }
        }
        8 => {
            // unsafe in the source today: called only if the source turns them into safe fns
            let x = *rng.pick(&[0u8, 1, 2, 3, 62, 63]);
            set!("StandardPathView::set_seg0_len", log, p.set_seg0_len(x));
            set!("StandardPathView::set_seg1_len", log, p.set_seg1_len(x));
            set!("StandardPathView::set_seg2_len", log, p.set_seg2_len(x));
        }
        _ => {
            log.push("fields_mut fill".into());
            for f in p.info_fields_mut() { mutate_info(f, rng, log) }
            for f in p.hop_fields_mut() { mutate_hop(f, rng, log) }
        }
    }
}
fn mutate_onehop(p: &mut OneHopPathView, rng: &mut Rng, log: &mut Vec<String>) {
    match rng.below(4) {
        0 => { log.push("info_field_mut".into()); mutate_info(p.info_field_mut(), rng, log) }
        1 => {
            log.push("mut_hop_fields".into());
            let [a, b] = p.mut_hop_fields();
            mutate_hop(a, rng, log);
            mutate_hop(b, rng, log);
            if rng.chance(1, 2) { b.set_cons_ingress(rng.below(3) as u16) }
        }
        2 => { log.push("try_reverse".into()); let _ = p.try_reverse(); }
        _ => { log.push("set_second_hop".into()); p.set_second_hop(*rng.pick(&[0u16, 1, 0x1234, 0xffff]), [7u8; 16], rng.chance(1, 2)) }
    }
}
fn mutate_header(h: &mut ScionHeaderView, rng: &mut Rng, log: &mut Vec<String>, allow_version: bool) {
    use sciparse::{address::host_addr::WireHostAddrType, dataplane_path::types::PathType};
    match rng.below(12) {
        0 => { let x = rng.next() as u8; set!("ScionHeaderView::set_traffic_class", log, h.set_traffic_class(x)) }
        1 => { let x = rng.next() as u32; set!("ScionHeaderView::set_flow_id", log, h.set_flow_id(x)) }
        2 => { let x = rng.next() as u8; set!("ScionHeaderView::set_next_header", log, h.set_next_header(ProtocolNumber::from(x))) }
        3 => {
            set!("ScionHeaderView::set_src_isd", log, h.set_src_isd(Isd(rng.next() as u16)));
            set!("ScionHeaderView::set_src_as", log, h.set_src_as(Asn(rng.next())));
            set!("ScionHeaderView::set_dst_isd", log, h.set_dst_isd(Isd(rng.next() as u16)));
            set!("ScionHeaderView::set_dst_as", log, h.set_dst_as(Asn(rng.next())));
        }
        4 if allow_version => { let x = rng.next() as u8; log.push(format!("set_version({x})")); h.set_version(x) }
        5 => {
            // unsafe in the source today: called only if the source turns them into safe fns
            set!("ScionHeaderView::set_payload_len", log, h.set_payload_len(rng.next() as u16));
            set!("ScionHeaderView::set_header_len", log, h.set_header_len((rng.next() as u16 % 256) * 4));
            set!("ScionHeaderView::set_path_type", log, h.set_path_type(PathType::from(rng.below(4) as u8)));
            set!("ScionHeaderView::set_dst_addr_type", log, h.set_dst_addr_type(WireHostAddrType::from(rng.below(16) as u8)));
            set!("ScionHeaderView::set_src_addr_type", log, h.set_src_addr_type(WireHostAddrType::from(rng.below(16) as u8)));
        }
        _ => match h.path_mut() {
            ScionDpPathViewRefMut::Standard(p) => mutate_std(p, rng, log),
            ScionDpPathViewRefMut::OneHop(p) => mutate_onehop(p, rng, log),
            ScionDpPathViewRefMut::Unsupported { buf, .. } => { log.push("unsupported path bytes".into()); for b in buf.iter_mut() { *b = rng.next() as u8 } }
            ScionDpPathViewRefMut::Empty => {
                log.push("path_mut().try_reverse (empty)".into());
                let mut pm = h.path_mut();
                let _ = pm.try_reverse();
            }
        },
    }
}
/// SCMP type bytes a (hypothetically safe) type setter is tried with: every known kind and two unknown ones
const SCMP_TYPES: [u8; 11] = [1, 2, 4, 5, 6, 128, 129, 130, 131, 0, 200];
fn mutate_scmp(p: &mut ScmpPayloadView, rng: &mut Rng, log: &mut Vec<String>) {
    use sciparse::{identifier::isd_asn::IsdAsn, payload::scmp::types::ScmpMessageType as T};
    let fill = |s: &mut [u8], rng: &mut Rng| { for b in s.iter_mut() { *b = rng.next() as u8 } };
    match rng.below(4) {
        0 => {
            set!("ScmpPayloadView::set_code", log, p.set_code(rng.next() as u8));
            set!("ScmpPayloadView::set_checksum", log, p.set_checksum(rng.next() as u16));
            set!("ScmpPayloadView::set_message_type", log, p.set_message_type(T::from(*rng.pick(&SCMP_TYPES))));
        }
        _ => {
            log.push("message_mut()".into());
            let ty = *rng.pick(&SCMP_TYPES);
            let ia = IsdAsn::from_u64(rng.next());
            macro_rules! common { ($v:literal, $m:expr) => {
                set!(concat!($v, "::set_code"), log, $m.set_code((rng.next() as u8).into()));
                set!(concat!($v, "::set_checksum"), log, $m.set_checksum(rng.next() as u16));
                set!(concat!($v, "::set_message_type"), log, $m.set_message_type(T::from(ty)));
            } }
            match p.message_mut() {
                ScmpMessageViewMut::DestinationUnreachable(m) => {
                    set!("ScmpDestinationUnreachableMessageView::set_reserved", log, m.set_reserved(rng.next() as u32));
                    fill(m.offending_packet_mut(), rng);
                    common!("ScmpDestinationUnreachableMessageView", m);
                }
                ScmpMessageViewMut::PacketTooBig(m) => {
                    set!("ScmpPacketTooBigMessageView::set_mtu", log, m.set_mtu(rng.next() as u16));
                    set!("ScmpPacketTooBigMessageView::set_reserved", log, m.set_reserved(rng.next() as u16));
                    fill(m.offending_packet_mut(), rng);
                    common!("ScmpPacketTooBigMessageView", m);
                }
                ScmpMessageViewMut::ParameterProblem(m) => {
                    set!("ScmpParameterProblemMessageView::set_pointer", log, m.set_pointer(rng.next() as u16));
                    set!("ScmpParameterProblemMessageView::set_reserved", log, m.set_reserved(rng.next() as u16));
                    fill(m.offending_packet_mut(), rng);
                    common!("ScmpParameterProblemMessageView", m);
                }
                ScmpMessageViewMut::ExternalInterfaceDown(m) => {
                    set!("ScmpExternalInterfaceDownMessageView::set_isd_asn", log, m.set_isd_asn(ia));
                    set!("ScmpExternalInterfaceDownMessageView::set_interface_id", log, m.set_interface_id(rng.next()));
                    fill(m.offending_packet_mut(), rng);
                    common!("ScmpExternalInterfaceDownMessageView", m);
                }
                ScmpMessageViewMut::InternalConnectivityDown(m) => {
                    set!("ScmpInternalConnectivityDownMessageView::set_isd_asn", log, m.set_isd_asn(ia));
                    set!("ScmpInternalConnectivityDownMessageView::set_ingress_interface_id", log, m.set_ingress_interface_id(rng.next()));
                    set!("ScmpInternalConnectivityDownMessageView::set_egress_interface_id", log, m.set_egress_interface_id(rng.next()));
                    fill(m.offending_packet_mut(), rng);
                    common!("ScmpInternalConnectivityDownMessageView", m);
                }
                ScmpMessageViewMut::EchoRequest(m) => {
                    set!("ScmpEchoRequestMessageView::set_identifier", log, m.set_identifier(rng.next() as u16));
                    set!("ScmpEchoRequestMessageView::set_sequence_number", log, m.set_sequence_number(rng.next() as u16));
                    fill(m.data_mut(), rng);
                    common!("ScmpEchoRequestMessageView", m);
                }
                ScmpMessageViewMut::EchoReply(m) => {
                    set!("ScmpEchoReplyMessageView::set_identifier", log, m.set_identifier(rng.next() as u16));
                    set!("ScmpEchoReplyMessageView::set_sequence_number", log, m.set_sequence_number(rng.next() as u16));
                    fill(m.data_mut(), rng);
                    common!("ScmpEchoReplyMessageView", m);
                }
                ScmpMessageViewMut::TracerouteRequest(m) => {
                    set!("ScmpTracerouteRequestMessageView::set_identifier", log, m.set_identifier(rng.next() as u16));
                    set!("ScmpTracerouteRequestMessageView::set_sequence_number", log, m.set_sequence_number(rng.next() as u16));
                    set!("ScmpTracerouteRequestMessageView::set_isd_asn", log, m.set_isd_asn(ia));
                    set!("ScmpTracerouteRequestMessageView::set_interface_id", log, m.set_interface_id(rng.next()));
                    common!("ScmpTracerouteRequestMessageView", m);
                }
                ScmpMessageViewMut::TracerouteReply(m) => {
                    set!("ScmpTracerouteReplyMessageView::set_identifier", log, m.set_identifier(rng.next() as u16));
                    set!("ScmpTracerouteReplyMessageView::set_sequence_number", log, m.set_sequence_number(rng.next() as u16));
                    set!("ScmpTracerouteReplyMessageView::set_isd_asn", log, m.set_isd_asn(ia));
                    set!("ScmpTracerouteReplyMessageView::set_interface_id", log, m.set_interface_id(rng.next()));
                    common!("ScmpTracerouteReplyMessageView", m);
                }
                ScmpMessageViewMut::Unknown(m) => {
                    fill(m.message_specific_data_mut(), rng);
                    set!("ScmpUnknownMessageView::set_code", log, m.set_code(rng.next() as u8));
                    set!("ScmpUnknownMessageView::set_checksum", log, m.set_checksum(rng.next() as u16));
                    set!("ScmpUnknownMessageView::set_message_type", log, m.set_message_type(ty));
                }
            }
        }
    }
}

/// apply `steps` random safe mutators to the accepted view `v` of `kind`; returns the mutated bytes
fn mutate_view(cx: &mut Ctx, kind: &str, v: &[u8], steps: usize) {
    let arena: &Arena = unsafe { &*(&cx.arena as *const Arena) };
    let buf = arena.place(v);
    let mut log: Vec<String> = vec![];
    let mut rng = cx.rng.fork();
    let before = impl_size(kind, v);
    set_case(format!("mutate {kind} {}", hex(v)));
    let mut size_changing = false;
    let r = catch(|| {
        for _ in 0..steps {
            match kind {
                "header" => { let (h, _) = ScionHeaderView::try_from_mut_slice(buf).expect("HARNESS-REPARSE"); mutate_header(h, &mut rng, &mut log, false) }
                "stdpath" => { let (p, _) = StandardPathView::try_from_mut_slice(buf).expect("HARNESS-REPARSE"); mutate_std(p, &mut rng, &mut log) }
                "onehop" => { let (p, _) = OneHopPathView::try_from_mut_slice(buf).expect("HARNESS-REPARSE"); mutate_onehop(p, &mut rng, &mut log) }
                "raw" => {
                    let (p, _) = ScionRawPacketView::try_from_mut_slice(buf).expect("HARNESS-REPARSE");
                    if rng.chance(1, 3) { log.push("payload_mut fill".into()); for b in p.payload_mut().iter_mut() { *b = rng.next() as u8 } } else { mutate_header(p.header_mut(), &mut rng, &mut log, false) }
                }
                "udppkt" => { let (p, _) = ScionUdpPacketView::try_from_mut_slice(buf).expect("HARNESS-REPARSE"); mutate_header(p.header_mut(), &mut rng, &mut log, false); let _ = p.udp().dst_port(); }
                "scmppkt" => { let (p, _) = ScionScmpPacketView::try_from_mut_slice(buf).expect("HARNESS-REPARSE"); mutate_header(p.header_mut(), &mut rng, &mut log, false); let _ = p.scmp().code(); }
                "udp" => {
                    let (p, _) = UdpDatagramView::try_from_mut_slice(buf).expect("HARNESS-REPARSE");
                    set!("UdpDatagramView::set_src_port", log, p.set_src_port(rng.next() as u16));
                    set!("UdpDatagramView::set_dst_port", log, p.set_dst_port(rng.next() as u16));
                    set!("UdpDatagramView::set_checksum", log, p.set_checksum(rng.next() as u16));
                    // exempt in the model (safe in the source, probe 1): only called if it is re-classified
                    set!("UdpDatagramView::set_length", log, p.set_length(rng.next() as u16));
                    log.push("payload_mut fill".into());
                    for b in p.payload_mut().iter_mut() { *b = rng.next() as u8 }
                }
                "scmp" => { let (p, _) = ScmpPayloadView::try_from_mut_slice(buf).expect("HARNESS-REPARSE"); mutate_scmp(p, &mut rng, &mut log) }
                _ => {}
            }
        }
    });
    let _ = &mut size_changing;
    cx.rep.hit(&format!("mutated {kind}"));
    let after_bytes = buf.to_vec();
    if let Err(m) = &r {
        if m.contains("HARNESS-REPARSE") {
            // not a panic of the crate: the bytes written by the previous safe mutators no longer parse as this view
            let after = impl_size(kind, &after_bytes);
            cx.rep.spec_fail("C02:mutator-changes-size", &format!("{kind}: size `{before}` became `{after}` after safe mutators (the view no longer re-parses)"), json!({"kind": kind, "bytes": short_hex(v), "after": short_hex(&after_bytes), "ops": log}));
            return;
        }
    }
    if let Err(m) = r {
        cx.rep.spec_fail("C02:panic:mutator", &format!("{kind}: safe mutator sequence panicked: {}", &m[..m.len().min(120)]), json!({"kind": kind, "bytes": short_hex(v), "ops": log}));
        return;
    }
    // safe mutators keep the size
    let after = impl_size(kind, &after_bytes);
    if after != before {
        cx.rep.spec_fail("C02:mutator-changes-size", &format!("{kind}: size `{before}` became `{after}` after safe mutators"), json!({"kind": kind, "bytes": short_hex(v), "after": short_hex(&after_bytes), "ops": log}));
    } else {
        // the mutated view: model agrees, accessors still in bounds
        size_case(cx, "after-mutation", kind, &after_bytes, true);
    }
}

// ------------------------------------------------------------------------------------------------
// generators
// ------------------------------------------------------------------------------------------------
fn addr_size(n: u8) -> usize {
    match n { 0 => 4, 3 => 16, 4 => 4, o => (((o & 3) + 1) * 4) as usize }
}
#[derive(Clone, Copy, Debug)]
struct HdrCfg {
    pt: u8, dt: u8, st: u8,
    /// 0 = correct, 1 = +1 unit, 2 = 0, 3 = 255, 4 = -1 unit
    hl_mode: u8,
    segs: (u8, u8, u8), ci: u8, ch: u8, nh: u8, pl: u16,
    /// bytes of path data for unknown path types
    extra: usize,
    ver: u8,
}
fn build_header(c: &HdrCfg, rng: &mut Rng) -> Vec<u8> {
    let (dl, sl) = (addr_size(c.dt), addr_size(c.st));
    let path_len = match c.pt {
        0 => 0,
        1 => { let s = [c.segs.0, c.segs.1, c.segs.2]; 4 + s.iter().filter(|x| **x > 0).count() * 8 + s.iter().map(|x| *x as usize).sum::<usize>() * 12 }
        2 => 32,
        _ => c.extra,
    };
    let total = 12 + 16 + dl + sl + path_len;
    let units = (total / 4) as i64;
    let hl = match c.hl_mode { 0 => units, 1 => units + 1, 2 => 0, 3 => 255, _ => units - 1 }.clamp(0, 255) as u8;
    let mut b = Vec::with_capacity(total);
    let w0: u32 = ((c.ver as u32 & 0xf) << 28) | ((rng.next() as u32 & 0xff) << 20) | (rng.next() as u32 & 0xf_ffff);
    b.extend_from_slice(&w0.to_be_bytes());
    b.push(c.nh); b.push(hl); b.extend_from_slice(&c.pl.to_be_bytes());
    b.push(c.pt); b.push((c.dt << 4) | (c.st & 0xf)); b.extend_from_slice(&[0, 0]);
    b.extend_from_slice(&rng.bytes(16 + dl + sl));
    if c.pt == 1 {
        let m: u32 = ((c.ci as u32 & 3) << 30) | ((c.ch as u32 & 63) << 24) | ((c.segs.0 as u32 & 63) << 12) | ((c.segs.1 as u32 & 63) << 6) | (c.segs.2 as u32 & 63);
        b.extend_from_slice(&m.to_be_bytes());
        b.extend_from_slice(&rng.bytes(path_len - 4));
    } else {
        b.extend_from_slice(&rng.bytes(path_len));
    }
    b
}
fn std_path(segs: (u8, u8, u8), ci: u8, ch: u8, rng: &mut Rng) -> Vec<u8> {
    let s = [segs.0, segs.1, segs.2];
    let n = s.iter().filter(|x| **x > 0).count() * 8 + s.iter().map(|x| *x as usize).sum::<usize>() * 12;
    let m: u32 = ((ci as u32 & 3) << 30) | ((ch as u32 & 63) << 24) | ((rng.next() as u32 & 63) << 18) | ((segs.0 as u32 & 63) << 12) | ((segs.1 as u32 & 63) << 6) | (segs.2 as u32 & 63);
    let mut b = m.to_be_bytes().to_vec();
    b.extend_from_slice(&rng.bytes(n));
    b
}
fn boundary_lens(points: &[usize], max: usize) -> Vec<usize> {
    let mut v: Vec<usize> = vec![];
    for p in points {
        for d in [-1i64, 0, 1] {
            let x = *p as i64 + d;
            if x >= 0 && (x as usize) <= max { v.push(x as usize) }
        }
    }
    v.sort(); v.dedup(); v
}

fn run_c02(cx: &mut Ctx, args: &Args) {
    let thorough = args.thorough();
    // translator sanity: constants through the Rust API vs Generated/*.lean
    {
        use sciparse::{core::layout::Layout, dataplane_path::{onehop::layout::OneHopPathLayout, standard::layout::*}, header::layout::*, payload::{scmp::layout::SCMP_ERROR_MAX_PACKET_SIZE, udp::layout::UdpDatagramLayout}};
        let cs: Vec<(&str, usize)> = vec![
            ("CommonHeader.SIZE_BYTES", CommonHeaderLayout::SIZE_BYTES), ("StdPathMeta.SIZE_BYTES", StdPathMetaLayout::SIZE_BYTES),
            ("InfoField.SIZE_BYTES", InfoFieldLayout::SIZE_BYTES), ("HopField.SIZE_BYTES", HopFieldLayout::SIZE_BYTES),
            ("OneHopPath.SIZE_BYTES", OneHopPathLayout.size_bytes()), ("UdpDatagram.HEADER_SIZE_BYTES", UdpDatagramLayout::HEADER_SIZE_BYTES),
            ("ScionHeader.MAX_SIZE_BYTES", ScionHeaderLayout::MAX_SIZE_BYTES), ("HopField.MAC_RNG.start", HopFieldLayout::MAC_RNG.start),
            ("HopField.MAC_RNG.stop", HopFieldLayout::MAC_RNG.end), ("CommonHeader.FLOW_ID_RNG.start", CommonHeaderLayout::FLOW_ID_RNG.start),
            ("CommonHeader.FLOW_ID_RNG.stop", CommonHeaderLayout::FLOW_ID_RNG.end), ("SCMP_ERROR_MAX_PACKET_SIZE", SCMP_ERROR_MAX_PACKET_SIZE),
        ];
        for (n, v) in cs {
            let mo = cx.lean.ask(&format!("const {n}"));
            if cx.lean.differs(&mo, &v.to_string()) {
                cx.rep.disagree("translator-sanity", json!({"const": n}), &v.to_string(), &mo);
            }
            cx.rep.hit("translator constants re-read through the Rust API");
        }
    }
    let pts: [u8; 7] = [0, 1, 2, 3, 4, 5, 255];
    let rep_nibbles: [u8; 6] = [0, 1, 2, 3, 4, 15];
    let mut rng = cx.rng.fork();
    // (i) every truncation point, stratified nibble pairs
    let triples_small: Vec<(u8, u8, u8)> = vec![(0, 0, 0), (1, 0, 0), (2, 3, 0), (1, 0, 1), (2, 2, 2), (0, 1, 0), (0, 0, 3)];
    for &pt in &pts {
        for &dt in &rep_nibbles {
            for &st in &rep_nibbles {
                for hl_mode in 0..5u8 {
                    let trs: &[(u8, u8, u8)] = if pt == 1 { &triples_small } else { &triples_small[..1] };
                    for &segs in trs {
                        if !thorough && hl_mode != 0 && (dt, st) != (0, 3) && (dt, st) != (15, 4) { continue }
                        let c = HdrCfg { pt, dt, st, hl_mode, segs, ci: rng.below(4) as u8, ch: rng.below(8) as u8, nh: 17, pl: 0, extra: *rng.pick(&[0usize, 4, 8, 6]), ver: 0 };
                        let full = build_header(&c, &mut rng);
                        let mut full2 = full.clone();
                        full2.extend_from_slice(&[0xAA, 0xBB]);
                        let step = if thorough || full2.len() < 80 { 1 } else { 3 };
                        let mut n = 0;
                        while n <= full2.len() {
                            size_case(cx, "header-truncation", "header", &full2[..n], n >= full.len());
                            n += step;
                        }
                        size_case(cx, "header-truncation", "header", &full, true);
                    }
                }
            }
        }
    }
    // (ii) all 256 nibble pairs × path types × boundary truncations; stratified segment triples
    let strat: [u8; 5] = [0, 1, 2, 62, 63];
    let mut triples: Vec<(u8, u8, u8)> = vec![];
    for a in strat { for b in strat { for c in strat { triples.push((a, b, c)) } } }
    for &pt in &pts {
        for dt in 0..16u8 {
            for st in 0..16u8 {
                let trs: Vec<(u8, u8, u8)> = if pt != 1 { vec![(0, 0, 0)] } else if thorough || (dt, st) == (0, 0) || (dt, st) == (3, 3) { triples.clone() } else { vec![*rng.pick(&triples), (1, 0, 0), (2, 2, 2)] };
                for segs in trs {
                    let c = HdrCfg { pt, dt, st, hl_mode: 0, segs, ci: 0, ch: 0, nh: 202, pl: 0, extra: 12, ver: 0 };
                    let full = build_header(&c, &mut rng);
                    let addr_end = 28 + addr_size(dt) + addr_size(st);
                    for n in boundary_lens(&[0, 12, addr_end, addr_end + 4, full.len()], full.len() + 1) {
                        let b = if n <= full.len() { full[..n].to_vec() } else { let mut x = full.clone(); x.push(0); x };
                        size_case(cx, "header-boundaries", "header", &b, n == full.len() && full.len() <= 1020);
                    }
                }
            }
        }
    }
    // version nibble, header-length byte sweep on one shape
    for ver in 0..16u8 {
        let c = HdrCfg { pt: 1, dt: 0, st: 3, hl_mode: 0, segs: (2, 0, 0), ci: 0, ch: 1, nh: 17, pl: 0, extra: 0, ver };
        let b = build_header(&c, &mut rng);
        size_case(cx, "version", "header", &b, true);
        size_case(cx, "version", "raw", &b, true);
    }
    for hlb in 0..=255u8 {
        for pt in [0u8, 1, 2, 7] {
            let c = HdrCfg { pt, dt: 0, st: 0, hl_mode: 0, segs: (1, 2, 0), ci: 0, ch: 0, nh: 17, pl: 4, extra: 8, ver: 0 };
            let mut b = build_header(&c, &mut rng);
            b[5] = hlb;
            b.extend_from_slice(&rng.bytes(1100));
            size_case(cx, "hdrlen-byte", "header", &b, true);
            size_case(cx, "hdrlen-byte", "raw", &b[..b.len().min(80 + hlb as usize * 4)], true);
        }
    }
    // (iii) standard path view: segment triples at the meta level × curr indices × truncation
    let six: [u8; 6] = [0, 1, 2, 31, 62, 63];
    let all: Vec<u8> = (0..64).collect();
    let axis: &[u8] = if thorough { &all } else { &six };
    for &a in axis { for &b in axis { for &c in axis {
        let (ci, ch) = (rng.below(4) as u8, *rng.pick(&[0u8, 1, 2, 62, 63, (a as u16 + b as u16 + c as u16).min(63) as u8]));
        let p = std_path((a, b, c), ci, ch, &mut rng);
        let pts_ = if thorough && (a > 3 || b > 3 || c > 3) { vec![p.len() - 1, p.len()] } else { boundary_lens(&[0, 4, p.len()], p.len() + 1) };
        for n in pts_ {
            let bb = if n <= p.len() { p[..n].to_vec() } else { let mut x = p.clone(); x.push(9); x };
            let ex = n >= p.len() && (a as usize + b as usize + c as usize) <= 70;
            size_case(cx, "stdpath", "stdpath", &bb, ex);
        }
    } } }
    for ci in 0..4u8 { for ch in 0..64u8 {
        let p = std_path(*rng.pick(&[(1, 0, 0), (2, 3, 0), (3, 2, 4), (0, 2, 2), (3, 0, 4)]), ci, ch, &mut rng);
        size_case(cx, "stdpath-curr", "stdpath", &p, true);
    } }
    // fixed-size views
    for n in 0..40usize {
        let b = rng.bytes(n);
        for k in ["onehop", "info", "hop"] { size_case(cx, "fixed", k, &b, true); }
    }
    // one-hop expiry boundary (timestamp near u32::MAX)
    for ts in [0u32, 1, u32::MAX, u32::MAX - 336, u32::MAX - 337, u32::MAX - 86400, u32::MAX - 86399] {
        for e in [0u8, 1, 255] {
            let mut b = rng.bytes(32);
            b[4..8].copy_from_slice(&ts.to_be_bytes());
            b[9] = e; b[21] = e;
            size_case(cx, "onehop-expiry", "onehop", &b, true);
        }
    }
    // (iv) packets: payload-len × tail length; UDP length; SCMP types
    let pls: [u16; 9] = [0, 1, 7, 8, 9, 23, 24, 1000, 65535];
    for &pl in &pls {
        for pt in [0u8, 1, 2] {
            let c = HdrCfg { pt, dt: *rng.pick(&[0u8, 3, 4]), st: *rng.pick(&[0u8, 3, 9]), hl_mode: 0, segs: (2, 2, 0), ci: 0, ch: 0, nh: 17, pl, extra: 0, ver: 0 };
            let h = build_header(&c, &mut rng);
            let tails = boundary_lens(&[0, 8, 24, pl as usize], 1200);
            for t in tails {
                for udp_len in [0u16, 7, 8, 9, t as u16, (t as u16).wrapping_add(1), 65535] {
                    let mut b = h.clone();
                    let mut tail = rng.bytes(t);
                    if t >= 6 { tail[4..6].copy_from_slice(&udp_len.to_be_bytes()) }
                    if t >= 1 { tail[0] = *rng.pick(&[1u8, 2, 4, 5, 6, 128, 129, 130, 131, 0, 3, 200]) }
                    b.extend_from_slice(&tail);
                    for k in ["raw", "udppkt", "scmppkt"] { size_case(cx, "packet", k, &b, true); }
                    if !thorough && t > 30 { break }
                }
            }
        }
    }
    for t in 0..=255u8 {
        for n in boundary_lens(&[0, 4, 8, 20, 24, 28, 40], 41) {
            let mut b = rng.bytes(n);
            if n > 0 { b[0] = t }
            size_case(cx, "scmp", "scmp", &b, true);
            if t < 20 {
                let k = format!("scmpmsg:{}", SCMP_MSG_KINDS[(t as usize) % SCMP_MSG_KINDS.len()]);
                size_case(cx, "scmpmsg", &k, &b, true);
            }
        }
    }
    for n in 0..20usize { for l in [0u16, 7, 8, 9, n as u16, n as u16 + 1, 65535] {
        let mut b = rng.bytes(n);
        if n >= 6 { b[4..6].copy_from_slice(&l.to_be_bytes()) }
        size_case(cx, "udp", "udp", &b, true);
    } }
    // SCMP error quoting a packet (dst_port parses the inner packet)
    for _ in 0..args.scale(300, 6000) {
        let c = HdrCfg { pt: *rng.pick(&[0u8, 1, 2, 9]), dt: rng.below(16) as u8, st: rng.below(16) as u8, hl_mode: *rng.pick(&[0u8, 0, 0, 1, 2]), segs: (rng.below(3) as u8, rng.below(3) as u8, rng.below(2) as u8), ci: 0, ch: 0, nh: *rng.pick(&[17u8, 202, 6]), pl: rng.below(40) as u16, extra: 8, ver: 0 };
        let mut inner = build_header(&c, &mut rng);
        let il = rng.below(30) as usize;
        inner.extend_from_slice(&rng.bytes(il));
        let cut = rng.below(inner.len() as u64 + 1) as usize;
        let t = *rng.pick(&[1u8, 2, 4, 5, 6]);
        let hs = match t { 5 => 20, 6 => 28, _ => 8 };
        let mut m = rng.bytes(hs);
        m[0] = t;
        m.extend_from_slice(&inner[..cut]);
        size_case(cx, "scmp-quote", "scmp", &m, true);
    }
    // (v) random stream: mostly-valid headers with random field perturbations, random truncation
    for i in 0..args.scale(4000, 200000) {
        let c = HdrCfg {
            pt: *rng.pick(&[0u8, 1, 1, 1, 2, 3, 200]), dt: rng.below(16) as u8, st: rng.below(16) as u8,
            hl_mode: *rng.pick(&[0u8, 0, 0, 0, 1, 2, 3, 4]),
            segs: (*rng.pick(&[0u8, 1, 2, 3, 10]), *rng.pick(&[0u8, 0, 1, 2, 5]), *rng.pick(&[0u8, 0, 0, 1, 4])),
            ci: rng.below(4) as u8, ch: rng.below(64) as u8, nh: *rng.pick(&[17u8, 202, 6, 0]), pl: *rng.pick(&[0u16, 8, 12, 24, 64, 65535]),
            extra: *rng.pick(&[0usize, 3, 4, 8, 40]), ver: if rng.chance(1, 20) { rng.below(16) as u8 } else { 0 },
        };
        let mut b = build_header(&c, &mut rng);
        let tl = rng.below(80) as usize;
        let mut tail = rng.bytes(tl);
        if tl >= 6 && rng.chance(2, 3) { let l = *rng.pick(&[8u16, tl as u16, 0, 7, 65535]); tail[4..6].copy_from_slice(&l.to_be_bytes()) }
        if tl >= 1 { tail[0] = *rng.pick(&[1u8, 2, 4, 5, 6, 128, 129, 130, 131, 77]) }
        b.extend_from_slice(&tail);
        if rng.chance(1, 4) { let k = rng.below(b.len() as u64 + 1) as usize; b.truncate(k) }
        if rng.chance(1, 10) && !b.is_empty() { let k = rng.below(b.len() as u64) as usize; b[k] ^= 1 << rng.below(8) }
        let kind = *rng.pick(&["header", "raw", "udppkt", "scmppkt"]);
        let im = size_case(cx, "random", kind, &b, true);
        // (D) mutator sequences on accepted views
        if let Some(n) = im.strip_prefix("ok ").and_then(|s| s.parse::<usize>().ok()) {
            if i % 2 == 0 { mutate_view(cx, kind, &b[..n], 1 + rng.below(6) as usize) }
        }
    }
    for _ in 0..args.scale(1500, 30000) {
        let segs = (*rng.pick(&[1u8, 2, 3, 63]), *rng.pick(&[0u8, 1, 2, 5]), *rng.pick(&[0u8, 0, 1, 4]));
        let p = std_path(segs, rng.below(4) as u8, rng.below(64) as u8, &mut rng);
        mutate_view(cx, "stdpath", &p, 1 + rng.below(8) as usize);
        let o = rng.bytes(32);
        mutate_view(cx, "onehop", &o, 1 + rng.below(5) as usize);
        let n = 8 + rng.below(40) as usize;
        let mut s = rng.bytes(n);
        s[0] = *rng.pick(&[1u8, 2, 4, 5, 6, 128, 129, 130, 131, 9]);
        if impl_size("scmp", &s).starts_with("ok") { let k = impl_size("scmp", &s)[3..].parse::<usize>().unwrap(); mutate_view(cx, "scmp", &s[..k], 1 + rng.below(4) as usize) }
        let mut u = rng.bytes(n);
        u[4..6].copy_from_slice(&(n as u16).to_be_bytes());
        mutate_view(cx, "udp", &u, 2);
    }
    // deterministic probes of accessor/mutator sequences that the property forbids to panic
    probes_c02(cx);
}

/// deterministic probes (each reproduces on every run; reported under stable keys)
fn probes_c02(cx: &mut Ctx) {
    // 1. UdpDatagramView::set_length is a safe setter of a size-determining field
    {
        let mut b = vec![0u8, 1, 0, 2, 0, 12, 0, 0, 1, 2, 3, 4];
        let before = impl_size("udp", &b);
        let (u, _) = UdpDatagramView::try_from_mut_slice(&mut b).unwrap();
        u.set_length(3);
        let r = catch(|| { let _ = (u.length(), u.payload().len(), u.src_port()); });
        let after = impl_size("udp", &b);
        cx.rep.hit("probe udp set_length");
        if r.is_err() {
            cx.rep.spec_fail("C02:panic:udp-accessor-after-set_length", "UdpDatagramView accessor panicked after set_length", json!({"bytes": hex(&b)}));
        }
        if before != after {
            // not a violation of C02 (accessors stay inside the view); recorded as an observation
            cx.rep.hit("observation: UdpDatagramView::set_length (safe) changes has_required_size of the view bytes");
        }
    }
    // 2. (fixed) ScionUdpPacketView::as_raw_mut used to be a safe fn handing out payload_mut(), so the UDP
    //    length field could be rewritten through safe calls and udp() then panicked.  It is an `unsafe fn`
    //    now (like its SCMP sibling) and the `From<&mut ScionUdpPacketView>` impl is gone; the only safe
    //    mutable access left on a UDP packet view is header_mut(), exercised by the mutator sequences.
    {
        let mut rng = Rng::new(7);
        let c = HdrCfg { pt: 0, dt: 0, st: 0, hl_mode: 0, segs: (0, 0, 0), ci: 0, ch: 0, nh: 17, pl: 12, extra: 0, ver: 0 };
        let mut b = build_header(&c, &mut rng);
        b.extend_from_slice(&[0, 1, 0, 2, 0, 12, 0, 0, 9, 9, 9, 9]);
        if let Ok((p, _)) = ScionUdpPacketView::try_from_mut_slice(&mut b) {
            // SAFETY (deliberately violated to document the contract): the caller must not touch the UDP length
            let raw = unsafe { p.as_raw_mut() };
            raw.payload_mut()[5] = 3;
            let r = catch(|| p.udp().dst_port());
            cx.rep.hit(if r.is_err() { "observation: udp() panics after UNSAFE as_raw_mut misuse (contract documented)" } else { "observation: udp() tolerates as_raw_mut misuse" });
        }
    }
    // 4. (fixed, bc8cd06) ScmpUnknownMessageView::set_message_type was a safe fn: the unknown-message view handed
    //    out by message_mut() could rewrite the type byte, after which message() hands out a larger typed view
    //    over the same 8 bytes.  Replayed whenever the source declares that setter safe.
    {
        use sciparse::payload::scmp::view::ScmpMessageView;
        let key = "ScmpUnknownMessageView::set_message_type";
        let class = SETTERS.get().and_then(|m| m.get(key)).cloned().unwrap_or_default();
        let arena: &Arena = unsafe { &*(&cx.arena as *const Arena) };
        let bytes = [200u8, 0, 0, 0, 0, 0, 0, 0];
        if class == "safe" || class == "exempt" {
            for ty in [130u8, 131, 5, 6] {
                let buf = arena.place(&bytes);
                set_case(format!("probe: ScmpPayloadView c800000000000000 -> message_mut() Unknown.set_message_type({ty}) -> message() accessors"));
                let r = catch(|| {
                    let (p, _) = ScmpPayloadView::try_from_mut_slice(buf).unwrap();
                    if let ScmpMessageViewMut::Unknown(m) = p.message_mut() {
                        #[allow(unused_unsafe)]
                        unsafe { m.set_message_type(ty) };
                    }
                    match p.message() {
                        ScmpMessageView::TracerouteRequest(t) => { let _ = (t.isd_asn(), t.interface_id()); }
                        ScmpMessageView::TracerouteReply(t) => { let _ = (t.isd_asn(), t.interface_id()); }
                        ScmpMessageView::ExternalInterfaceDown(t) => { let _ = (t.isd_asn(), t.interface_id(), t.offending_packet().len()); }
                        ScmpMessageView::InternalConnectivityDown(t) => { let _ = (t.egress_interface_id(), t.offending_packet().len()); }
                        _ => {}
                    }
                });
                let after = impl_size("scmp", &bytes.iter().enumerate().map(|(i, b)| if i == 0 { ty } else { *b }).collect::<Vec<u8>>());
                if r.is_err() || after != "ok 8" {
                    cx.rep.spec_fail("C02:oob:scmp-unknown-set_message_type", &format!("safe setter ScmpUnknownMessageView::set_message_type({ty}) on an accepted 8-byte SCMP payload view: message() then hands out a typed view whose accessors read beyond the view ({}); has_required_size of the bytes is now `{after}`", r.err().map(|m| m[..m.len().min(90)].to_string()).unwrap_or("no panic in this build".into())), json!({"bytes": hex(&bytes), "type": ty}));
                    break;
                }
            }
            cx.rep.hit("probe scmp unknown set_message_type (declared safe in the source)");
        } else {
            cx.rep.hit("observation: ScmpUnknownMessageView::set_message_type is an unsafe fn in the source (contract documented)");
        }
    }
    // 3. header set_version is a safe setter; accessors must stay in bounds, sub-views must not panic
    {
        let mut rng = Rng::new(9);
        let c = HdrCfg { pt: 1, dt: 0, st: 3, hl_mode: 0, segs: (2, 2, 0), ci: 0, ch: 1, nh: 17, pl: 8, extra: 0, ver: 0 };
        let mut b = build_header(&c, &mut rng);
        b.extend_from_slice(&[0, 1, 0, 2, 0, 8, 0, 0]);
        let arena: &Arena = unsafe { &*(&cx.arena as *const Arena) };
        let buf = arena.place(&b);
        let r = catch(|| {
            let (p, _) = ScionUdpPacketView::try_from_mut_slice(buf).unwrap();
            p.header_mut().set_version(5);
            let _ = (p.udp().dst_port(), p.payload().len(), p.header().path().expiration(), format!("{p:?}"));
            let raw = p.as_raw();
            let _ = raw.try_classify().is_ok();
            vfc::header::exec_every_view_function(p.header_mut());
        });
        cx.rep.hit("probe set_version");
        if let Err(m) = r {
            cx.rep.spec_fail("C02:panic:after-set_version", &format!("accessor panicked after the safe setter set_version(5): {}", &m[..m.len().min(100)]), json!({"bytes": hex(&b)}));
        }
    }
}


// ================================================================================================
// C03 — wire codec
// ================================================================================================
mod c03 {
    use sciparse::{
        address::host_addr::{ServiceAddr, WireHostAddr},
        checksum::ChecksumDigest,
        core::{convert::TryFromView, encode::WireEncode},
        dataplane_path::{
            model::DpPath,
            onehop::model::OneHopPath,
            standard::{
                model::{HopField, InfoField, Segment, StandardPath},
                types::{HopFieldFlags, HopFieldMac, InfoFieldFlags},
            },
            types::PathType,
        },
        header::model::{AddressHeader, CommonHeader, ScionPacketHeader},
        identifier::isd_asn::IsdAsn,
        packet::model::{ScionPacket, ScionRawPacket, ScionScmpPacket, ScionUdpPacket},
        payload::{
            ProtocolNumber,
            scmp::model::*,
            udp::model::UdpDatagram,
        },
        reexport::tinyvec::{ArrayVec, TinyVec},
    };
    use serde_json::json;
    use verif_harness::*;

    use super::Ctx;

    #[derive(Clone, Debug)]
    pub enum Pay {
        Raw(Vec<u8>),
        Udp(UdpDatagram),
        Scmp(ScmpMessage),
    }
    #[derive(Clone, Debug)]
    pub struct Model {
        pub header: ScionPacketHeader,
        pub pay: Pay,
    }

    // ---- model text (same grammar as Driver/Codec.lean showPacket) ----
    fn hx(b: &[u8]) -> String {
        hex(b)
    }
    /// long constant payloads are sent as rep:<byte>:<len>
    fn hx_or_rep(b: &[u8]) -> String {
        if b.len() > 4096 && b.iter().all(|x| *x == b[0]) { format!("rep:{}:{}", b[0], b.len()) } else { hex(b) }
    }
    fn show_host(h: &WireHostAddr) -> String {
        match h {
            WireHostAddr::V4(a) => format!("v4:{}", hx(&a.octets())),
            WireHostAddr::V6(a) => format!("v6:{}", hx(&a.octets())),
            WireHostAddr::Svc(s) => format!("svc:{}", s.0),
            WireHostAddr::Unknown { id, bytes } => format!("unk:{id}:{}", hx(bytes)),
        }
    }
    fn show_info(i: &InfoField) -> String {
        format!("{},{},{}", i.flags.bits(), i.segment_id, i.timestamp)
    }
    fn show_hop(h: &HopField) -> String {
        format!("{},{},{},{},{}", h.flags.bits(), h.expiration_units, h.cons_ingress, h.cons_egress, hx(&h.mac.0))
    }
    fn show_path(p: &DpPath) -> String {
        match p {
            DpPath::Empty => "empty".into(),
            // a non-canonical PathType::Other(0..=4) is printed as 256 + k (the decoder never produces it)
            DpPath::Unsupported { path_type, data } => format!("unsup:{}:{}", match path_type { PathType::Other(k) if *k <= 4 => 256 + *k as usize, t => u8::from(*t) as usize }, hx(data)),
            DpPath::OneHop(o) => format!("onehop:{}/{}/{}", show_info(&o.info), show_hop(&o.hops[0]), show_hop(&o.hops[1])),
            DpPath::Standard(s) => format!(
                "std:{}:{}:{}",
                s.current_info_field,
                s.current_hop_field,
                s.segments.iter().map(|g| std::iter::once(show_info(&g.info_field)).chain(g.hop_fields.iter().map(show_hop)).collect::<Vec<_>>().join("/")).collect::<Vec<_>>().join(";")
            ),
        }
    }
    fn vals(v: &[u64]) -> String {
        if v.is_empty() { "-".into() } else { v.iter().map(|x| x.to_string()).collect::<Vec<_>>().join(",") }
    }
    /// a non-canonical `ProtocolNumber::Other(k)` / `Scmp…Code::Unassigned(k)` with an assigned `k` (which the
    /// decoder never produces) is printed as 256 + k
    fn nh_text(nh: ProtocolNumber) -> usize {
        let b = u8::from(nh);
        if ProtocolNumber::from(b) != nh { 256 + b as usize } else { b as usize }
    }
    fn dc_text(c: sciparse::payload::scmp::types::ScmpDestinationUnreachableCode) -> usize {
        let b = u8::from(c);
        if sciparse::payload::scmp::types::ScmpDestinationUnreachableCode::from(b) != c { 256 + b as usize } else { b as usize }
    }
    fn pc_text(c: sciparse::payload::scmp::types::ScmpParameterProblemCode) -> usize {
        let b = u8::from(c);
        if sciparse::payload::scmp::types::ScmpParameterProblemCode::from(b) != c { 256 + b as usize } else { b as usize }
    }
    pub fn show_scmp(m: &ScmpMessage, long: bool) -> String {
        let d = |b: &[u8]| if long { hx_or_rep(b) } else { hx(b) };
        match m {
            ScmpMessage::DestinationUnreachable(x) => format!("scmp:DestinationUnreachable:1:{}:-:{}", dc_text(x.code), d(x.get_offending_packet())),
            ScmpMessage::PacketTooBig(x) => format!("scmp:PacketTooBig:2:0:{}:{}", vals(&[x.mtu as u64]), d(x.get_offending_packet())),
            ScmpMessage::ParameterProblem(x) => format!("scmp:ParameterProblem:4:{}:{}:{}", pc_text(x.code), vals(&[x.pointer as u64]), d(x.get_offending_packet())),
            ScmpMessage::ExternalInterfaceDown(x) => format!("scmp:ExternalInterfaceDown:5:0:{}:{}", vals(&[x.isd_asn.to_u64(), x.interface_id as u64]), d(x.get_offending_packet())),
            ScmpMessage::InternalConnectivityDown(x) => format!("scmp:InternalConnectivityDown:6:0:{}:{}", vals(&[x.isd_asn.to_u64(), x.ingress_interface_id as u64, x.egress_interface_id as u64]), d(x.get_offending_packet())),
            ScmpMessage::EchoRequest(x) => format!("scmp:EchoRequest:128:0:{}:{}", vals(&[x.identifier as u64, x.sequence_number as u64]), d(&x.data)),
            ScmpMessage::EchoReply(x) => format!("scmp:EchoReply:129:0:{}:{}", vals(&[x.identifier as u64, x.sequence_number as u64]), d(&x.data)),
            ScmpMessage::TracerouteRequest(x) => format!("scmp:TracerouteRequest:130:0:{}:-", vals(&[x.identifier as u64, x.sequence_number as u64])),
            ScmpMessage::TracerouteReply(x) => format!("scmp:TracerouteReply:131:0:{}:-", vals(&[x.identifier as u64, x.sequence_number as u64, x.isd_asn.to_u64(), x.interface_id as u64])),
            ScmpMessage::Unknown(x) => format!("scmp:Unknown:{}:{}:-:{}", x.message_type, x.code, d(&x.message_specific_data)),
        }
    }
    pub fn show_header(h: &ScionPacketHeader) -> String {
        format!(
            "{} {} {} {} {} {} {} {}",
            h.common.traffic_class, h.common.flow_id, nh_text(h.common.next_header), h.address.dst_ia.to_u64(), h.address.src_ia.to_u64(),
            show_host(&h.address.dst_host_addr), show_host(&h.address.src_host_addr), show_path(&h.path)
        )
    }
    pub fn show_model(m: &Model, long: bool) -> String {
        let p = match &m.pay {
            Pay::Raw(b) => format!("raw:{}", if long { hx_or_rep(b) } else { hx(b) }),
            Pay::Udp(u) => format!("udp:{}:{}:{}", u.src_port, u.dst_port, if long { hx_or_rep(&u.payload) } else { hx(&u.payload) }),
            Pay::Scmp(s) => show_scmp(s, long),
        };
        format!("{} {p}", show_header(&m.header))
    }

    // ---- implementation calls ----
    fn enc_str(r: Result<Result<Vec<u8>, String>, String>) -> (String, Option<Vec<u8>>) {
        match r {
            Err(m) => (format!("panic {}", &m[..m.len().min(60)].replace(' ', "_")), None),
            Ok(Ok(b)) => (format!("ok {}", hex(&b)), Some(b)),
            Ok(Err(e)) => (format!("err {}", e.trim_start_matches("cannot encode structure: ").replace(' ', "_")), None),
        }
    }
    pub fn impl_encode(m: &Model) -> (String, Option<Vec<u8>>) {
        match &m.pay {
            Pay::Raw(b) => { let p: ScionRawPacket = ScionPacket { header: m.header.clone(), payload: b.clone() }; enc_str(catch(|| p.try_encode_to_vec().map_err(|e| e.to_string()))) }
            Pay::Udp(u) => { let p: ScionUdpPacket = ScionPacket { header: m.header.clone(), payload: u.clone() }; enc_str(catch(|| p.try_encode_to_vec().map_err(|e| e.to_string()))) }
            Pay::Scmp(s) => { let p: ScionScmpPacket = ScionPacket { header: m.header.clone(), payload: s.clone() }; enc_str(catch(|| p.try_encode_to_vec().map_err(|e| e.to_string()))) }
        }
    }
    fn impl_required(m: &Model) -> usize {
        match &m.pay {
            Pay::Raw(b) => ScionPacket { header: m.header.clone(), payload: b.clone() }.required_size(),
            Pay::Udp(u) => ScionPacket { header: m.header.clone(), payload: u.clone() }.required_size(),
            Pay::Scmp(s) => ScionPacket { header: m.header.clone(), payload: s.clone() }.required_size(),
        }
    }
    /// encode into a caller-provided dirty buffer (every byte 0xA5) of `extra` more bytes than required
    fn impl_encode_dirty(m: &Model, extra: usize) -> Option<Vec<u8>> {
        let n = impl_required(m);
        let mut buf = vec![0xA5u8; n + extra];
        let r = match &m.pay {
            Pay::Raw(b) => catch(|| ScionPacket { header: m.header.clone(), payload: b.clone() }.try_encode(&mut buf).ok()),
            Pay::Udp(u) => catch(|| ScionPacket { header: m.header.clone(), payload: u.clone() }.try_encode(&mut buf).ok()),
            Pay::Scmp(s) => catch(|| ScionPacket { header: m.header.clone(), payload: s.clone() }.try_encode(&mut buf).ok()),
        };
        match r { Ok(Some(k)) => { buf.truncate(k); Some(buf) } _ => None }
    }
    fn verr(e: sciparse::core::view::ViewConversionError) -> String {
        use sciparse::core::view::ViewConversionError as V;
        match e {
            V::BufferTooSmall { at, required, actual } => format!("err small {} {required} {actual}", at.replace(' ', "_")),
            V::Other(m) => format!("err other {}", m.replace(' ', "_")),
        }
    }
    /// real decoder: `ok <consumed> <model text>` | `err …` | `panic`
    pub fn impl_decode(kind: &str, b: &[u8]) -> (String, Option<Model>) {
        let r = catch(|| match kind {
            "raw" => ScionRawPacket::try_from_slice(b).map(|(p, rest)| (Model { header: p.header, pay: Pay::Raw(p.payload) }, b.len() - rest.len())),
            "udp" => ScionUdpPacket::try_from_slice(b).map(|(p, rest)| (Model { header: p.header, pay: Pay::Udp(p.payload) }, b.len() - rest.len())),
            _ => ScionScmpPacket::try_from_slice(b).map(|(p, rest)| (Model { header: p.header, pay: Pay::Scmp(p.payload) }, b.len() - rest.len())),
        });
        match r {
            Err(m) => (format!("panic {}", &m[..m.len().min(60)]), None),
            Ok(Err(e)) => (verr(e), None),
            Ok(Ok((m, n))) => (format!("ok {n} {}", show_model(&m, false)), Some(m)),
        }
    }

    // ---- independent RFC 1071 checksum over pseudo-header ‖ message ----
    fn ones_sum(d: &[u8]) -> u32 {
        let mut s: u64 = 0;
        let mut i = 0;
        while i + 1 < d.len() { s += ((d[i] as u64) << 8) | d[i + 1] as u64; i += 2 }
        if i < d.len() { s += (d[i] as u64) << 8 }
        while s > 0xffff { s = (s >> 16) + (s & 0xffff) }
        s as u32
    }
    fn host_bytes(h: &WireHostAddr) -> Vec<u8> {
        match h {
            WireHostAddr::V4(a) => a.octets().to_vec(),
            WireHostAddr::V6(a) => a.octets().to_vec(),
            WireHostAddr::Svc(s) => vec![(s.0 >> 8) as u8, s.0 as u8, 0, 0],
            WireHostAddr::Unknown { bytes, .. } => bytes.to_vec(),
        }
    }
    fn pseudo(a: &AddressHeader, proto: u8, len: usize) -> Vec<u8> {
        let mut v = vec![];
        v.extend_from_slice(&a.dst_ia.to_u64().to_be_bytes());
        v.extend_from_slice(&a.src_ia.to_u64().to_be_bytes());
        v.extend_from_slice(&host_bytes(&a.dst_host_addr));
        v.extend_from_slice(&host_bytes(&a.src_host_addr));
        v.extend_from_slice(&(len as u32).to_be_bytes());
        v.extend_from_slice(&(proto as u32).to_be_bytes());
        v
    }

    /// size of the SCION header of a model, counted from the header specification (12-byte common header, two
    /// 8-byte ISD-AS, the host addresses, the path: empty 0 / one-hop 8 + 2*12 / standard 4 + 8 per info field +
    /// 12 per hop field / any other type its opaque bytes) - never from the crate's `required_size`
    pub fn spec_header_size(h: &ScionPacketHeader) -> usize {
        let host = |a: &WireHostAddr| match a { WireHostAddr::V4(_) | WireHostAddr::Svc(_) => 4, WireHostAddr::V6(_) => 16, WireHostAddr::Unknown { bytes, .. } => bytes.len() };
        let path = match &h.path {
            DpPath::Empty => 0,
            DpPath::OneHop(_) => 8 + 2 * 12,
            DpPath::Standard(s) => 4 + 8 * s.segments.len() + 12 * s.segments.iter().map(|g| g.hop_fields.len()).sum::<usize>(),
            DpPath::Unsupported { data, .. } => data.len(),
        };
        12 + 16 + host(&h.address.dst_host_addr) + host(&h.address.src_host_addr) + path
    }

    // ---- representability (what the wire format can carry), independent of the crate ----
    pub fn unrepresentable(m: &Model) -> Option<&'static str> {
        // HdrLen is an 8-bit count of 4-byte units: the header (hosts of up to 16 bytes included, whatever the path
        // kind) must be a multiple of 4 and at most 255 * 4 = 1020 bytes
        let hs = spec_header_size(&m.header);
        let ps = match &m.pay { Pay::Raw(b) => b.len(), Pay::Udp(u) => 8 + u.payload.len(), Pay::Scmp(s) => ScionPacket { header: m.header.clone(), payload: s.clone() }.required_size() - m.header.required_size() };
        if ps > 65535 { return Some("payload-size") }
        if hs > 1020 || hs % 4 != 0 { return Some("header-size") }
        if m.header.common.flow_id >= 1 << 20 { return Some("flow-id") }
        if nh_text(m.header.common.next_header) >= 256 { return Some("next-header-alias") }
        match &m.pay {
            Pay::Scmp(ScmpMessage::DestinationUnreachable(x)) if dc_text(x.code) >= 256 => return Some("scmp-code-alias"),
            Pay::Scmp(ScmpMessage::ParameterProblem(x)) if pc_text(x.code) >= 256 => return Some("scmp-code-alias"),
            _ => {}
        }
        for h in [&m.header.address.dst_host_addr, &m.header.address.src_host_addr] {
            if let WireHostAddr::Unknown { id, bytes } = h {
                if bytes.is_empty() || bytes.len() % 4 != 0 || bytes.len() > 16 { return Some("host-size") }
                let nib = ((*id as usize) << 2) | (bytes.len() / 4 - 1);
                if *id > 3 || nib == 0 || nib == 3 || nib == 4 { return Some("host-type") }
            }
        }
        match &m.header.path {
            DpPath::Unsupported { path_type, data } => {
                let t = u8::from(*path_type);
                if t <= 2 || matches!(path_type, PathType::Other(0..=4)) { return Some("path-type") }
                if data.len() % 4 != 0 { return Some("header-size") }
            }
            DpPath::Standard(s) => {
                if s.segments.is_empty() || s.segments.iter().any(|g| g.hop_fields.is_empty() || g.hop_fields.len() > 63) { return Some("segments") }
                let hops: usize = s.segments.iter().map(|g| g.hop_fields.len()).sum();
                if s.current_hop_field as usize >= hops || s.current_info_field as usize >= s.segments.len() { return Some("curr-index") }
                if s.current_hop_field > 63 { return Some("curr-hop-6bit") }
                if hops > 64 { return Some("total-hops") }
            }
            _ => {}
        }
        if let Pay::Scmp(ScmpMessage::Unknown(u)) = &m.pay {
            if matches!(u.message_type, 1 | 2 | 4 | 5 | 6 | 128..=131) { return Some("scmp-type") }
        }
        None
    }
    /// SCMP error messages quote only as much of the offending packet as fits (by specification)
    fn quote_truncated(m: &Model) -> bool {
        if let Pay::Scmp(s) = &m.pay {
            let q = match s {
                ScmpMessage::DestinationUnreachable(x) => Some((x.get_offending_packet().len(), 8)),
                ScmpMessage::PacketTooBig(x) => Some((x.get_offending_packet().len(), 8)),
                ScmpMessage::ParameterProblem(x) => Some((x.get_offending_packet().len(), 8)),
                ScmpMessage::ExternalInterfaceDown(x) => Some((x.get_offending_packet().len(), 20)),
                ScmpMessage::InternalConnectivityDown(x) => Some((x.get_offending_packet().len(), 28)),
                _ => None,
            };
            if let Some((l, h)) = q { return m.header.required_size() + h + l > 1232 }
        }
        false
    }

    // ---- generators ----
    fn gen_host(rng: &mut Rng, adversarial: bool) -> WireHostAddr {
        match rng.below(if adversarial { 7 } else { 5 }) {
            0 => WireHostAddr::V4(std::net::Ipv4Addr::from(rng.next() as u32)),
            1 => WireHostAddr::V6(std::net::Ipv6Addr::from(((rng.next() as u128) << 64) | rng.next() as u128)),
            2 => WireHostAddr::Svc(ServiceAddr(*rng.pick(&[1u16, 2, 0x10, 0x8001, 0xffff, 0, 0x1234]))),
            3 | 4 => {
                // representable unknown types: id 0..3, size 4..16, excluding the nibbles of the known types
                loop {
                    let id = rng.below(4) as u8;
                    let n = (rng.below(4) as usize + 1) * 4;
                    let nib = (id << 2) | (n as u8 / 4 - 1);
                    if nib != 0 && nib != 3 && nib != 4 {
                        let mut bytes = ArrayVec::<[u8; 16]>::new();
                        for b in rng.bytes(n) { bytes.push(b) }
                        return WireHostAddr::Unknown { id, bytes };
                    }
                }
            }
            _ => {
                let id = *rng.pick(&[0u8, 1, 4, 5, 63, 64, 255]);
                let n = *rng.pick(&[0usize, 3, 4, 6, 8, 16]);
                let mut bytes = ArrayVec::<[u8; 16]>::new();
                for b in rng.bytes(n) { bytes.push(b) }
                WireHostAddr::Unknown { id, bytes }
            }
        }
    }
    fn gen_info(rng: &mut Rng) -> InfoField {
        InfoField { flags: InfoFieldFlags::from_bits_retain(*rng.pick(&[0u8, 1, 2, 3, 0xff, 0x80])), segment_id: rng.next() as u16, timestamp: *rng.pick(&[0u32, 1, 0x6000_0000, u32::MAX]) ^ (rng.next() as u32 & 0xff) }
    }
    fn gen_hop(rng: &mut Rng) -> HopField {
        HopField { flags: HopFieldFlags::from_bits_retain(*rng.pick(&[0u8, 1, 2, 3, 0xfc])), expiration_units: rng.next() as u8, cons_ingress: rng.next() as u16, cons_egress: rng.next() as u16, mac: HopFieldMac(rng.bytes(6).try_into().unwrap()) }
    }
    fn gen_path(rng: &mut Rng, adversarial: bool) -> DpPath {
        match rng.below(if adversarial { 8 } else { 6 }) {
            0 => DpPath::Empty,
            1 => DpPath::OneHop(OneHopPath { info: gen_info(rng), hops: [gen_hop(rng), gen_hop(rng)] }),
            // long opaque paths: within the limit of the path alone (984 bytes), with hosts longer than 4 bytes the
            // header passes 1020 bytes
            2 => { let n = *rng.pick(&[0usize, 4, 8, 40, 8, 40, 944, 964, 984]); DpPath::Unsupported { path_type: PathType::from(*rng.pick(&[3u8, 4, 5, 100, 255])), data: rng.bytes(n) } }
            3..=5 => {
                let nseg = rng.range(1, 3) as usize;
                let mut segments = ArrayVec::<[Segment; 3]>::new();
                let mut hops = 0usize;
                for _ in 0..nseg {
                    let n = *rng.pick(&[1usize, 2, 3, 5, 12, 13, 20]);
                    let mut hf = TinyVec::<[HopField; 12]>::new();
                    for _ in 0..n { hf.push(gen_hop(rng)) }
                    hops += n;
                    segments.push(Segment { info_field: gen_info(rng), hop_fields: hf });
                }
                DpPath::Standard(StandardPath { current_info_field: rng.below(nseg as u64) as u8, current_hop_field: rng.below(hops.min(64) as u64) as u8, segments })
            }
            6 => {
                // adversarial standard paths: empty, empty segment, indices out of range, many hops, curr hop > 63
                let shape = rng.below(6);
                let mut segments = ArrayVec::<[Segment; 3]>::new();
                let lens: Vec<usize> = match shape { 0 => vec![], 1 => vec![2, 0], 2 => vec![64], 3 => vec![40, 40], 4 => vec![30, 30, 21], _ => vec![2, 2] };
                for n in &lens {
                    let mut hf = TinyVec::<[HopField; 12]>::new();
                    for _ in 0..*n { hf.push(gen_hop(rng)) }
                    segments.push(Segment { info_field: gen_info(rng), hop_fields: hf });
                }
                let hops: usize = lens.iter().sum();
                let (ci, ch) = match shape { 3 => (rng.below(2) as u8, *rng.pick(&[63u8, 64, 70, 79])), 5 => (*rng.pick(&[0u8, 2, 3]), *rng.pick(&[3u8, 4, 200])), _ => (0, (hops.saturating_sub(1)).min(255) as u8) };
                DpPath::Standard(StandardPath { current_info_field: ci, current_hop_field: ch, segments })
            }
            _ => { let n = *rng.pick(&[0usize, 4, 6, 36, 1000]); DpPath::Unsupported { path_type: *rng.pick(&[PathType::Empty, PathType::Scion, PathType::OneHop, PathType::Other(1), PathType::Other(3), PathType::Epic]), data: rng.bytes(n) } }
        }
    }
    fn gen_data(rng: &mut Rng, sizes: &[usize]) -> Vec<u8> {
        let n = *rng.pick(sizes);
        if n > 4096 { vec![*rng.pick(&[0u8, 0xff, 0x5a]); n] } else { rng.bytes(n) }
    }
    fn gen_scmp(rng: &mut Rng, sizes: &[usize], adversarial: bool) -> ScmpMessage {
        use sciparse::payload::scmp::types::{ScmpDestinationUnreachableCode as DC, ScmpParameterProblemCode as PC};
        let ia = IsdAsn::from_u64(rng.next());
        if adversarial && rng.chance(1, 6) {
            // codes that alias an assigned code: `Unassigned(k)` with an assigned `k`
            return if rng.chance(1, 2) {
                ScmpDestinationUnreachable::new(DC::Unassigned(*rng.pick(&[0u8, 3, 6, 7, 200])), gen_data(rng, sizes)).into()
            } else {
                ScmpParameterProblem::new(PC::Unassigned(*rng.pick(&[0u8, 1, 16, 33, 64, 2, 200])), rng.next() as u16, gen_data(rng, sizes)).into()
            };
        }
        match rng.below(10) {
            0 => ScmpDestinationUnreachable::new(DC::from(rng.next() as u8 % 9), gen_data(rng, sizes)).into(),
            1 => ScmpPacketTooBig::new(rng.next() as u16, gen_data(rng, sizes)).into(),
            2 => ScmpParameterProblem::new(PC::from(*rng.pick(&[0u8, 1, 16, 33, 64, 200])), rng.next() as u16, gen_data(rng, sizes)).into(),
            3 => ScmpExternalInterfaceDown::new(ia, rng.next() as u16, gen_data(rng, sizes)).into(),
            4 => ScmpInternalConnectivityDown::new(ia, rng.next() as u16, rng.next() as u16, gen_data(rng, sizes)).into(),
            5 => ScmpEchoRequest::new(rng.next() as u16, rng.next() as u16, gen_data(rng, sizes)).into(),
            6 => ScmpEchoReply::new(rng.next() as u16, rng.next() as u16, gen_data(rng, sizes)).into(),
            7 => ScmpTracerouteRequest::new(rng.next() as u16, rng.next() as u16).into(),
            8 => ScmpTracerouteReply::new(rng.next() as u16, rng.next() as u16, ia, rng.next() as u16).into(),
            _ => ScmpMessageUnknown::new(*rng.pick(&[0u8, 3, 7, 100, 127, 132, 255, 128, 1]), rng.next() as u8, gen_data(rng, sizes)).into(),
        }
    }
    pub fn gen_model(rng: &mut Rng, adversarial: bool, sizes: &[usize]) -> Model {
        let kind = rng.below(3);
        let header = ScionPacketHeader {
            common: CommonHeader {
                traffic_class: rng.next() as u8,
                flow_id: if adversarial && rng.chance(1, 4) { *rng.pick(&[1u32 << 20, u32::MAX, (1 << 20) + 5]) } else { rng.next() as u32 & 0xf_ffff },
                next_header: if adversarial && rng.chance(1, 8) {
                    // `Other(k)` with an assigned `k` aliases the named protocol number on the wire
                    ProtocolNumber::Other(*rng.pick(&[6u8, 17, 43, 201, 202, 203, 5, 204]))
                } else {
                    match kind { 1 => ProtocolNumber::Udp, 2 => ProtocolNumber::Scmp, _ => ProtocolNumber::from(*rng.pick(&[6u8, 17, 202, 0, 255, 43, 201, 203])) }
                },
            },
            address: AddressHeader { dst_ia: IsdAsn::from_u64(rng.next()), src_ia: IsdAsn::from_u64(rng.next()), dst_host_addr: gen_host(rng, adversarial), src_host_addr: gen_host(rng, adversarial) },
            path: gen_path(rng, adversarial),
        };
        let pay = match kind {
            0 => Pay::Raw(gen_data(rng, sizes)),
            1 => Pay::Udp(UdpDatagram::new(rng.next() as u16, rng.next() as u16, gen_data(rng, sizes))),
            _ => Pay::Scmp(gen_scmp(rng, sizes, adversarial)),
        };
        Model { header, pay }
    }

    fn kind_of(m: &Model) -> &'static str {
        match m.pay { Pay::Raw(_) => "raw", Pay::Udp(_) => "udp", Pay::Scmp(_) => "scmp" }
    }
    fn cut(s: &str) -> String {
        if s.len() > 300 { format!("{}…({} chars)", &s[..300], s.len()) } else { s.to_string() }
    }

    /// expected output of the reference decoder, built from the *model that was encoded* (never from the bytes
    /// under test): header fields, UDP ports / length / payload, every SCMP body field in specification order,
    /// reserved bytes zero.  The two checksum fields (`ucs=`, `scs=`) and, for non-UDP payloads, `ulen=` are not
    /// part of the comparison (the checksum is verified by the RFC 1071 oracle below).
    fn expected_ref(m: &Model, bytes: &[u8]) -> String {
        let hs = m.header.required_size();
        let ps = bytes.len() - hs;
        let pay = match &m.pay {
            Pay::Raw(b) => format!("raw:{}", hex(b)),
            Pay::Udp(u) => format!("udp:{}:{}:{}", u.src_port, u.dst_port, hex(&u.payload)),
            Pay::Scmp(sm) => {
                // show_scmp = scmp:<Kind>:<type>:<code>:<vals>:<data>
                let t = show_scmp(sm, false);
                let f: Vec<&str> = t.splitn(6, ':').collect();
                format!("scmp:{}:{}:{}:z0:{}", f[2], f[3], f[4], f[5])
            }
        };
        let ulen = match &m.pay { Pay::Udp(u) => 8 + u.payload.len(), _ => 0 };
        format!("ok v=0 hl={hs} pl={ps} rsv=0 ulen={ulen} ucs=0 scs=0 {} {pay}", show_header(&m.header))
    }
    /// the tokens of a reference-decoder line that take part in the comparison
    fn ref_tokens(line: &str, udp: bool) -> Vec<String> {
        line.split(' ').filter(|t| !(t.starts_with("ucs=") || t.starts_with("scs=") || (!udp && t.starts_with("ulen=")))).map(|t| t.to_string()).collect()
    }

    /// a host address by tag: `v4` | `v6` | `svc` | `u<id>.<len>` (unknown type `id` of `len` bytes)
    fn tag_host(tag: &str, rng: &mut Rng) -> Option<WireHostAddr> {
        Some(match tag {
            "v4" => WireHostAddr::V4(std::net::Ipv4Addr::from(rng.next() as u32)),
            "v6" => WireHostAddr::V6(std::net::Ipv6Addr::from(((rng.next() as u128) << 64) | rng.next() as u128)),
            "svc" => WireHostAddr::Svc(ServiceAddr(rng.next() as u16)),
            t => {
                let (id, n) = t.strip_prefix('u')?.split_once('.')?;
                let (id, n) = (id.parse::<u8>().ok()?, n.parse::<usize>().ok()?);
                if n > 16 { return None }
                let mut bytes = ArrayVec::<[u8; 16]>::new();
                for b in rng.bytes(n) { bytes.push(b) }
                WireHostAddr::Unknown { id, bytes }
            }
        })
    }
    /// host tags by wire length (4 / 8 / 12 / 16 bytes); every one is a representable type nibble
    pub const HOST_TAGS: [&[&str]; 4] = [&["v4", "svc", "u2.4", "u3.4"], &["u0.8", "u1.8", "u2.8", "u3.8"], &["u0.12", "u1.12", "u2.12", "u3.12"], &["v6", "v6", "u1.16", "u2.16", "u3.16"]];
    /// `hdrlimit <dst> <src> <path type> <path bytes> <raw|udp|scmp> <seed>`: a model whose header size is decided by
    /// the host address lengths and an opaque (unsupported-type) path of the given length; everything else is drawn
    /// from `Rng::new(seed)`.  The line is a complete, replayable description of the model (corpus / `--replay`).
    pub fn limit_model(line: &str) -> Option<Model> {
        let w: Vec<&str> = line.split_whitespace().collect();
        let ["hdrlimit", dst, src, pt, plen, kind, seed] = w.as_slice() else { return None };
        let mut rng = Rng::new(seed.parse().ok()?);
        let (pt, plen) = (pt.parse::<u8>().ok()?, plen.parse::<usize>().ok()?);
        if plen > 4096 { return None }
        let (nh, pay) = match *kind {
            "udp" => (ProtocolNumber::Udp, Pay::Udp(UdpDatagram::new(rng.next() as u16, rng.next() as u16, { let n = rng.below(40) as usize; rng.bytes(n) }))),
            "scmp" => (ProtocolNumber::Scmp, Pay::Scmp(ScmpEchoRequest::new(rng.next() as u16, rng.next() as u16, { let n = rng.below(24) as usize; rng.bytes(n) }).into())),
            "raw" => (ProtocolNumber::from(*rng.pick(&[6u8, 253, 0, 255])), Pay::Raw({ let n = rng.below(40) as usize; rng.bytes(n) })),
            _ => return None,
        };
        let header = ScionPacketHeader {
            common: CommonHeader { traffic_class: rng.next() as u8, flow_id: rng.next() as u32 & 0xf_ffff, next_header: nh },
            address: AddressHeader { dst_ia: IsdAsn::from_u64(rng.next()), src_ia: IsdAsn::from_u64(rng.next()), dst_host_addr: tag_host(dst, &mut rng)?, src_host_addr: tag_host(src, &mut rng)? },
            path: DpPath::Unsupported { path_type: PathType::from(pt), data: rng.bytes(plen) },
        };
        Some(Model { header, pay })
    }

    /// one model: encode on both sides, spec oracle on the implementation's bytes
    pub fn model_case(cx: &mut Ctx, stream: &str, m: &Model) {
        model_case_l(cx, stream, m, None)
    }
    /// `line`: a replayable corpus line that rebuilds exactly this model (`hdrlimit …`), if there is one
    pub fn model_case_l(cx: &mut Ctx, stream: &str, m: &Model, line: Option<&str>) {
        let text = show_model(m, true);
        let unrep = unrepresentable(m);
        let (im, bytes) = impl_encode(m);
        let mo = cx.lean.ask(&format!("enc {text}"));
        let class = if im.starts_with("ok") { "ok".to_string() } else { im.split(' ').take(2).collect::<Vec<_>>().join(" ") };
        cx.rep.hit(&format!("encode {}: {}", kind_of(m), &class[..class.len().min(70)]));
        cx.rep.hit(&format!("model: {}", unrep.map(|u| format!("unrepresentable ({u})")).unwrap_or("representable".into())));
        cx.rep.case(&format!("enc|{}", cut(&text)), im.starts_with("ok") || !im.contains("header_size"));
        if cx.lean.differs(&mo, &im) {
            cx.rep.disagree(stream, json!({"model": cut(&text), "line": format!("enc {}", cut(&text))}), &cut(&im), &cut(&mo));
        }
        if im.starts_with("panic") {
            cx.rep.spec_fail("C03:panic:encode", &format!("try_encode_to_vec panicked: {}", cut(&im)), json!({"model": cut(&text)}));
        }
        let Some(bytes) = bytes else { return };
        // the encoder accepted the model.  Length fields of what was written must be truthful (on EVERY encoding the
        // encoder hands out, whatever the model): HdrLen counts the header in 4-byte units, PayloadLen the bytes
        // after the header, the UDP length the datagram.  Sizes are counted from the specification
        // (`spec_header_size`) and from the number of bytes emitted, not taken from the crate or the Lean model.
        {
            let shs = spec_header_size(&m.header);
            let hosts = format!("{} {}", show_host(&m.header.address.dst_host_addr), show_host(&m.header.address.src_host_addr));
            let path = match &m.header.path { DpPath::Unsupported { path_type, data } => format!("unsupported type {} with {} opaque bytes", u8::from(*path_type), data.len()), p => { let t = show_path(p); cut(&t) } };
            let case = |what: &str| json!({"field": what, "spec_header_size": shs, "encoded_bytes": bytes.len(), "wire_first_12_bytes": hex(&bytes[..bytes.len().min(12)]), "hosts": hosts, "path": path, "payload_kind": kind_of(m), "line": line, "model": cut(&text)});
            if bytes.len() < 12 || bytes[5] as usize * 4 != shs {
                let on_wire = bytes.get(5).map(|b| format!("{b} ({} bytes)", *b as usize * 4)).unwrap_or("nothing (fewer than 12 bytes written)".into());
                cx.rep.spec_fail("C03:len-fields:hdr-len", &format!("the encoder accepted a model whose header is {shs} bytes (12 common + 16 ISD-AS + hosts + path) and wrote HdrLen = {on_wire}: the header length on the wire is not truthful{}", if shs > 1020 { " (a header above 255 * 4 = 1020 bytes does not fit the 8-bit field and must be rejected, the value wrapped)" } else { "" }), case("HdrLen"));
            } else if bytes.len() < shs || u16::from_be_bytes([bytes[6], bytes[7]]) as usize != bytes.len() - shs {
                cx.rep.spec_fail("C03:len-fields:payload-len", &format!("PayloadLen = {} but {} bytes were written after the {shs}-byte header", u16::from_be_bytes([bytes[6], bytes[7]]), bytes.len() as i64 - shs as i64), case("PayloadLen"));
            } else if let Pay::Udp(u) = &m.pay {
                let d = &bytes[shs..];
                if d.len() < 8 || u16::from_be_bytes([d[4], d[5]]) as usize != 8 + u.payload.len() || d.len() != 8 + u.payload.len() {
                    cx.rep.spec_fail("C03:len-fields:udp-len", &format!("UDP length field / datagram size does not equal 8 + {} payload bytes ({} bytes after the header)", u.payload.len(), d.len()), case("UDP length"));
                }
            }
            cx.rep.hit("length fields checked");
        }
        if let Some(u) = unrep {
            cx.rep.spec_fail(&format!("C03:unrepresentable-encoded:{u}"), &format!("a model that cannot be represented on the wire ({u}) was encoded ({} bytes) instead of being rejected", bytes.len()), json!({"model": cut(&text), "line": line, "spec_header_size": spec_header_size(&m.header)}));
            return;
        }
        if bytes.len() != impl_required(m) {
            cx.rep.spec_fail("C03:encode-length", &format!("encoded {} bytes, required_size announced {}", bytes.len(), impl_required(m)), json!({"model": cut(&text)}));
        }
        // dirty caller buffer must give the same bytes (no stale byte may survive)
        for extra in [0usize, 3] {
            if let Some(d) = impl_encode_dirty(m, extra) {
                if d != bytes {
                    let pos = d.iter().zip(bytes.iter()).position(|(a, b)| a != b).unwrap_or(bytes.len().min(d.len()));
                    cx.rep.spec_fail("C03:stale-bytes", &format!("try_encode into a non-zero buffer differs from try_encode_to_vec at byte {pos} (a field is not written)"), json!({"model": cut(&text), "offset": pos, "header_size": m.header.required_size(), "payload": match &m.pay { Pay::Scmp(s) => cut(&show_scmp(s, true)), Pay::Udp(_) => "udp".into(), Pay::Raw(_) => "raw".into() }}));
                    break;
                }
            }
        }
        // round trip through the real decoder
        let (dm, dmodel) = impl_decode(kind_of(m), &bytes);
        let want = format!("ok {} {}", bytes.len(), show_model(m, false));
        if dm != want && !quote_truncated(m) {
            cx.rep.spec_fail("C03:roundtrip", "decode(encode(m)) differs from m", json!({"model": cut(&text), "decoded": cut(&dm)}));
        }
        // ... and as values of the Rust types (derived PartialEq): the text above prints numbers, two enum values
        // with the same number are still different models
        if let Some(d) = &dmodel {
            let same = d.header == m.header && match (&d.pay, &m.pay) {
                (Pay::Raw(a), Pay::Raw(b)) => a == b,
                (Pay::Udp(a), Pay::Udp(b)) => a == b,
                (Pay::Scmp(a), Pay::Scmp(b)) => a == b,
                _ => false,
            };
            if !same && !quote_truncated(m) {
                cx.rep.spec_fail("C03:roundtrip-value", "decode(encode(m)) != m as Rust values (an aliasing enum value was accepted by the encoder)", json!({"model": cut(&text), "decoded": cut(&dm)}));
            }
        }
        // the model decoder on the implementation's bytes
        let md = cx.lean.ask(&format!("dec {} {}", kind_of(m), hex(&bytes)));
        if cx.lean.differs(&md, &dm) {
            cx.rep.disagree("decode-of-encoding", json!({"model": cut(&text)}), &cut(&dm), &cut(&md));
        }
        // reference decoder (independent of the layout table) reads the same fields; length fields truthful
        if !quote_truncated(m) && bytes.len() <= 70000 {
            let r = cx.lean.ask(&format!("ref {} {}", kind_of(m), hex(&bytes)));
            let want = expected_ref(m, &bytes);
            let udp = matches!(m.pay, Pay::Udp(_));
            if cx.lean.enabled && ref_tokens(&r, udp) != ref_tokens(&want, udp) {
                cx.rep.spec_fail("C03:ref-disagrees", "the reference decoder (written from the header specification) reads the encoded packet differently from the model that was encoded", json!({"model": cut(&text), "ref": cut(&r), "want": cut(&want)}));
            }
            cx.rep.hit("reference decoder compared");
        }
        // checksum verifies over the SCION pseudo-header
        let hs = m.header.required_size();
        let proto = match m.pay { Pay::Udp(_) => Some(17u8), Pay::Scmp(_) => Some(202u8), _ => None };
        if let Some(p) = proto {
            let msg = &bytes[hs..];
            let mut all = pseudo(&m.header.address, p, msg.len());
            all.extend_from_slice(msg);
            if ones_sum(&all) != 0xffff {
                cx.rep.spec_fail("C03:checksum", "the checksum of the encoded message does not verify over pseudo-header ‖ message", json!({"model": cut(&text)}));
            }
            cx.rep.hit("checksum verified");
        }
        cx.rep.traces += 1;
    }

    /// decoder correspondence + canonical re-encoding on arbitrary bytes
    pub fn bytes_case(cx: &mut Ctx, stream: &str, kind: &str, b: &[u8]) {
        let (im, model) = impl_decode(kind, b);
        let mo = cx.lean.ask(&format!("dec {kind} {}", hex(b)));
        cx.rep.hit(&format!("decode {kind}: {}", im.split(' ').take(if im.starts_with("err") { 3 } else { 1 }).collect::<Vec<_>>().join(" ")));
        cx.rep.case(&format!("dec|{kind}|{}", hex(&b[..b.len().min(64)])), im.starts_with("ok"));
        if cx.lean.differs(&mo, &im) {
            cx.rep.disagree(stream, json!({"kind": kind, "bytes": super::short_hex(b), "line": format!("dec {kind} {}", hex(b))}), &cut(&im), &cut(&mo));
        }
        if im.starts_with("panic") {
            cx.rep.spec_fail("C03:panic:decode", &format!("decoder panicked: {}", cut(&im)), json!({"kind": kind, "bytes": super::short_hex(b)}));
        }
        // canonical encodings re-encode to the same bytes
        if let Some(m) = model {
            let (em, eb) = impl_encode(&m);
            if let Some(eb) = eb {
                if canonical(kind, b, &m) && eb != b {
                    cx.rep.spec_fail("C03:canonical-reencode", "a canonical encoding (consistent length fields, zero reserved bits, valid checksum, no trailing bytes) decodes and re-encodes to different bytes", json!({"kind": kind, "bytes": super::short_hex(b), "reencoded": super::short_hex(&eb)}));
                }
                if eb == b { cx.rep.hit("canonical re-encode identical") }
            } else if canonical(kind, b, &m) {
                // the property: every canonical encoding the decoder accepts re-encodes to the same bytes
                let class = unrepresentable(&m).unwrap_or("other");
                cx.rep.hit(&format!("decoded model not re-encodable: {}", &em[..em.len().min(60)]));
                cx.rep.spec_fail(&format!("C03:canonical-not-reencodable:{class}"), &format!("a canonical encoding is accepted by the decoder but the decoded model is rejected by the encoder ({})", &em[..em.len().min(90)]), json!({"kind": kind, "bytes": super::short_hex(b), "line": format!("dec {kind} {}", hex(b))}));
            }
        }
    }

    /// Canonical(b): the property's side condition, evaluated independently of the crate
    fn canonical(kind: &str, b: &[u8], m: &Model) -> bool {
        if b.len() < 12 { return false }
        let hl = b[5] as usize * 4;
        let pl = u16::from_be_bytes([b[6], b[7]]) as usize;
        if b.len() != hl + pl || b[10] != 0 || b[11] != 0 { return false }
        // reserved bits of the path
        let dl = ((b[9] >> 4) & 3) as usize; let sl = (b[9] & 3) as usize;
        let po = 28 + (dl + 1) * 4 + (sl + 1) * 4;
        for (i, h) in [&m.header.address.dst_host_addr, &m.header.address.src_host_addr].iter().enumerate() {
            if let WireHostAddr::Svc(_) = h {
                let off = if i == 0 { 28 } else { 28 + (dl + 1) * 4 };
                if b[off + 2] != 0 || b[off + 3] != 0 { return false }
            }
        }
        match &m.header.path {
            DpPath::Standard(s) => {
                if b[po + 1] & 0xfc != 0 { return false }
                // segments must be a non-empty prefix, current indices in range
                let lens = [(u32::from_be_bytes([b[po], b[po + 1], b[po + 2], b[po + 3]]) >> 12) & 63, (u32::from_be_bytes([b[po], b[po + 1], b[po + 2], b[po + 3]]) >> 6) & 63, u32::from_be_bytes([b[po], b[po + 1], b[po + 2], b[po + 3]]) & 63];
                if lens[0] == 0 || (lens[1] == 0 && lens[2] != 0) { return false }
                let n = s.segments.len();
                for i in 0..n { if b[po + 4 + 8 * i + 1] != 0 { return false } }
                let hops: usize = s.segments.iter().map(|g| g.hop_fields.len()).sum();
                if s.current_hop_field as usize >= hops || s.current_info_field as usize >= n { return false }
            }
            DpPath::OneHop(_) => { if b[po + 1] != 0 { return false } }
            _ => {}
        }
        let proto = match kind { "udp" => 17u8, "scmp" => 202, _ => return true };
        let msg = &b[hl..];
        if kind == "udp" && (msg.len() < 8 || u16::from_be_bytes([msg[4], msg[5]]) as usize != msg.len()) { return false }
        if kind == "scmp" {
            if msg.len() < 8 { return false }
            match msg[0] {
                1 => { if msg[4..8] != [0, 0, 0, 0] { return false } }
                2 | 4 => { if msg[4..6] != [0, 0] || (msg[0] == 2 && msg[1] != 0) { return false } }
                5 => { if msg.len() < 20 || msg[1] != 0 || msg[12..18] != [0; 6] { return false } }
                6 => { if msg.len() < 28 || msg[1] != 0 || msg[12..18] != [0; 6] || msg[20..26] != [0; 6] { return false } }
                128 | 129 => { if msg[1] != 0 { return false } }
                130 => { if msg.len() != 24 || msg[1] != 0 || msg[8..24] != [0; 16] { return false } }
                131 => { if msg.len() != 24 || msg[1] != 0 || msg[16..22] != [0; 6] { return false } }
                _ => { if msg[4..8] != [0, 0, 0, 0] { return false } }
            }
            if matches!(msg[0], 1 | 2 | 4 | 5 | 6) && b.len() > 1232 { return false }
        }
        let mut all = pseudo(&m.header.address, proto, msg.len());
        all.extend_from_slice(msg);
        ones_sum(&all) == 0xffff
    }

    /// checksum digest at both alignments vs the reference and the Lean model
    pub fn checksum_cases(cx: &mut Ctx, n: usize) {
        let mut rng = cx.rng.fork();
        for i in 0..n {
            let addr = AddressHeader { dst_ia: IsdAsn::from_u64(rng.next()), src_ia: IsdAsn::from_u64(rng.next()), dst_host_addr: gen_host(&mut rng, false), src_host_addr: gen_host(&mut rng, false) };
            let len = *rng.pick(&[0usize, 1, 2, 3, 7, 8, 9, 64, 65, 1231, 1232, 1500]) + if i % 7 == 0 { 60000 } else { 0 };
            let data = if i % 5 == 0 { vec![0xffu8; len] } else { rng.bytes(len) };
            let proto = *rng.pick(&[17u8, 202]);
            // place the data at an even and at an odd address
            let mut arena = vec![0u8; len + 2];
            let base_even = if (arena.as_ptr() as usize) % 2 == 0 { 0 } else { 1 };
            let mut out = vec![];
            for odd in [0usize, 1] {
                let o = base_even + odd;
                arena[o..o + len].copy_from_slice(&data);
                let sl = &arena[o..o + len];
                let r = catch(|| ChecksumDigest::with_pseudoheader(&addr, proto, sl).add_slice(sl).checksum());
                out.push(r.map(|x| x as u32).unwrap_or(0x1_0000));
            }
            let mut all = pseudo(&addr, proto, len);
            all.extend_from_slice(&data);
            let want = (!ones_sum(&all) as u16) as u32;
            cx.rep.hit("checksum at both alignments");
            cx.rep.case(&format!("cksum|{len}|{}", hex(&data[..len.min(16)])), len > 0);
            if out[0] != want || out[1] != want {
                cx.rep.spec_fail("C03:checksum-alignment", &format!("ChecksumDigest gives {:#x} (even address) / {:#x} (odd address), RFC 1071 reference {:#x}", out[0], out[1], want), json!({"len": len, "data": super::short_hex(&data)}));
            }
            let mo = cx.lean.ask(&format!("cksum {} {} {} {} {proto} 1{}{} {}", addr.dst_ia.to_u64(), addr.src_ia.to_u64(), hex(&host_bytes(&addr.dst_host_addr)), hex(&host_bytes(&addr.src_host_addr)), rng.below(2), rng.below(2), if data.iter().all(|x| *x == 0xff) && len > 4096 { format!("rep:255:{len}") } else { hex(&data) }));
            let im = format!("{} {}", out[0], want);
            if cx.lean.differs(&mo, &im) {
                cx.rep.disagree("checksum", json!({"len": len}), &im, &mo);
            }
        }
    }
}


/// deterministic probes: the concrete models of DESIGN.md §9 row 4 and of the other fixed C03 defects; each must
/// be rejected (or encode identically into a dirty buffer) on the fixed tree
fn probes_c03(cx: &mut Ctx) {
    use c03::*;
    use sciparse::{
        address::host_addr::WireHostAddr,
        dataplane_path::{model::DpPath, standard::model::{HopField, InfoField, Segment, StandardPath}, types::PathType},
        payload::{scmp::model::ScmpMessageUnknown, udp::model::UdpDatagram},
        reexport::tinyvec::{ArrayVec, TinyVec},
    };
    let mut rng = Rng::new(3);
    let base = |rng: &mut Rng| { let mut m = gen_model(rng, false, &[4]); m.header.path = DpPath::Empty; m.header.address.dst_host_addr = WireHostAddr::V4(std::net::Ipv4Addr::new(10, 0, 0, 1)); m.header.address.src_host_addr = WireHostAddr::V4(std::net::Ipv4Addr::new(10, 0, 0, 2)); m };
    // raw payload of 70 000 bytes (was: PayloadLen = 4464), UDP payload of 65 530 bytes (was: PayloadLen = 2)
    let mut m = base(&mut rng); m.pay = Pay::Raw(vec![7u8; 70000]); model_case(cx, "probe", &m);
    let mut m = base(&mut rng); m.pay = Pay::Udp(UdpDatagram::new(1, 2, vec![9u8; 65530])); model_case(cx, "probe", &m);
    let mut m = base(&mut rng); m.pay = Pay::Udp(UdpDatagram::new(1, 2, vec![9u8; 65527])); model_case(cx, "probe", &m);
    // Unknown{id:0, 4 bytes} aliases IPv4; id 5 does not fit
    for (id, n) in [(0u8, 4usize), (0, 16), (1, 4), (5, 8), (64, 8)] {
        let mut m = base(&mut rng);
        let mut bytes = ArrayVec::<[u8; 16]>::new();
        for b in rng.bytes(n) { bytes.push(b) }
        m.header.address.dst_host_addr = WireHostAddr::Unknown { id, bytes };
        m.pay = Pay::Raw(vec![1, 2, 3, 4]);
        model_case(cx, "probe", &m);
    }
    // unsupported path with a supported / non-canonical type
    for t in [PathType::Scion, PathType::OneHop, PathType::Empty, PathType::Other(1), PathType::Other(3)] {
        let mut m = base(&mut rng);
        m.header.path = DpPath::Unsupported { path_type: t, data: rng.bytes(36) };
        model_case(cx, "probe", &m);
    }
    // current hop 70 of 80 hop fields (6-bit field); and a path whose reserved meta bits must be written
    {
        let mk = |rng: &mut Rng, lens: &[usize], ch: u8| {
            let mut segments = ArrayVec::<[Segment; 3]>::new();
            for n in lens {
                let mut hf = TinyVec::<[HopField; 12]>::new();
                for _ in 0..*n { hf.push(HopField::empty()) }
                segments.push(Segment { info_field: InfoField { flags: Default::default(), segment_id: rng.next() as u16, timestamp: 5 }, hop_fields: hf });
            }
            DpPath::Standard(StandardPath { current_info_field: 0, current_hop_field: ch, segments })
        };
        let mut m = base(&mut rng); m.header.path = mk(&mut rng, &[40, 40], 70); model_case(cx, "probe", &m);
        let mut m = base(&mut rng); m.header.path = mk(&mut rng, &[2, 3], 4); model_case(cx, "probe", &m);
    }
    // unknown SCMP message with a known type; and one with an unknown type (bytes 4..8 must be written)
    for t in [128u8, 1, 131, 77] {
        let mut m = base(&mut rng);
        m.header.common.next_header = sciparse::payload::ProtocolNumber::Scmp;
        m.pay = Pay::Scmp(ScmpMessageUnknown::new(t, 3, rng.bytes(12)).into());
        model_case(cx, "probe", &m);
    }
    // the header at its limits: HdrLen 255 (1020 bytes) accepted, 1024 rejected; a 63-hop segment; exactly 64 hop
    // fields with the current hop field 63; the same one hop field longer
    {
        let mk = |rng: &mut Rng, lens: &[usize], ci: u8, ch: u8| {
            let mut segments = ArrayVec::<[Segment; 3]>::new();
            for n in lens {
                let mut hf = TinyVec::<[HopField; 12]>::new();
                for _ in 0..*n { hf.push(HopField { flags: Default::default(), expiration_units: rng.next() as u8, cons_ingress: rng.next() as u16, cons_egress: rng.next() as u16, mac: sciparse::dataplane_path::standard::types::HopFieldMac(rng.bytes(6).try_into().unwrap()) }) }
                segments.push(Segment { info_field: InfoField { flags: Default::default(), segment_id: rng.next() as u16, timestamp: rng.next() as u32 }, hop_fields: hf });
            }
            DpPath::Standard(StandardPath { current_info_field: ci, current_hop_field: ch, segments })
        };
        for n in [980usize, 984, 988, 1000] {
            let mut m = base(&mut rng);
            m.header.path = DpPath::Unsupported { path_type: PathType::from(5), data: rng.bytes(n) };
            model_case(cx, "probe-limits", &m);
        }
        for (lens, ci, ch) in [(vec![63usize], 0u8, 62u8), (vec![63, 1], 1, 63), (vec![62, 1, 1], 2, 63), (vec![32, 32], 1, 63), (vec![63, 2], 1, 63), (vec![22, 21, 21], 2, 63), (vec![1, 63], 1, 1), (vec![1, 1, 62], 2, 63)] {
            let mut m = base(&mut rng);
            m.header.path = mk(&mut rng, &lens, ci, ch);
            model_case(cx, "probe-limits", &m);
            // the same with 16-byte addresses
            m.header.address.dst_host_addr = WireHostAddr::V6(std::net::Ipv6Addr::from(rng.next() as u128));
            m.header.address.src_host_addr = WireHostAddr::V6(std::net::Ipv6Addr::from(rng.next() as u128));
            model_case(cx, "probe-limits", &m);
        }
    }
    // HdrLen is 8 bits: hosts longer than 4 bytes with an opaque path that is within the limit of the path alone
    // (984 bytes) give a header of 1024..1044 bytes, which must be rejected; 1020 exactly is accepted
    for l in ["hdrlimit v6 v6 3 960 raw 1", "hdrlimit v6 v6 3 964 raw 2", "hdrlimit v6 v6 4 984 scmp 3", "hdrlimit v6 v4 3 984 udp 4", "hdrlimit u1.8 u2.12 5 980 raw 5", "hdrlimit svc u0.8 255 984 udp 6", "hdrlimit u3.16 u0.12 3 964 udp 7", "hdrlimit u0.12 u0.8 3 972 raw 8"] {
        if let Some(m) = limit_model(l) { model_case_l(cx, "probe-limits", &m, Some(l)) }
    }
    // (open) a canonical packet whose standard path has 65 hop fields (32 + 33; header 36 + 4 + 16 + 780 = 836 bytes)
    // is accepted by the decoder, but its model cannot be re-encoded since b07ca50 (more than 64 hop fields)
    {
        let mk = |rng: &mut Rng, lens: &[usize]| {
            let mut segments = ArrayVec::<[Segment; 3]>::new();
            for n in lens {
                let mut hf = TinyVec::<[HopField; 12]>::new();
                for _ in 0..*n { hf.push(HopField::empty()) }
                segments.push(Segment { info_field: InfoField { flags: Default::default(), segment_id: rng.next() as u16, timestamp: 5 }, hop_fields: hf });
            }
            DpPath::Standard(StandardPath { current_info_field: 0, current_hop_field: 3, segments })
        };
        let mut m = base(&mut rng);
        m.header.common.next_header = sciparse::payload::ProtocolNumber::Other(253);
        m.header.path = mk(&mut rng, &[32, 32]);
        m.pay = Pay::Raw(vec![1, 2, 3, 4]);
        if let (_, Some(mut b)) = impl_encode(&m) {
            let hs = b[5] as usize * 4;
            let po = 36;
            let meta = u32::from_be_bytes([b[po], b[po + 1], b[po + 2], b[po + 3]]) + (1 << 6);
            b[po..po + 4].copy_from_slice(&meta.to_be_bytes());
            let tail = b.split_off(hs);
            b.extend_from_slice(&[0u8; 12]);
            b.extend_from_slice(&tail);
            b[5] += 3;
            bytes_case(cx, "probe", "raw", &b);
        }
    }
    // (fixed, 700dda7) enum values that alias another value on the wire: ProtocolNumber::Other(assigned),
    // ScmpDestinationUnreachableCode::Unassigned(0..=6), ScmpParameterProblemCode::Unassigned(assigned)
    {
        use sciparse::payload::{ProtocolNumber, scmp::{model::{ScmpDestinationUnreachable, ScmpParameterProblem}, types::{ScmpDestinationUnreachableCode as DC, ScmpParameterProblemCode as PC}}};
        for k in [6u8, 17, 43, 201, 202, 203] {
            let mut m = base(&mut rng);
            m.header.common.next_header = ProtocolNumber::Other(k);
            m.pay = Pay::Raw(vec![0, 1, 0, 2, 0, 12, 0, 0, 9, 9, 9, 9]);
            model_case(cx, "probe", &m);
        }
        for k in [0u8, 3, 6] {
            let mut m = base(&mut rng);
            m.header.common.next_header = ProtocolNumber::Scmp;
            m.pay = Pay::Scmp(ScmpDestinationUnreachable::new(DC::Unassigned(k), rng.bytes(16)).into());
            model_case(cx, "probe", &m);
        }
        for k in [0u8, 1, 16, 33, 64] {
            let mut m = base(&mut rng);
            m.header.common.next_header = ProtocolNumber::Scmp;
            m.pay = Pay::Scmp(ScmpParameterProblem::new(PC::Unassigned(k), 7, rng.bytes(16)).into());
            model_case(cx, "probe", &m);
        }
    }
    cx.rep.hit_n("deterministic probes", 42);
}

fn run_c03(cx: &mut Ctx, args: &Args) {
    use c03::*;
    let mut rng = cx.rng.fork();
    let small: Vec<usize> = vec![0, 1, 2, 7, 8, 9, 31, 64, 200, 1180, 1232, 1400];
    let boundary: Vec<usize> = vec![0, 1, 65526, 65527, 65528, 65529, 65530, 65531, 65532, 65533, 65534, 65535, 65536, 70000, 1 << 17];
    // structured, mostly representable models
    for _ in 0..args.scale(3000, 100000) {
        let m = gen_model(&mut rng, false, &small);
        model_case(cx, "models", &m);
    }
    // adversarial models: unrepresentable hosts / paths / indices / flow ids
    for _ in 0..args.scale(1500, 30000) {
        let m = gen_model(&mut rng, true, &small);
        model_case(cx, "adversarial-models", &m);
    }
    // boundary payload sizes (all payload kinds × every boundary size)
    for round in 0..args.scale(2, 12) {
        for &n in &boundary {
            for _ in 0..3 {
                let mut m = gen_model(&mut rng, false, &[n]);
                if round % 2 == 0 { m.header.path = sciparse::dataplane_path::model::DpPath::Empty }
                model_case(cx, "boundary-payload", &m);
            }
        }
    }
    // payload sizes between the MTU range and the 16-bit limits
    for &n in &[1401usize, 4096, 9000, 32767, 32768, 65000] {
        for _ in 0..args.scale(3, 12) {
            let m = gen_model(&mut rng, false, &[n]);
            model_case(cx, "mid-payload", &m);
        }
    }
    // the header around the 8-bit HdrLen limit (255 * 4 = 1020 bytes) for every pair of host address lengths
    // (4 / 8 / 12 / 16 bytes: IPv4, service, IPv6, every unknown type) with an opaque path: path lengths from just
    // below the header limit up to and beyond the limit of the path alone (984); every payload kind
    for _ in 0..args.scale(2, 24) {
        for (di, dtags) in HOST_TAGS.iter().enumerate() {
            for (si, stags) in HOST_TAGS.iter().enumerate() {
                let exact = 1020 - 28 - 4 * (di + 1) - 4 * (si + 1);
                let mut lens: Vec<usize> = (0..).map(|k| exact - 4 + 4 * k).take_while(|n| *n <= 988).collect();
                if rng.chance(1, 3) { lens.push(exact + 2) }
                for n in lens {
                    let l = format!("hdrlimit {} {} {} {n} {} {}", rng.pick(dtags), rng.pick(stags), rng.pick(&[3u8, 4, 5, 100, 255]), rng.pick(&["raw", "udp", "scmp"]), rng.next() >> 16);
                    let m = limit_model(&l).expect("hdrlimit line");
                    model_case_l(cx, "header-limit", &m, Some(&l));
                }
            }
        }
    }
    // decoder: encodings, mutated encodings, truncations, trailing bytes
    for _ in 0..args.scale(2500, 80000) {
        let m = gen_model(&mut rng, false, &small[..9]);
        let (_, b) = impl_encode(&m);
        let Some(mut b) = b else { continue };
        let kind = match m.pay { Pay::Raw(_) => "raw", Pay::Udp(_) => "udp", Pay::Scmp(_) => "scmp" };
        bytes_case(cx, "decode-canonical", kind, &b);
        match rng.below(6) {
            0 => { let k = rng.below(b.len() as u64 + 1) as usize; b.truncate(k) }
            1 => { let n = 1 + rng.below(9) as usize; b.extend_from_slice(&rng.bytes(n)) }
            2 => { let k = rng.below(b.len() as u64) as usize; b[k] ^= 1 << rng.below(8) }
            3 => { let k = rng.below(12.min(b.len()) as u64) as usize; b[k] = rng.next() as u8 }
            4 => { let k = rng.below(b.len() as u64) as usize; b[k] = b[k].wrapping_add(1) }
            _ => {}
        }
        let k2 = *rng.pick(&["raw", "udp", "scmp", kind, kind]);
        bytes_case(cx, "decode-mutated", k2, &b);
    }
    checksum_cases(cx, args.scale(400, 8000));
    probes_c03(cx);
}

fn replay_line(cx: &mut Ctx, l: &str) {
    let w: Vec<&str> = l.split_whitespace().collect();
    match w.as_slice() {
        ["size", kind, hx] => {
            if let Some(b) = unhex(hx) { size_case(cx, "corpus", kind, &b, true); }
        }
        ["view", kind, hx] => {
            if let Some(b) = unhex(hx) {
                let im = size_case(cx, "corpus", kind, &b, true);
                if im.starts_with("ok") { mutate_view(cx, kind, &b, 4) }
            }
        }
        ["dec", kind, hx] => {
            if let Some(b) = unhex(hx) { c03::bytes_case(cx, "corpus", kind, &b) }
        }
        ["hdrlimit", ..] => match c03::limit_model(l) {
            Some(m) => c03::model_case_l(cx, "corpus", &m, Some(l)),
            None => cx.rep.notes.push(format!("unparseable hdrlimit line: {}", &l[..l.len().min(80)])),
        },
        _ => cx.rep.notes.push(format!("unparseable corpus line: {}", &l[..l.len().min(60)])),
    }
}

fn main() {
    let args = Args::parse();
    quiet_panics();
    install_fault_handler(&args.out, &args.prop);
    let lean = Lean::spawn(&args.driver);
    let rule = if args.prop == "C03" {
        "case = packet model (header with every address type incl. service / unknown 4-16 B, every path kind, raw / UDP / every SCMP kind, \
         boundary payload sizes) encoded by the real try_encode_to_vec and by the Lean model, or a byte string decoded by the real \
         TryFromView::try_from_slice and by the Lean model; spec oracle on the implementation's bytes: announced length, HdrLen / PayloadLen / UDP length \
         against sizes counted from the specification on every accepted encoding, dirty-buffer encode, real round trip, reference decoder written from the header spec, length fields, RFC 1071 checksum over the pseudo-header, \
         unrepresentable models must be rejected, canonical encodings re-encode identically. Non-trivial = encode accepted or rejected for a \
         reason other than header size / decode accepted; distinct by hash of the model text / (kind, first 64 bytes)"
    } else {
        "case = (view kind, byte string): has_required_size of the real view vs the Lean model (Ok/Err class, size, error \
         location/required/actual), spec oracle on the implementation (size ≤ input, re-parse of the prefix, no panic), every \
         accepted view exercised flush against a guard page with all accessors/mutators and with random safe-mutator sequences. \
         Non-trivial = accepted, or rejected at a check beyond the bare common-header length test; distinct by hash of \
         (kind, length, first 48 bytes, result)"
    };
    let mut cx = Ctx { lean, rep: Report::new(&args.prop, rule), arena: Arena::new(24), rng: Rng::new(args.seed), exercised: 0 };
    let corpus = read_corpus(&args.corpus);
    cx.rep.hit_n("corpus lines", corpus.len() as u64);
    if args.prop == "C02" { load_setter_table(&mut cx) }
    if let Some(p) = &args.replay {
        let txt = std::fs::read_to_string(p).expect("replay file");
        for l in txt.lines() { let l = l.trim(); if !l.is_empty() && !l.starts_with('#') { replay_line(&mut cx, l) } }
    } else {
        for l in &corpus { replay_line(&mut cx, l) }
        match args.prop.as_str() {
            "C02" => run_c02(&mut cx, &args),
            "C03" => run_c03(&mut cx, &args),
            other => cx.rep.notes.push(format!("property {other} not served by this build of hx_codec")),
        }
    }
    cx.rep.traces = cx.exercised;
    cx.rep.hit_n("driver requests", cx.lean.requests);
    let mut by: BTreeMap<String, u64> = BTreeMap::new();
    for (k, v) in &cx.rep.distribution { if k.starts_with("exercised") { *by.entry("views exercised".into()).or_insert(0) += v } }
    for (k, v) in by { cx.rep.hit_n(&k, v) }
    if cx.rep.samples.is_empty() {
        cx.rep.sample(json!({"kind": "header", "note": "see distribution"}));
    }
    cx.rep.write(&args.out);
    std::process::exit(if cx.rep.ok() { 0 } else { 1 });
}
