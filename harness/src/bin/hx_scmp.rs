//! C14 — correspondence + spec oracle for SCMP construction and handling.
//!
//! Streams
//!  * `build`  : every SCMP error kind × host-address kinds (v4/v6/svc) × paths (empty, arbitrary standard, long standard
//!               paths that push the header towards 1020 B) × offending-packet lengths 0..9216 (dense around the truncation
//!               boundary) through the real `ScionScmpPacket::new(..).try_encode_to_vec()` and `.into_raw()` paths; echo
//!               request/reply packets.  Compared byte-for-byte with the Lean model (`errpkt`, `echopkt`).
//!  * `recv`   : received packets of every SCMP type/code (well-formed with a valid checksum, truncated, wrong checksum,
//!               error quoting an error, inconsistent PayloadLen), echo requests over reversible and irreversible paths and
//!               all host kinds, UDP datagrams, other protocols – singly and in random interleavings – through the real
//!               `PathUnawareUdpScionSocket::recv_from` loop over an in-memory underlay with the real `ScmpErrorHandler`
//!               (0–3 recording receivers) and `DefaultEchoHandler`.  Compared with the model (`recv`).
//!  * `sim`    : the same packets through pocketscion's `LocalNetworkSimulation::handle_local_routing_action`
//!               (`IngressSCMPHandleRequest` → `handle_scmp`, `SendSCMPErrorResponse(kind)` → `maybe_create_scmp_reply`).
//!  * `receivers`: the production receiver list (`Subscribers`, weak references) behind `ScmpErrorHandler`: histories of
//!               {register receiver, drop receiver k, bind another socket, close a socket, SCMP error / datagram arrive}
//!               on a real `ScionStack` (hooks `stack_over_queues`, `register_scmp_error_receiver`, `ScionStack::bind`) and
//!               on a socket assembled with the real handler; every order of drops of 1..5 receivers + random histories.
//!               Compared with the list model (`subs`); oracle keys `C14:receivers:*`.
//! Spec oracle (independent Rust code, literal offsets) on the implementation's own output: error packets ≤ 1232 B, quote =
//! longest allowed prefix of the offending packet, checksum verifies (RFC 1071 over pseudo-header ++ message); an echo
//! request yields exactly one echo reply with the same id/seq/data, swapped addresses and the reversed path; SCMP types
//! < 128, malformed SCMP and SCMP with a wrong checksum never trigger a reply; every well-formed SCMP error reaches every
//! receiver exactly once with the packet's path; the UDP delivery sequence equals the one obtained with all SCMP packets
//! removed.
use std::{
    net::{IpAddr, Ipv4Addr, Ipv6Addr, SocketAddr},
    sync::{Arc, Mutex},
};

use pocketscion::network::{
    local::{external_as_registry::ExternalAsRegistry, receiver_registry::NetworkReceiverRegistry, receivers::Receiver, simulator::LocalNetworkSimulation},
    scion::{
        routing::{AsRoutingAction, LocalAsRoutingAction, ScionNetworkTime, spec::SpecRoutingLogic},
        segment::registry::SegmentRegistry,
        simulator::ScionNetworkSim,
        topology::{ScionRouter, ScionTopology},
        util::test_helper::test_topology,
    },
    simulator::NetworkSimulator,
};
use scion_stack::stack::{
    scmp_handler::{DefaultEchoHandler, ScmpErrorReceiver, ScmpHandler},
    verif_scmp,
};
use sciparse::{
    address::{addr::ScionAddr, host_addr::{ScionHostAddr, ServiceAddr}, ip_socket_addr::ScionSocketIpAddr, socket_addr::ScionSocketAddr},
    core::{encode::WireEncode, view::View},
    dataplane_path::{model::DpPath, standard::model::StandardPath, view::{ScionDpPathViewExt, ScionDpPathViewRef}},
    identifier::isd_asn::IsdAsn,
    packet::{model::{ScionRawPacket, ScionScmpPacket, ScionUdpPacket}, view::ScionRawPacketView},
    payload::{
        ProtocolNumber,
        scmp::{
            model::{
                ScmpDestinationUnreachable, ScmpEchoReply, ScmpEchoRequest, ScmpErrorMessage, ScmpExternalInterfaceDown,
                ScmpInternalConnectivityDown, ScmpMessage, ScmpPacketTooBig, ScmpParameterProblem, ScmpTracerouteRequest,
            },
        },
    },
    util::ToValue,
};
use serde_json::json;
use verif_harness::*;

const MAX_ERR: usize = sciparse::payload::scmp::layout::SCMP_ERROR_MAX_PACKET_SIZE;

// ---------------------------------------------------------------------------------------------
// independent helpers (literal offsets)

fn host_len(nib: u8) -> usize {
    4 * ((nib & 3) as usize + 1)
}
fn hdr_len(p: &[u8]) -> usize {
    4 * p[5] as usize
}
fn addr_end(p: &[u8]) -> usize {
    28 + host_len(p[9] >> 4) + host_len(p[9] & 15)
}
/// RFC 1071 over pseudo-header ++ message, checksum in place
fn ones_sum(parts: &[&[u8]]) -> u16 {
    let mut all: Vec<u8> = vec![];
    for p in parts {
        all.extend_from_slice(p);
    }
    if all.len() % 2 == 1 {
        all.push(0);
    }
    let mut s: u64 = all.chunks(2).map(|c| ((c[0] as u64) << 8) | c[1] as u64).sum();
    while s > 0xffff {
        s = (s >> 16) + (s & 0xffff);
    }
    s as u16
}
fn checksum_ok(pkt: &[u8]) -> bool {
    let h = hdr_len(pkt);
    if pkt.len() < h {
        return false;
    }
    let msg = &pkt[h..];
    ones_sum(&[&pkt[12..addr_end(pkt)], &(msg.len() as u32).to_be_bytes(), &[0, 0, 0, pkt[4]], msg]) == 0xffff
}
/// write a correct checksum into the SCMP/UDP message of `pkt` (offset of the checksum field inside the message: `off`)
fn fix_checksum(pkt: &mut [u8], off: usize) {
    let h = hdr_len(pkt);
    pkt[h + off] = 0;
    pkt[h + off + 1] = 0;
    let msg = pkt[h..].to_vec();
    let s = ones_sum(&[&pkt[12..addr_end(pkt)], &(msg.len() as u32).to_be_bytes(), &[0, 0, 0, pkt[4]], &msg]);
    let c = !s;
    pkt[h + off] = (c >> 8) as u8;
    pkt[h + off + 1] = c as u8;
}
fn set_payload(pkt: &[u8], payload: &[u8]) -> Vec<u8> {
    let h = hdr_len(pkt);
    let mut v = pkt[..h].to_vec();
    v[6] = (payload.len() >> 8) as u8;
    v[7] = payload.len() as u8;
    v.extend_from_slice(payload);
    v
}

fn ia() -> IsdAsn {
    "1-ff00:0:110".parse().unwrap()
}
fn ia2() -> IsdAsn {
    "2-ff00:0:220".parse().unwrap()
}
fn hosts() -> Vec<ScionHostAddr> {
    vec![
        ScionHostAddr::V4(Ipv4Addr::new(10, 0, 0, 7)),
        ScionHostAddr::V6(Ipv6Addr::new(0x2001, 0xdb8, 0, 0, 0, 0, 0, 9)),
        ScionHostAddr::Svc(ServiceAddr(2)),
    ]
}
fn host_nib_bytes(h: &ScionHostAddr) -> (u8, Vec<u8>) {
    match h {
        ScionHostAddr::V4(a) => (0, a.octets().to_vec()),
        ScionHostAddr::V6(a) => (3, a.octets().to_vec()),
        ScionHostAddr::Svc(s) => (4, vec![(s.0 >> 8) as u8, s.0 as u8, 0, 0]),
    }
}

fn gen_path(rng: &mut Rng) -> DpPath {
    match rng.below(6) {
        0 | 1 => DpPath::Empty,
        _ => DpPath::Standard(StandardPath::arbitrary_value(rng.next() as u128)),
    }
}

/// `<pathType>:<hex>` of an encoded path
fn path_spec(p: &DpPath) -> Option<String> {
    let b = p.try_encode_to_vec().ok()?;
    Some(format!("{}:{}", u8::from(p.path_type()), hex(&b)))
}

/// reversal oracle computed by the real code (`DpPath::try_into_reversed`, property C12)
fn rev_spec(pkt: &[u8]) -> String {
    let Ok((v, _)) = ScionRawPacketView::try_from_slice(pkt) else { return "fail".into() };
    match catch(|| v.header().path().to_model().try_into_reversed().ok().and_then(|p| path_spec(&p))) {
        Ok(Some(s)) => s,
        _ => "fail".into(),
    }
}

// ---------------------------------------------------------------------------------------------
// stream `build`

#[derive(Clone, Debug)]
enum Kind {
    Du(u8),
    Ptb(u16),
    Pp(u8, u16),
    Eid(u64, u16),
    Icd(u64, u16, u16),
}
impl Kind {
    fn spec(&self) -> String {
        match self {
            Kind::Du(c) => format!("du:{c}"),
            Kind::Ptb(m) => format!("ptb:{m}"),
            Kind::Pp(c, p) => format!("pp:{c}:{p}"),
            Kind::Eid(ia, i) => format!("eid:{ia}:{i}"),
            Kind::Icd(ia, i, e) => format!("icd:{ia}:{i}:{e}"),
        }
    }
    fn fixed(&self) -> usize {
        match self {
            Kind::Du(_) | Kind::Ptb(_) | Kind::Pp(..) => 8,
            Kind::Eid(..) => 20,
            Kind::Icd(..) => 28,
        }
    }
    fn ty(&self) -> u8 {
        match self {
            Kind::Du(_) => 1,
            Kind::Ptb(_) => 2,
            Kind::Pp(..) => 4,
            Kind::Eid(..) => 5,
            Kind::Icd(..) => 6,
        }
    }
    fn msg(&self, off: Vec<u8>) -> ScmpMessage {
        self.err(off).into()
    }
    fn err(&self, off: Vec<u8>) -> ScmpErrorMessage {
        match self {
            Kind::Du(c) => ScmpDestinationUnreachable::new((*c).into(), off).into(),
            Kind::Ptb(m) => ScmpPacketTooBig::new(*m, off).into(),
            Kind::Pp(c, p) => ScmpParameterProblem::new((*c).into(), *p, off).into(),
            Kind::Eid(ia, i) => ScmpExternalInterfaceDown::new(IsdAsn::from(*ia), *i, off).into(),
            Kind::Icd(ia, i, e) => ScmpInternalConnectivityDown::new(IsdAsn::from(*ia), *i, *e, off).into(),
        }
    }
}
fn gen_kind(rng: &mut Rng, which: u64) -> Kind {
    match which % 5 {
        0 => Kind::Du(*rng.pick(&[0u8, 3, 4, 6, 200])),
        1 => Kind::Ptb(*rng.pick(&[0u16, 1280, 1472, 65535])),
        2 => Kind::Pp(*rng.pick(&[0u8, 16, 20, 33, 51, 255]), rng.next() as u16),
        3 => Kind::Eid(ia2().to_u64(), rng.next() as u16),
        _ => Kind::Icd(ia2().to_u64(), rng.next() as u16, rng.next() as u16),
    }
}

fn gk(rng: &mut Rng) -> Kind {
    let w = rng.next();
    gen_kind(rng, w)
}

fn addr_args(src: &ScionAddr, dst: &ScionAddr) -> String {
    let (sn, sb) = host_nib_bytes(&src.host());
    let (dn, db) = host_nib_bytes(&dst.host());
    format!("{} {} {} {} {} {}", dst.isd_asn().to_u64(), src.isd_asn().to_u64(), dn, sn, hex(&db), hex(&sb))
}

fn build_stream(rng: &mut Rng, lean: &mut Lean, rep: &mut Report, rounds: usize) {
    let hs = hosts();
    for round in 0..rounds {
        let src = ScionAddr::new(ia(), *rng.pick(&hs));
        let dst = ScionAddr::new(ia2(), *rng.pick(&hs));
        let path = gen_path(rng);
        let Some(pspec) = path_spec(&path) else { continue };
        let (pt, phex) = pspec.split_once(':').unwrap();
        let kind = gen_kind(rng, round as u64);
        let hdr = 28 + host_nib_bytes(&src.host()).1.len() + host_nib_bytes(&dst.host()).1.len() + unhex(phex).unwrap().len();
        let budget = MAX_ERR.saturating_sub(hdr).saturating_sub(kind.fixed());
        let sizes = [0usize, 1, 7, budget.saturating_sub(1), budget, budget + 1, budget + 2, MAX_ERR, 2000, 9215, 9216, rng.below(9217) as usize,
                     rng.below(1400) as usize];
        for &n in &sizes {
            let off = rng.bytes(n);
            let model_pkt = ScionScmpPacket::new(src, dst, path.clone(), kind.msg(off.clone()));
            let direct = catch(|| model_pkt.try_encode_to_vec());
            let via_raw = catch(|| ScionRawPacket::from(model_pkt.clone()).try_encode_to_vec());
            let im = match &direct {
                Ok(Ok(b)) => format!("pkt {}", hex(b)),
                Ok(Err(_)) => "invalid".into(),
                Err(_) => "panic".into(),
            };
            let canon = format!("{}|{}|{}|{}|{}", kind.spec(), addr_args(&src, &dst), pt, phex.len(), n);
            rep.case(&canon, n > 0);
            rep.hit(&format!("build kind {}", kind.ty()));
            rep.hit(&format!("build header {}", match hdr { 0..=99 => "<100", 100..=499 => "100-499", 500..=899 => "500-899", _ => "900+" }));
            rep.hit(if n > budget { "build truncated" } else { "build not truncated" });
            let mo = lean.ask(&format!("errpkt {} {} {pt} {phex} {}", kind.spec(), addr_args(&src, &dst), hex(&off)));
            if lean.differs(&mo, &im) {
                let cut = |s: &str| s.chars().take(160).collect::<String>();
                rep.disagree("errpkt", json!({"kind": kind.spec(), "hdr": hdr, "offending_len": n, "path_type": pt}), &cut(&im), &cut(&mo));
            }
            let case = json!({"kind": kind.spec(), "header_bytes": hdr, "offending_len": n, "path_type": pt, "src": src.to_string(), "dst": dst.to_string()});
            match (&direct, &via_raw) {
                (Ok(Ok(a)), Ok(Ok(b))) if a == b => {}
                (Ok(Err(_)), Ok(Err(_))) => {}
                _ => rep.spec_fail("C14:encode-paths-differ", "try_encode and into_raw().try_encode produce different packets", case.clone()),
            }
            match direct {
                Err(m) => rep.spec_fail("C14:panic", &format!("SCMP error encoder panicked: {m}"), case),
                Ok(Err(_)) => {
                    if hdr <= 1020 {
                        rep.spec_fail("C14:error-not-encodable", "SCMP error packet with a valid header could not be encoded", case);
                    }
                }
                Ok(Ok(b)) => {
                    if rep.samples.len() < 2 && n > budget {
                        rep.sample(json!({"stream": "build", "case": case, "encoded_len": b.len()}));
                    }
                    if b.len() > MAX_ERR {
                        rep.spec_fail("C14:error-too-long", &format!("SCMP error packet is {} bytes", b.len()), case.clone());
                    }
                    let h = hdr_len(&b);
                    let q = &b[h + kind.fixed()..];
                    if h != hdr || b[h] != kind.ty() || !off.starts_with(q) || q.len() != n.min(budget) || (b[6] as usize * 256 + b[7] as usize) != b.len() - h {
                        rep.spec_fail("C14:error-quote", "quote is not the longest allowed prefix of the offending packet / wrong sizes", case.clone());
                    }
                    if !checksum_ok(&b) {
                        rep.spec_fail("C14:checksum", "SCMP error checksum does not verify over pseudo-header ++ message", case.clone());
                    }
                }
            }
        }
        // echo request / reply construction
        let (ident, seq) = (rng.next() as u16, rng.next() as u16);
        let dn = *rng.pick(&[0usize, 1, 2, 31, 32, 1000, 1500]);
        let data = rng.bytes(dn);
        for ty in [128u8, 129] {
            let msg: ScmpMessage = if ty == 128 { ScmpEchoRequest::new(ident, seq, data.clone()).into() } else { ScmpEchoReply::new(ident, seq, data.clone()).into() };
            let r = catch(|| ScionScmpPacket::new(src, dst, path.clone(), msg).try_encode_to_vec());
            let im = match &r {
                Ok(Ok(b)) => format!("pkt {}", hex(b)),
                Ok(Err(_)) => "invalid".into(),
                Err(_) => "panic".into(),
            };
            rep.case(&format!("echo|{ty}|{ident}|{seq}|{dn}|{}", addr_args(&src, &dst)), true);
            rep.hit("build echo");
            let mo = lean.ask(&format!("echopkt {ty} {ident} {seq} {} {} {pt} {phex}", hex(&data), addr_args(&src, &dst)));
            if lean.differs(&mo, &im) {
                rep.disagree("echopkt", json!({"ty": ty, "data_len": dn, "hdr": hdr}), &im.chars().take(160).collect::<String>(), &mo.chars().take(160).collect::<String>());
            }
            if let Ok(Ok(b)) = r {
                if !checksum_ok(&b) {
                    rep.spec_fail("C14:checksum", "SCMP echo checksum does not verify over pseudo-header ++ message", json!({"ty": ty, "data_len": dn}));
                }
            }
        }
    }
}

// ---------------------------------------------------------------------------------------------
// received packets

#[derive(Clone)]
struct Rx {
    label: &'static str,
    bytes: Vec<u8>,
}

fn base_packet(rng: &mut Rng, next: ProtocolNumber, payload: Vec<u8>) -> Vec<u8> {
    let hs = hosts();
    let src = ScionAddr::new(ia(), *rng.pick(&hs));
    let dst = ScionAddr::new(ia2(), *rng.pick(&hs[..2]));
    ScionRawPacket::new(src, dst, gen_path(rng), next, payload).try_encode_to_vec().unwrap()
}

fn gen_rx(rng: &mut Rng) -> Rx {
    match rng.below(16) {
        0 | 1 | 2 => {
            // echo request built by the real encoder
            let hs = hosts();
            let src = ScionAddr::new(ia(), *rng.pick(&hs));
            let dst = ScionAddr::new(ia2(), *rng.pick(&hs));
            let n = *rng.pick(&[0usize, 1, 8, 56, 1000]);
            let msg: ScmpMessage = ScmpEchoRequest::new(rng.next() as u16, rng.next() as u16, rng.bytes(n)).into();
            let mut b = ScionScmpPacket::new(src, dst, gen_path(rng), msg).try_encode_to_vec().unwrap();
            if rng.chance(1, 4) {
                // multicast / odd sources
                let so = 28 + host_len(b[9] >> 4);
                b[so] = *rng.pick(&[224u8, 239, 255]);
                fix_checksum(&mut b, 2);
            }
            Rx { label: "echo-request", bytes: b }
        }
        3 => {
            let mut r = gen_rx_echo_bad_checksum(rng);
            r.label = "echo-request-bad-checksum";
            r
        }
        4 => {
            let msg: ScmpMessage = ScmpTracerouteRequest::new(rng.next() as u16, rng.next() as u16).into();
            let hs = hosts();
            let b = ScionScmpPacket::new(ScionAddr::new(ia(), *rng.pick(&hs)), ScionAddr::new(ia2(), hs[0]), gen_path(rng), msg).try_encode_to_vec().unwrap();
            Rx { label: "traceroute-request", bytes: b }
        }
        5 | 6 => {
            // a real SCMP error (possibly quoting an SCMP error packet)
            let kind = gk(rng);
            let inner = if rng.chance(1, 2) {
                let k2 = gk(rng);
                let n = rng.below(80) as usize;
                ScionScmpPacket::new(ScionAddr::new(ia2(), hosts()[0]), ScionAddr::new(ia(), hosts()[1]), DpPath::Empty, k2.msg(rng.bytes(n))).try_encode_to_vec().unwrap()
            } else {
                let n = rng.below(200) as usize;
                let pl = rng.bytes(n + 8);
                base_packet(rng, ProtocolNumber::Udp, pl)
            };
            let hs = hosts();
            let b = ScionScmpPacket::new(ScionAddr::new(ia(), *rng.pick(&hs)), ScionAddr::new(ia2(), hs[0]), gen_path(rng), kind.msg(inner)).try_encode_to_vec().unwrap();
            Rx { label: "scmp-error", bytes: b }
        }
        7 | 8 | 9 => {
            // every type/code with an arbitrary body and a valid checksum
            let ty = if rng.chance(1, 2) { rng.below(256) as u8 } else { *rng.pick(&[0u8, 1, 2, 3, 4, 5, 6, 7, 100, 127, 128, 129, 130, 131, 132, 200, 255]) };
            let n = *rng.pick(&[0usize, 1, 3, 4, 5, 7, 8, 9, 19, 20, 23, 24, 27, 28, 29, 40, 300]);
            let mut body = rng.bytes(n);
            if n > 0 {
                body[0] = ty;
            }
            let base = base_packet(rng, ProtocolNumber::Scmp, vec![]);
            let mut b = set_payload(&base, &body);
            if n >= 4 && rng.chance(3, 4) {
                fix_checksum(&mut b, 2);
            }
            Rx { label: "scmp-any-type", bytes: b }
        }
        10 => {
            // PayloadLen larger than what is there (truncated in flight)
            let msg: ScmpMessage = ScmpEchoRequest::new(1, 2, rng.bytes(40)).into();
            let mut b = ScionScmpPacket::new(ScionAddr::new(ia(), hosts()[0]), ScionAddr::new(ia2(), hosts()[0]), gen_path(rng), msg).try_encode_to_vec().unwrap();
            let cut = rng.range(1, 47) as usize;
            b.truncate(b.len() - cut);
            Rx { label: "scmp-truncated", bytes: b }
        }
        11 | 12 | 13 => {
            let hs = hosts();
            let n = rng.below(300) as usize;
            let mut b = ScionUdpPacket::new(ScionSocketAddr::new(ia(), *rng.pick(&hs), 1000 + rng.below(100) as u16), ScionSocketAddr::new(ia2(), hs[0], 53), gen_path(rng), rng.bytes(n))
                .try_encode_to_vec()
                .unwrap();
            if rng.chance(1, 6) {
                let h = hdr_len(&b);
                let v = *rng.pick(&[0u16, 7, 8, 9, 65535]);
                b[h + 4] = (v >> 8) as u8;
                b[h + 5] = v as u8;
            }
            if rng.chance(1, 10) {
                let h = hdr_len(&b);
                b.truncate(h + rng.below(8) as usize);
            }
            Rx { label: "udp", bytes: b }
        }
        14 => {
            let n = rng.below(40) as usize;
            let proto = *rng.pick(&[ProtocolNumber::Tcp, ProtocolNumber::Bfd, ProtocolNumber::Hbh]);
            let pl = rng.bytes(n);
            Rx { label: "other-proto", bytes: base_packet(rng, proto, pl) }
        }
        _ => {
            let n = rng.below(60) as usize;
            Rx { label: "garbage", bytes: rng.bytes(n) }
        }
    }
}

fn gen_rx_echo_bad_checksum(rng: &mut Rng) -> Rx {
    let msg: ScmpMessage = ScmpEchoRequest::new(rng.next() as u16, rng.next() as u16, rng.bytes(16)).into();
    let mut b = ScionScmpPacket::new(ScionAddr::new(ia(), hosts()[0]), ScionAddr::new(ia2(), hosts()[1]), gen_path(rng), msg).try_encode_to_vec().unwrap();
    let h = hdr_len(&b);
    match rng.below(3) {
        0 => b[h + 2] ^= 0x40,
        1 => {
            let k = b.len() - 1;
            b[k] ^= 1; // corrupted data, checksum untouched
        }
        _ => {
            b[h + 2] = 0;
            b[h + 3] = 0;
        }
    }
    Rx { label: "echo-request-bad-checksum", bytes: b }
}

/// canonical text of what a receiver is told: `<kind with fields>/<quote hex>/<path type>/<path hex>`
fn report_string(e: &ScmpErrorMessage, path: &ScionDpPathViewRef<'_>) -> String {
    let k = match e {
        ScmpErrorMessage::DestinationUnreachable(m) => format!("du:{}/{}", u8::from(m.code), hex(m.get_offending_packet())),
        ScmpErrorMessage::PacketTooBig(m) => format!("ptb:{}/{}", m.mtu, hex(m.get_offending_packet())),
        ScmpErrorMessage::ParameterProblem(m) => format!("pp:{}:{}/{}", u8::from(m.code), m.pointer, hex(m.get_offending_packet())),
        ScmpErrorMessage::ExternalInterfaceDown(m) => format!("eid:{}:{}/{}", m.isd_asn.to_u64(), m.interface_id, hex(m.get_offending_packet())),
        ScmpErrorMessage::InternalConnectivityDown(m) => {
            format!("icd:{}:{}:{}/{}", m.isd_asn.to_u64(), m.ingress_interface_id, m.egress_interface_id, hex(m.get_offending_packet()))
        }
    };
    let pt: u8 = match path {
        ScionDpPathViewRef::Standard(_) => 1,
        ScionDpPathViewRef::OneHop(_) => 2,
        ScionDpPathViewRef::Empty => 0,
        ScionDpPathViewRef::Unsupported { path_type, .. } => (*path_type).into(),
    };
    format!("{k}/{pt}/{}", hex(path.as_slice()))
}

struct Recorder(Mutex<Vec<String>>);
impl ScmpErrorReceiver for Recorder {
    fn report_scmp_error<'a>(&self, e: ScmpErrorMessage, path: ScionDpPathViewRef<'a>) {
        self.0.lock().unwrap().push(report_string(&e, &path));
    }
}

#[derive(Default, Clone, PartialEq, Debug)]
struct LoopOut {
    delivered: Vec<String>,
    sent: Vec<Vec<u8>>,
    reports: Vec<Vec<String>>,
    panicked: bool,
}

fn handlers_for(spec: &str, recs: &[Arc<Recorder>]) -> Vec<Box<dyn ScmpHandler>> {
    let mut v: Vec<Box<dyn ScmpHandler>> = vec![];
    for h in spec.split(',') {
        match h {
            "error" => {
                let rs: Vec<Arc<dyn ScmpErrorReceiver>> = recs.iter().map(|r| r.clone() as Arc<dyn ScmpErrorReceiver>).collect();
                v.push(verif_scmp::error_handler(&rs));
            }
            "echo" => v.push(Box::new(DefaultEchoHandler::new())),
            _ => {}
        }
    }
    v
}

/// run the real socket loop over `pkts`.  `ctor = None`: a socket assembled by the harness with the handlers `hspec`
/// (hook `socket_over_queues`); `ctor = Some(f)`: the socket the production constructor `ScionStack::<f>` returns (a real
/// `ScionStack` over the in-memory underlay, hook `stack_over_queues`) – the handlers are then whatever stack.rs installs.
fn run_loop(rt: &tokio::runtime::Runtime, hspec: &str, ctor: Option<&str>, nrecv: usize, pkts: &[Vec<u8>]) -> LoopOut {
    let recs: Vec<Arc<Recorder>> = (0..nrecv).map(|_| Arc::new(Recorder(Mutex::new(vec![])))).collect();
    let local = ScionSocketIpAddr::new(ia2(), IpAddr::V4(Ipv4Addr::new(10, 0, 0, 7)), 53);
    let mut out = LoopOut::default();
    let fmt_dg = |buf: &[u8], n: usize, src: ScionSocketIpAddr| {
        let (nib, hb) = host_nib_bytes(&ScionHostAddr::from(src.ip()));
        format!("udp {} {} {} {} {}", hex(&buf[..n.min(buf.len())]), src.isd_asn().to_u64(), nib, hex(&hb), src.port())
    };
    let r = catch(|| {
        let mut buf = vec![0u8; 65535];
        let mut delivered = vec![];
        match ctor {
            None => {
                let (sock, q) = verif_scmp::socket_over_queues(local, handlers_for(hspec, &recs));
                q.incoming.lock().unwrap().extend(pkts.iter().cloned());
                while let Ok((n, src)) = rt.block_on(sock.recv_from(&mut buf)) {
                    delivered.push(fmt_dg(&buf, n, src));
                }
                let sent = q.sent.lock().unwrap().clone();
                (delivered, sent)
            }
            Some(f) => rt.block_on(async {
                let (stack, q) = verif_scmp::stack_over_queues(local);
                for r in &recs {
                    verif_scmp::register_scmp_error_receiver(&stack, r.clone() as Arc<dyn ScmpErrorReceiver>);
                }
                q.incoming.lock().unwrap().extend(pkts.iter().cloned());
                if f == "bind_path_unaware" {
                    let sock = stack.bind_path_unaware(Some(local)).await.expect("bind_path_unaware over the queue underlay");
                    while let Ok((n, src)) = sock.recv_from(&mut buf).await {
                        delivered.push(fmt_dg(&buf, n, src));
                    }
                } else {
                    // `bind` -> `bind_with_config(.., SocketConfig::default())`
                    let sock = stack.bind(Some(local)).await.expect("bind over the queue underlay");
                    while let Ok((n, src)) = sock.recv_from(&mut buf).await {
                        delivered.push(fmt_dg(&buf, n, src));
                    }
                }
                let sent = q.sent.lock().unwrap().clone();
                (delivered, sent)
            }),
        }
    });
    match r {
        Ok((d, s)) => {
            out.delivered = d;
            out.sent = s;
        }
        Err(_) => out.panicked = true,
    }
    out.reports = recs.iter().map(|r| r.0.lock().unwrap().clone()).collect();
    out
}

fn decodable(b: &[u8]) -> bool {
    ScionRawPacketView::try_from_slice(b).is_ok()
}

/// model line for one packet → (delivered, sent, report-per-receiver)
fn parse_model(line: &str, nrecv: usize) -> Option<(Option<String>, Vec<Vec<u8>>, Option<String>)> {
    if line == "undecodable" || line == "skip" || line == "drop" {
        return Some((None, vec![], None));
    }
    if line.starts_with("udp ") {
        return Some((Some(line.to_string()), vec![], None));
    }
    let rest = line.strip_prefix("scmp sent=")?;
    let (sent, reps) = rest.split_once(" reports=")?;
    let sent: Vec<Vec<u8>> = if sent == "-" { vec![] } else { sent.split(',').map(unhex).collect::<Option<Vec<_>>>()? };
    let (n, r) = reps.split_once('x')?;
    let n: usize = n.parse().ok()?;
    if n == 0 {
        return Some((None, sent, None));
    }
    if n != nrecv {
        return None;
    }
    Some((None, sent, Some(r.to_string())))
}

fn recv_stream(rng: &mut Rng, lean: &mut Lean, rep: &mut Report, rt: &tokio::runtime::Runtime, rounds: usize, corpus: &[Vec<u8>]) {
    // harness-assembled sockets (every combination of the two shipped handlers) and the two production constructors of
    // ScionStack, whose handler list is whatever stack.rs installs: the model's list for them is the generated
    // STACK_SOCKET_HANDLERS entry (driver op `stackcfg`), which the translator reads off stack.rs
    let mut configs: Vec<(String, Option<&str>)> = ["error,echo", "echo", "error", "echo,error"].iter().map(|h| (h.to_string(), None)).collect();
    for f in ["bind_with_config", "bind_path_unaware"] {
        let m = lean.ask(&format!("stackcfg {f}"));
        let hs = if lean.enabled { m.clone() } else { (if f == "bind_with_config" { "error" } else { "-" }).to_string() };
        if hs == "none" || hs == "bad-op" {
            rep.disagree("stackcfg", json!({"constructor": f}), "ScionStack has this constructor", &m);
            continue;
        }
        rep.notes.push(format!("handlers of ScionStack::{f} according to the generated table: {hs}"));
        configs.push((hs.clone(), Some(f)));
        configs.push((hs, Some(f)));
    }
    for round in 0..rounds {
        let (hspec, ctor) = &configs[round % configs.len()];
        let (hspec, ctor) = (hspec.as_str(), *ctor);
        let nrecv = if round == 0 { 2 } else { rng.below(4) as usize };
        let n = rng.range(3, 14) as usize;
        let mut rxs: Vec<Rx> = (0..n).map(|_| gen_rx(rng)).collect();
        if round == 0 {
            rxs = corpus.iter().map(|b| Rx { label: "corpus", bytes: b.clone() }).collect();
            if rxs.is_empty() {
                continue;
            }
        }
        let pkts: Vec<Vec<u8>> = rxs.iter().map(|r| r.bytes.clone()).collect();
        let whole = run_loop(rt, hspec, ctor, nrecv, &pkts);
        rep.traces += 1;
        if whole.panicked {
            rep.spec_fail("C14:panic", "the socket receive loop panicked", json!({"packets": pkts.iter().map(|p| hex(p)).collect::<Vec<_>>(), "handlers": hspec}));
            continue;
        }
        // per packet: real code on the packet alone, the model, and the oracle
        let mut cat = LoopOut { reports: vec![vec![]; nrecv], ..Default::default() };
        let mut model_cat = LoopOut { reports: vec![vec![]; nrecv], ..Default::default() };
        for rx in &rxs {
            let one = run_loop(rt, hspec, ctor, nrecv, std::slice::from_ref(&rx.bytes));
            cat.delivered.extend(one.delivered.clone());
            cat.sent.extend(one.sent.clone());
            for (i, r) in one.reports.iter().enumerate() {
                cat.reports[i].extend(r.clone());
            }
            let rv = rev_spec(&rx.bytes);
            let line = lean.ask(&format!("recv {hspec} {nrecv} {} {rv}", hex(&rx.bytes)));
            let dec = decodable(&rx.bytes);
            let class = classify_rx(&rx.bytes);
            rep.case(&format!("{}|{}|{hspec}|{}|{nrecv}", hex(&rx.bytes[..rx.bytes.len().min(96)]), rx.bytes.len(), ctor.unwrap_or("-")), dec && class != "other");
            rep.hit(&format!("recv gen {}", rx.label));
            rep.hit(&format!("recv socket {}", ctor.map(|f| format!("ScionStack::{f}")).unwrap_or_else(|| format!("assembled [{hspec}]"))));
            rep.hit(&format!("recv class {class}"));
            let im_line = if !dec {
                "undecodable".to_string()
            } else if let Some(d) = one.delivered.first() {
                d.clone()
            } else {
                String::new()
            };
            if lean.enabled {
                match parse_model(&line, nrecv) {
                    None => rep.disagree("recv", json!({"packet": hex(&rx.bytes), "handlers": hspec}), "(unparseable model answer)", &line),
                    Some((d, s, r)) => {
                        let imp_rep: Option<String> = one.reports.first().and_then(|v| v.first().cloned());
                        let uniform = one.reports.iter().all(|v| v.len() == usize::from(imp_rep.is_some()) && v.first() == imp_rep.as_ref());
                        let same = d.as_deref() == one.delivered.first().map(|s| s.as_str()) && one.delivered.len() <= 1 && s == one.sent
                            && (nrecv == 0 || (r == imp_rep && uniform));
                        if !same {
                            let cut = |s: String| s.chars().take(300).collect::<String>();
                            rep.disagree("recv", json!({"packet": hex(&rx.bytes), "handlers": hspec, "nrecv": nrecv, "gen": rx.label, "rev": rv.chars().take(60).collect::<String>()}),
                                &cut(format!("{im_line} sent={:?} reports={:?}", one.sent.iter().map(|x| hex(x)).collect::<Vec<_>>(), one.reports)), &cut(line.clone()));
                        }
                        if let Some(d) = d {
                            model_cat.delivered.push(d);
                        }
                        model_cat.sent.extend(s);
                        if let Some(r) = r {
                            for v in model_cat.reports.iter_mut() {
                                v.push(r.clone());
                            }
                        }
                    }
                }
            }
            oracle_rx(rep, rx, hspec, ctor, nrecv, &one, class);
        }
        // no cross-packet state: the whole run is the concatenation of the single runs
        if whole != cat {
            rep.spec_fail("C14:loop-stateful", "processing a packet sequence differs from processing its packets one by one", json!({"handlers": hspec, "packets": pkts.iter().map(|p| hex(p)).collect::<Vec<_>>()}));
        }
        // UDP delivery is unaffected by SCMP traffic
        let no_scmp: Vec<Vec<u8>> = pkts.iter().filter(|p| !(decodable(p) && p[4] == 202)).cloned().collect();
        let plain = run_loop(rt, hspec, ctor, nrecv, &no_scmp);
        if plain.delivered != whole.delivered {
            rep.spec_fail("C14:udp-delivery-affected", "the datagram sequence delivered with SCMP packets interleaved differs from the one without them", json!({"handlers": hspec, "packets": pkts.iter().map(|p| hex(p)).collect::<Vec<_>>()}));
        }
        rep.hit_n("recv udp delivered", whole.delivered.len() as u64);
        rep.hit_n("recv replies sent", whole.sent.len() as u64);
        rep.hit_n("recv reports", whole.reports.iter().map(|v| v.len() as u64).sum());
        if rep.samples.len() < 4 && !whole.sent.is_empty() && !whole.delivered.is_empty() {
            rep.sample(json!({"stream": "recv", "handlers": hspec, "receivers": nrecv, "packets": rxs.iter().map(|r| format!("{} ({} B)", r.label, r.bytes.len())).collect::<Vec<_>>(),
                              "delivered": whole.delivered.len(), "replies": whole.sent.len(), "reports_per_receiver": whole.reports.iter().map(|v| v.len()).collect::<Vec<_>>()}));
        }
    }
}

/// independent classification of a received packet
fn classify_rx(b: &[u8]) -> &'static str {
    if !decodable(b) {
        return "undecodable";
    }
    let h = hdr_len(b);
    let plen = (b[6] as usize * 256 + b[7] as usize).min(b.len() - h);
    let m = &b[h..h + plen];
    if b[4] == 17 {
        return "udp";
    }
    if b[4] != 202 {
        return "other";
    }
    if m.len() < 8 {
        return "scmp-malformed";
    }
    let need = match m[0] {
        5 => 20,
        6 => 28,
        130 | 131 => 24,
        _ => 8,
    };
    if m.len() < need {
        return "scmp-malformed";
    }
    let mut full = b[..h + plen].to_vec();
    full[6] = (plen >> 8) as u8;
    full[7] = plen as u8;
    let ck = checksum_ok(&full) && plen == (b[6] as usize * 256 + b[7] as usize);
    match (m[0], ck) {
        (128, true) => "echo-request",
        (128, false) => "echo-request-bad-checksum",
        (1 | 2 | 4 | 5 | 6, true) => "scmp-error-known",
        (0..=127, true) => "scmp-error-unknown-type",
        (0..=127, false) => "scmp-error-bad-checksum",
        (_, true) => "scmp-info-other",
        (_, false) => "scmp-info-bad-checksum",
    }
}

fn oracle_rx(rep: &mut Report, rx: &Rx, hspec: &str, ctor: Option<&str>, nrecv: usize, one: &LoopOut, class: &'static str) {
    let b = &rx.bytes;
    let case = json!({"packet": hex(b), "handlers": hspec, "socket": ctor.map(|f| format!("ScionStack::{f}")).unwrap_or_else(|| "assembled by the harness".into()), "class": class, "gen": rx.label});
    // expectations for a production socket do not come from the generated table: a managed socket (bind/bind_with_config)
    // must pass errors to the stack's receivers exactly once; whether a production socket answers echo requests is
    // left open (none does today) - but if it answers, the answer must be the one correct echo reply
    let has_echo = match ctor {
        None => hspec.contains("echo"),
        Some(_) => !one.sent.is_empty(),
    };
    let has_err = match ctor {
        None => hspec.contains("error"),
        Some(f) => f == "bind_with_config",
    };
    if one.panicked {
        rep.spec_fail("C14:panic", "the socket receive loop panicked", case);
        return;
    }
    match class {
        "scmp-error-known" | "scmp-error-unknown-type" | "scmp-error-bad-checksum" | "scmp-malformed" | "undecodable" | "udp" | "other" | "scmp-info-other" | "scmp-info-bad-checksum" => {
            if !one.sent.is_empty() {
                let key = if class.starts_with("scmp-error") { "C14:reply-to-error" } else if class == "scmp-malformed" { "C14:reply-to-malformed" } else { "C14:unexpected-reply" };
                rep.spec_fail(key, &format!("a reply was sent for a packet of class {class}"), case.clone());
            }
        }
        "echo-request-bad-checksum" => {
            if !one.sent.is_empty() {
                rep.spec_fail("C14:echo-bad-checksum", "an echo request whose SCMP checksum does not verify was answered", case.clone());
            }
        }
        "echo-request" => {
            if has_echo {
                let rv = rev_spec(b);
                let known = |nib: u8| matches!(nib, 0 | 3 | 4);
                let answerable = rv != "fail" && known(b[9] >> 4) && known(b[9] & 15);
                if answerable {
                    // the reversed path may make the header unencodable only if it exceeds 1020 bytes
                    let (_, ph) = rv.split_once(':').unwrap();
                    let rp = unhex(ph).unwrap();
                    let rhdr = 28 + host_len(b[9] >> 4) + host_len(b[9] & 15) + rp.len();
                    if one.sent.len() != 1 && rhdr <= 1020 {
                        rep.spec_fail("C14:echo-not-exactly-one", &format!("{} replies to a well-formed echo request", one.sent.len()), case.clone());
                    }
                    for r in &one.sent {
                        let h = hdr_len(b);
                        let plen = b.len() - h;
                        let rh = hdr_len(r);
                        let ok = r.len() >= rh + 8
                            && r[4] == 202 && r[rh] == 129 && r[rh + 1] == 0
                            && r[rh + 4..rh + 8] == b[h + 4..h + 8]
                            && r[rh + 8..] == b[h + 8..h + plen]
                            && r[9] == ((b[9] & 15) << 4 | (b[9] >> 4))
                            && r[12..20] == b[20..28] && r[20..28] == b[12..20]
                            && {
                                let dl = host_len(b[9] >> 4);
                                let sl = host_len(b[9] & 15);
                                r[28..28 + sl] == b[28 + dl..28 + dl + sl] && r[28 + sl..28 + sl + dl] == b[28..28 + dl]
                            }
                            && r[addr_end(r)..rh] == rp[..]
                            && format!("{}", r[8]) == rv.split_once(':').unwrap().0;
                        if !ok {
                            rep.spec_fail("C14:echo-reply-wrong", "echo reply does not carry the same id/seq/data, swapped addresses and the reversed path", case.clone());
                        }
                        if !checksum_ok(r) {
                            rep.spec_fail("C14:checksum", "SCMP echo reply checksum does not verify", case.clone());
                        }
                    }
                } else if !one.sent.is_empty() {
                    rep.spec_fail("C14:unexpected-reply", "echo reply although the path cannot be reversed / the address is unknown", case.clone());
                }
            } else if !one.sent.is_empty() {
                rep.spec_fail("C14:unexpected-reply", "reply without an echo handler", case.clone());
            }
        }
        _ => {}
    }
    // errors reach the receivers
    let reports: usize = one.reports.iter().map(|v| v.len()).sum();
    match class {
        "scmp-error-known" if has_err => {
            let h = hdr_len(b);
            let n_handlers = if ctor.is_some() { 1 } else { hspec.split(',').filter(|x| *x == "error").count() };
            for v in &one.reports {
                if v.len() != n_handlers {
                    rep.spec_fail("C14:error-not-delivered-once", &format!("a receiver got {} reports for one well-formed SCMP error", v.len()), case.clone());
                } else if let Some(r) = v.first() {
                    // quote and path are the packet's
                    let fixed = match b[h] { 5 => 20, 6 => 28, _ => 8 };
                    let q = hex(&b[h + fixed..]);
                    let p = hex(&b[addr_end(b)..h]);
                    let parts: Vec<&str> = r.split('/').collect();
                    if parts.len() != 4 || parts[1] != q || parts[2] != format!("{}", b[8]) || parts[3] != p {
                        rep.spec_fail("C14:error-report-wrong", "reported error does not carry the packet's quote and path", case.clone());
                    }
                }
            }
        }
        "scmp-error-unknown-type" if has_err && nrecv > 0 => {
            if reports == 0 {
                rep.spec_fail("C14:unknown-error-not-delivered", "a well-formed SCMP error of a type outside the known table (type < 128) was not passed to the receivers", case.clone());
            }
        }
        // a known error kind whose checksum does not verify is still reported (the property does not forbid it)
        "scmp-error-known" | "scmp-error-unknown-type" | "scmp-error-bad-checksum" => {}
        _ => {
            if reports != 0 {
                rep.spec_fail("C14:non-error-reported", &format!("{reports} error reports for a packet of class {class}"), case.clone());
            }
        }
    }
}

// ---------------------------------------------------------------------------------------------
// stream `receivers`: the production receiver list (`Subscribers`, held weakly) behind `ScmpErrorHandler`, driven through
// the production entry points (`ScionStack::bind`, the stack's receiver registration, `recv_from` of the sockets) under
// histories of {register receiver, drop receiver k, bind another socket, close a socket, SCMP error arrives, datagram
// arrives}.  Oracle (property text): every SCMP error that arrives is reported exactly once to every receiver that is
// registered and alive at that moment and to no dropped one; datagram delivery is unaffected.

/// a receiver that writes into a log shared with the harness: what it is told stays observable after its owner
/// dropped it
struct Tagged {
    slot: usize,
    log: Arc<Mutex<Vec<(usize, String)>>>,
}
impl ScmpErrorReceiver for Tagged {
    fn report_scmp_error<'a>(&self, e: ScmpErrorMessage, path: ScionDpPathViewRef<'a>) {
        self.log.lock().unwrap().push((self.slot, report_string(&e, &path)));
    }
}

/// one event of a history; receivers and sockets are named by labels, deliveries pick the `sel % live`-th open socket
#[derive(Clone, Copy, Debug, PartialEq)]
enum HOp {
    Reg(usize),
    DropRecv(usize),
    Bind(usize),
    Close(usize),
    Err(usize),
    Dgram(usize),
    ErrDgram(usize),
}
impl HOp {
    fn text(&self) -> String {
        match self {
            HOp::Reg(l) => format!("r{l}"),
            HOp::DropRecv(l) => format!("x{l}"),
            HOp::Bind(l) => format!("b{l}"),
            HOp::Close(l) => format!("c{l}"),
            HOp::Err(s) => format!("e{s}"),
            HOp::Dgram(s) => format!("d{s}"),
            HOp::ErrDgram(s) => format!("m{s}"),
        }
    }
    fn human(&self) -> String {
        match self {
            HOp::Reg(l) => format!("register receiver r{l}"),
            HOp::DropRecv(l) => format!("drop receiver r{l}"),
            HOp::Bind(l) => format!("bind socket b{l} (its path manager joins the receiver list)"),
            HOp::Close(l) => format!("close socket b{l} (its path manager goes away)"),
            HOp::Err(s) => format!("an SCMP error arrives (recv_from on open socket #{s})"),
            HOp::Dgram(s) => format!("a datagram arrives (recv_from on open socket #{s})"),
            HOp::ErrDgram(s) => format!("an SCMP error, then a datagram arrive (one recv_from on open socket #{s})"),
        }
    }
}
fn hist_line(mode: &str, ops: &[HOp]) -> String {
    format!("receivers {mode} {}", ops.iter().map(|o| o.text()).collect::<Vec<_>>().join(","))
}
fn parse_hist(line: &str) -> Option<(String, Vec<HOp>)> {
    let mut it = line.split_whitespace();
    if it.next()? != "receivers" {
        return None;
    }
    let mode = it.next()?.to_string();
    if mode != "stack" && mode != "handler" {
        return None;
    }
    let mut ops = vec![];
    for t in it.next()?.split(',') {
        let (c, n) = t.split_at(1);
        let n: usize = n.parse().ok()?;
        ops.push(match c {
            "r" => HOp::Reg(n),
            "x" => HOp::DropRecv(n),
            "b" => HOp::Bind(n),
            "c" => HOp::Close(n),
            "e" => HOp::Err(n),
            "d" => HOp::Dgram(n),
            "m" => HOp::ErrDgram(n),
            _ => return None,
        });
    }
    Some((mode, ops))
}

/// the SCMP error packet of step `i` (a function of `i` only, so that a history line replays) and what a receiver must
/// be told about it: the kind with its fields, the quote and the path exactly as they are in the packet
fn hist_error(i: usize) -> (Vec<u8>, String) {
    let mut r = Rng::new(0xC14_0000 + i as u64);
    let kind = gk(&mut r);
    let path = gen_path(&mut r);
    let hs = hosts();
    let mut quote = format!("offending packet of step {i} ").into_bytes();
    let n = r.below(40) as usize;
    quote.extend(r.bytes(n));
    let src = ScionAddr::new(ia(), *r.pick(&hs));
    let b = ScionScmpPacket::new(src, ScionAddr::new(ia2(), hs[0]), path.clone(), kind.msg(quote.clone())).try_encode_to_vec().unwrap();
    let pb = path.try_encode_to_vec().unwrap();
    (b, format!("{}/{}/{}/{}", kind.spec(), hex(&quote), u8::from(path.path_type()), hex(&pb)))
}
/// the datagram of step `i` and what `recv_from` must hand out for it
fn hist_dgram(i: usize) -> (Vec<u8>, String) {
    let mut r = Rng::new(0xD6_0000 + i as u64);
    let hs = hosts();
    let h = *r.pick(&hs[..2]);
    let port = 1000 + (i % 5000) as u16;
    let payload = format!("datagram {i}").into_bytes();
    let b = ScionUdpPacket::new(ScionSocketAddr::new(ia(), h, port), ScionSocketAddr::new(ia2(), hs[0], 53), gen_path(&mut r), payload.clone()).try_encode_to_vec().unwrap();
    let (nib, hb) = host_nib_bytes(&h);
    (b, format!("udp {} {} {} {} {}", hex(&payload), ia().to_u64(), nib, hex(&hb), port))
}
fn fmt_dgram(buf: &[u8], n: usize, src: ScionSocketIpAddr) -> String {
    let (nib, hb) = host_nib_bytes(&ScionHostAddr::from(src.ip()));
    format!("udp {} {} {} {} {}", hex(&buf[..n.min(buf.len())]), src.isd_asn().to_u64(), nib, hex(&hb), src.port())
}

#[derive(Default, Clone)]
struct HistOut {
    /// (index of the event, key, what)
    fails: Vec<(usize, String, String)>,
    /// the history as the receiver list sees it (driver op `subs`): r = an entry is registered, x<slot>, e
    slot_ops: Vec<String>,
    /// per list entry: a harness receiver (true) or the path manager of a bound socket (false, not observable)
    observable: Vec<bool>,
    /// per delivered error: the harness receivers told, in call order
    notified: Vec<Vec<usize>>,
    errors: usize,
    datagrams: usize,
    /// errors that arrived while an entry registered before a live one was dead and nothing had been registered since
    errors_behind_dead_entry: usize,
    max_live: usize,
}

enum Sock {
    Plain(scion_stack::stack::PathUnawareUdpScionSocket),
    Managed(scion_stack::stack::UdpScionSocket),
}

/// runs one history on the real code.  `mode = "stack"`: a real `ScionStack` over the in-memory underlay, receivers
/// registered in the stack's list, sockets from `ScionStack::bind`; `mode = "handler"`: one socket assembled with the
/// real `ScmpErrorHandler` over a `Subscribers` list holding the receivers registered by the leading `r` events.
/// Events that make no sense where they stand (unknown label, no open socket, `b`/`c`/late `r` in handler mode) are
/// skipped, so that any sub-sequence of a history is a history.
fn run_history(rt: &tokio::runtime::Runtime, mode: &str, ops: &[HOp]) -> HistOut {
    let out = Mutex::new(HistOut::default());
    let at = Mutex::new(0usize);
    let r = catch(|| {
        rt.block_on(async {
            let local = ScionSocketIpAddr::new(ia2(), IpAddr::V4(Ipv4Addr::new(10, 0, 0, 7)), 53);
            let log: Arc<Mutex<Vec<(usize, String)>>> = Arc::new(Mutex::new(vec![]));
            let mut seen = 0usize;
            // (label, list entry, the owner's strong reference)
            let mut recvs: Vec<(usize, usize, Option<Arc<Tagged>>)> = vec![];
            // (label, list entry of its path manager, the socket)
            let mut socks: Vec<(usize, usize, Option<Sock>)> = vec![];
            let mut next_slot = 0usize;
            let mut dirty = false;
            let mut start = 0usize;
            let (stack, q) = if mode == "stack" {
                let (s, q) = verif_scmp::stack_over_queues(local);
                (Some(s), q)
            } else {
                let mut rs: Vec<Arc<dyn ScmpErrorReceiver>> = vec![];
                for op in ops {
                    let HOp::Reg(l) = *op else { break };
                    start += 1;
                    if recvs.iter().any(|e| e.0 == l) {
                        continue;
                    }
                    let t = Arc::new(Tagged { slot: next_slot, log: log.clone() });
                    rs.push(t.clone());
                    recvs.push((l, next_slot, Some(t)));
                    let mut o = out.lock().unwrap();
                    o.observable.push(true);
                    o.slot_ops.push("r".into());
                    next_slot += 1;
                }
                let (sock, q) = verif_scmp::socket_over_queues(local, vec![verif_scmp::error_handler(&rs)]);
                drop(rs);
                socks.push((0, usize::MAX, Some(Sock::Plain(sock))));
                (None, q)
            };
            let mut buf = vec![0u8; 65535];
            for (idx, op) in ops.iter().enumerate().skip(start) {
                *at.lock().unwrap() = idx;
                let mut expect_err: Option<String> = None;
                let mut dgram: Option<(Option<String>, Option<String>)> = None; // (expected, got)
                let live_after = |slot: usize, recvs: &Vec<(usize, usize, Option<Arc<Tagged>>)>, socks: &Vec<(usize, usize, Option<Sock>)>| {
                    recvs.iter().any(|e| e.2.is_some() && e.1 > slot) || socks.iter().any(|e| e.2.is_some() && e.1 != usize::MAX && e.1 > slot)
                };
                match *op {
                    HOp::Reg(l) => {
                        if let Some(stack) = &stack {
                            if !recvs.iter().any(|e| e.0 == l) {
                                let t = Arc::new(Tagged { slot: next_slot, log: log.clone() });
                                verif_scmp::register_scmp_error_receiver(stack, t.clone());
                                recvs.push((l, next_slot, Some(t)));
                                let mut o = out.lock().unwrap();
                                o.observable.push(true);
                                o.slot_ops.push("r".into());
                                next_slot += 1;
                                dirty = false;
                            }
                        }
                    }
                    HOp::DropRecv(l) => {
                        if let Some(e) = recvs.iter_mut().find(|e| e.0 == l && e.2.is_some()) {
                            e.2 = None;
                            let slot = e.1;
                            out.lock().unwrap().slot_ops.push(format!("x{slot}"));
                            if live_after(slot, &recvs, &socks) {
                                dirty = true;
                            }
                        }
                    }
                    HOp::Bind(l) => {
                        if let Some(stack) = &stack {
                            if !socks.iter().any(|e| e.0 == l) && socks.iter().filter(|e| e.2.is_some()).count() < 4 {
                                let sock = stack.bind(Some(local)).await.expect("bind over the queue underlay");
                                socks.push((l, next_slot, Some(Sock::Managed(sock))));
                                let mut o = out.lock().unwrap();
                                o.observable.push(false);
                                o.slot_ops.push("r".into());
                                next_slot += 1;
                                dirty = false;
                            }
                        }
                    }
                    HOp::Close(l) => {
                        if stack.is_some() {
                            if let Some(e) = socks.iter_mut().find(|e| e.0 == l && e.2.is_some()) {
                                e.2 = None;
                                let slot = e.1;
                                out.lock().unwrap().slot_ops.push(format!("x{slot}"));
                                if live_after(slot, &recvs, &socks) {
                                    dirty = true;
                                }
                            }
                        }
                    }
                    HOp::Err(sel) | HOp::Dgram(sel) | HOp::ErrDgram(sel) => {
                        let live: Vec<usize> = socks.iter().enumerate().filter(|(_, e)| e.2.is_some()).map(|(i, _)| i).collect();
                        if live.is_empty() {
                            continue;
                        }
                        let si = live[sel % live.len()];
                        let mut want_dg = None;
                        if !matches!(op, HOp::Dgram(_)) {
                            let (b, exp) = hist_error(idx);
                            q.incoming.lock().unwrap().push_back(b);
                            expect_err = Some(exp);
                        }
                        if !matches!(op, HOp::Err(_)) {
                            let (b, exp) = hist_dgram(idx);
                            q.incoming.lock().unwrap().push_back(b);
                            want_dg = Some(exp);
                        }
                        let got = match socks[si].2.as_ref().unwrap() {
                            Sock::Plain(s) => s.recv_from(&mut buf).await.ok().map(|(n, src)| fmt_dgram(&buf, n, src)),
                            Sock::Managed(s) => s.recv_from(&mut buf).await.ok().map(|(n, src)| fmt_dgram(&buf, n, src)),
                        };
                        q.incoming.lock().unwrap().clear();
                        dgram = Some((want_dg, got));
                    }
                }
                // ---- oracle for this event
                let new: Vec<(usize, String)> = {
                    let l = log.lock().unwrap();
                    let v = l[seen..].to_vec();
                    seen = l.len();
                    v
                };
                let mut o = out.lock().unwrap();
                let n_live = recvs.iter().filter(|e| e.2.is_some()).count();
                o.max_live = o.max_live.max(n_live);
                if let Some(exp) = &expect_err {
                    o.errors += 1;
                    o.slot_ops.push("e".into());
                    if dirty {
                        o.errors_behind_dead_entry += 1;
                    }
                    for (label, slot, owner) in &recvs {
                        let c = new.iter().filter(|(s, _)| s == slot).count();
                        match (owner.is_some(), c) {
                            (true, 0) => o.fails.push((idx, "C14:receivers:missed".into(), format!("receiver r{label} is registered and alive but was not told about the SCMP error that arrived at event {idx} ({n_live} live receivers, {} told)", new.len()))),
                            (true, 1) | (false, 0) => {}
                            (true, c) => o.fails.push((idx, "C14:receivers:duplicate".into(), format!("receiver r{label} was told {c} times about the one SCMP error that arrived at event {idx}"))),
                            (false, c) => o.fails.push((idx, "C14:receivers:dropped-notified".into(), format!("receiver r{label} had been dropped but was told {c} times about the SCMP error that arrived at event {idx}"))),
                        }
                    }
                    for (slot, r) in &new {
                        if r != exp {
                            o.fails.push((idx, "C14:receivers:report-wrong".into(), format!("list entry {slot} was told {} instead of the error as it is in the packet ({})", r.chars().take(120).collect::<String>(), exp.chars().take(120).collect::<String>())));
                        }
                    }
                    o.notified.push(new.iter().map(|x| x.0).collect());
                } else if !new.is_empty() {
                    o.fails.push((idx, "C14:receivers:spurious-report".into(), format!("{} reports to receivers although no SCMP error arrived at event {idx}", new.len())));
                }
                if let Some((want, got)) = dgram {
                    if want.is_some() {
                        o.datagrams += 1;
                    }
                    if want != got {
                        o.fails.push((idx, "C14:receivers:datagram".into(), format!("recv_from handed out {got:?} where the datagrams that arrived are {want:?}")));
                    }
                }
            }
            let sent = q.sent.lock().unwrap().len();
            if sent != 0 {
                out.lock().unwrap().fails.push((ops.len(), "C14:receivers:reply-to-error".into(), format!("{sent} packets were sent although only SCMP errors and datagrams arrived")));
            }
        })
    });
    let mut o = out.into_inner().unwrap();
    if let Err(m) = r {
        o.fails.push((*at.lock().unwrap(), "C14:receivers:panic".into(), format!("panic: {m}")));
    }
    o
}

/// run one history, compare with the model of the receiver list, apply the oracle, shrink and report failures
fn check_history(rep: &mut Report, lean: &mut Lean, rt: &tokio::runtime::Runtime, mode: &str, ops: &[HOp], origin: &str) {
    let out = run_history(rt, mode, ops);
    let line = hist_line(mode, ops);
    rep.traces += 1;
    rep.case(&line, out.errors > 0 && out.observable.iter().any(|o| *o));
    rep.hit(&format!("receivers {origin} ({mode})"));
    rep.hit(&format!("receivers max live receivers {}", out.max_live));
    rep.hit_n("receivers SCMP errors delivered", out.errors as u64);
    rep.hit_n("receivers SCMP errors delivered behind a dead list entry", out.errors_behind_dead_entry as u64);
    rep.hit_n("receivers datagrams delivered", out.datagrams as u64);
    rep.hit_n("receivers notifications", out.notified.iter().map(|v| v.len() as u64).sum());
    // model of the list (Model/ScmpSubscribers.lean): same registrations / drops / errors, compared on the entries the
    // harness can observe, in call order
    if lean.enabled && out.errors > 0 && !out.fails.iter().any(|f| f.1.ends_with(":panic")) {
        let mo = lean.ask(&format!("subs {}", out.slot_ops.join(",")));
        let parsed: Option<Vec<Vec<usize>>> = mo.strip_prefix("subs=").and_then(|r| {
            r.split(';').map(|l| if l == "-" { Some(vec![]) } else { l.split('.').map(|x| x.parse::<usize>().ok()).collect::<Option<Vec<_>>>() }).collect::<Option<Vec<_>>>()
        });
        let model: Option<Vec<Vec<usize>>> = parsed.map(|ls| ls.into_iter().map(|l| l.into_iter().filter(|s| out.observable.get(*s).copied().unwrap_or(true)).collect()).collect());
        if model.as_ref() != Some(&out.notified) {
            rep.disagree("receivers", json!({"line": line, "list_history": out.slot_ops.join(",")}), &format!("{:?}", out.notified), &format!("{mo} -> observable {model:?}"));
        }
    }
    let mut keys: Vec<String> = vec![];
    for f in &out.fails {
        if !keys.contains(&f.1) {
            keys.push(f.1.clone());
        }
    }
    for key in keys {
        // shrink: drop events as long as the same kind of failure remains
        let mut cur: Vec<HOp> = ops.to_vec();
        let mut changed = true;
        while changed {
            changed = false;
            let mut i = 0;
            while i < cur.len() {
                let mut cand = cur.clone();
                cand.remove(i);
                if run_history(rt, mode, &cand).fails.iter().any(|f| f.1 == key) {
                    cur = cand;
                    changed = true;
                } else {
                    i += 1;
                }
            }
        }
        let fin = run_history(rt, mode, &cur);
        let Some(f) = fin.fails.iter().find(|f| f.1 == key).cloned() else { continue };
        let packet = match cur.get(f.0) {
            Some(HOp::Err(_)) | Some(HOp::ErrDgram(_)) => hex(&hist_error(f.0).0),
            Some(HOp::Dgram(_)) => hex(&hist_dgram(f.0).0),
            _ => "-".into(),
        };
        rep.spec_fail(&key, &f.2, json!({
            "stream": "receivers",
            "socket": if mode == "stack" { "ScionStack over the in-memory underlay: register_scmp_error_receiver / ScionStack::bind / UdpScionSocket::recv_from" } else { "socket assembled with ScmpErrorHandler over a Subscribers list" },
            "line": hist_line(mode, &cur),
            "history": cur.iter().enumerate().map(|(i, o)| format!("{i}: {}", o.human())).collect::<Vec<_>>(),
            "failing_event": f.0,
            "packet_of_failing_event": packet,
            "shrunk_from": line,
        }));
    }
}

fn permutations(n: usize) -> Vec<Vec<usize>> {
    fn go(rest: &mut Vec<usize>, cur: &mut Vec<usize>, out: &mut Vec<Vec<usize>>) {
        if rest.is_empty() {
            out.push(cur.clone());
            return;
        }
        for i in 0..rest.len() {
            let x = rest.remove(i);
            cur.push(x);
            go(rest, cur, out);
            cur.pop();
            rest.insert(i, x);
        }
    }
    let mut out = vec![];
    go(&mut (0..n).collect(), &mut vec![], &mut out);
    out
}

fn receivers_stream(rng: &mut Rng, lean: &mut Lean, rep: &mut Report, rt: &tokio::runtime::Runtime, rounds: usize, corpus: &[(String, Vec<HOp>)]) {
    for (mode, ops) in corpus {
        check_history(rep, lean, rt, mode, ops, "corpus");
    }
    // every order of drops of 1..5 receivers: all registered, an error and a datagram with everybody alive, then after
    // each drop again (an error alone / error and datagram in one recv_from / two errors and a datagram, rotating); in
    // stack mode the socket is bound before, between or after the registrations so that its path manager sits at every
    // position of the list
    let mut k = 0usize;
    for n in 1..=5usize {
        for perm in permutations(n) {
            for mode in ["stack", "handler"] {
                let mut ops: Vec<HOp> = vec![];
                let bind_at = k % (n + 1);
                for l in 0..n {
                    if mode == "stack" && l == bind_at {
                        ops.push(HOp::Bind(0));
                    }
                    ops.push(HOp::Reg(l));
                }
                if mode == "stack" && bind_at == n {
                    ops.push(HOp::Bind(0));
                }
                ops.push(HOp::ErrDgram(0));
                for (j, l) in perm.iter().enumerate() {
                    ops.push(HOp::DropRecv(*l));
                    match (k + j) % 3 {
                        0 => ops.extend([HOp::Err(0), HOp::Dgram(0)]),
                        1 => ops.push(HOp::ErrDgram(0)),
                        _ => ops.extend([HOp::Err(0), HOp::Err(0), HOp::Dgram(0)]),
                    }
                }
                check_history(rep, lean, rt, mode, &ops, "every order of drops");
            }
            k += 1;
        }
    }
    // random histories: registrations (at most 5 live harness receivers, 9 in total), drops in any order, further
    // sockets bound and closed (their path managers are list entries too), deliveries on any open socket
    for round in 0..rounds {
        let mode = if round % 4 == 3 { "handler" } else { "stack" };
        let mut ops: Vec<HOp> = vec![];
        let (mut regs, mut live, mut binds, mut open): (usize, Vec<usize>, usize, Vec<usize>) = (0, vec![], 0, vec![]);
        if mode == "handler" {
            for _ in 0..rng.range(1, 5) {
                ops.push(HOp::Reg(regs));
                live.push(regs);
                regs += 1;
            }
        } else if rng.chance(2, 3) {
            ops.push(HOp::Bind(0));
            open.push(0);
            binds = 1;
        }
        let len = rng.range(5, 28) as usize;
        while ops.len() < len {
            match rng.below(12) {
                0 | 1 | 2 if mode == "stack" && live.len() < 5 && regs < 9 => {
                    ops.push(HOp::Reg(regs));
                    live.push(regs);
                    regs += 1;
                }
                3 | 4 | 5 if !live.is_empty() => {
                    let i = rng.below(live.len() as u64) as usize;
                    ops.push(HOp::DropRecv(live.remove(i)));
                }
                6 if mode == "stack" && open.len() < 3 && binds < 6 => {
                    ops.push(HOp::Bind(binds));
                    open.push(binds);
                    binds += 1;
                }
                7 if mode == "stack" && open.len() > 1 => {
                    let i = rng.below(open.len() as u64) as usize;
                    ops.push(HOp::Close(open.remove(i)));
                }
                8 | 9 => ops.push(HOp::Err(rng.below(3) as usize)),
                10 => ops.push(HOp::ErrDgram(rng.below(3) as usize)),
                11 => ops.push(HOp::Dgram(rng.below(3) as usize)),
                _ => {
                    if mode == "stack" && open.is_empty() {
                        ops.push(HOp::Bind(binds));
                        open.push(binds);
                        binds += 1;
                    } else {
                        ops.push(HOp::Err(rng.below(3) as usize));
                    }
                }
            }
        }
        check_history(rep, lean, rt, mode, &ops, "random history");
        if round == 0 {
            let out = run_history(rt, mode, &ops);
            rep.sample(json!({"stream": "receivers", "line": hist_line(mode, &ops), "errors": out.errors, "datagrams": out.datagrams, "told_per_error": out.notified.iter().map(|v| v.len()).collect::<Vec<_>>()}));
        }
    }
}

// ---------------------------------------------------------------------------------------------
// pocketscion

fn sim_stream(rng: &mut Rng, lean: &mut Lean, rep: &mut Report, rounds: usize, corpus: &[Vec<u8>]) {
    let receivers = NetworkReceiverRegistry::new();
    let externals = ExternalAsRegistry::new();
    let local_if = 7u16;
    for round in 0..rounds {
        let rx = if round < corpus.len() { Rx { label: "corpus", bytes: corpus[round].clone() } } else { gen_rx(rng) };
        if !decodable(&rx.bytes) {
            continue;
        }
        let router_ip: IpAddr = if rng.chance(1, 2) { IpAddr::V4(Ipv4Addr::new(10, 9, 9, 9)) } else { IpAddr::V6(Ipv6Addr::new(0xfd00, 0, 0, 0, 0, 0, 0, 0x99)) };
        let router = ScionRouter::new(vec![local_if], SocketAddr::new(router_ip, 30042));
        let (rn, rh) = host_nib_bytes(&ScionHostAddr::from(router_ip));
        let sim = LocalNetworkSimulation::new(ia2(), local_if, &receivers, &externals, &router);
        let use_err = rng.chance(1, 2);
        let kind = gk(rng);
        let (view_len, offending) = {
            let (v, _) = ScionRawPacketView::try_from_slice(&rx.bytes).unwrap();
            let vl = v.as_slice().len();
            let off = match rng.below(3) {
                0 => v.as_slice().to_vec(),
                1 => rx.bytes.clone(),
                _ => {
                    let n = *rng.pick(&[0usize, 100, 1300, 9216]);
                    rng.bytes(n)
                }
            };
            (vl, off)
        };
        let action = if use_err { LocalAsRoutingAction::SendSCMPErrorResponse(kind.err(offending.clone())) } else { LocalAsRoutingAction::IngressSCMPHandleRequest { interface_id: local_if } };
        let mut buf = rx.bytes[..view_len].to_vec();
        let r = catch(|| {
            let (v, _) = ScionRawPacketView::try_from_mut_slice(&mut buf).unwrap();
            sim.handle_local_routing_action(action, v).map(|o| o.map(|p| p.try_encode_to_vec()))
        });
        let (im, reply): (String, Option<Vec<u8>>) = match r {
            Err(_) => ("panic".into(), None),
            Ok(Err(_)) => ("error".into(), None),
            Ok(Ok(None)) => ("none".into(), None),
            Ok(Ok(Some(Err(_)))) => ("invalid".into(), None),
            Ok(Ok(Some(Ok(b)))) => (format!("reply {}", hex(&b)), Some(b)),
        };
        let class = classify_rx(&rx.bytes);
        let act = if use_err { format!("err:{}", kind.spec()) } else { "scmp".to_string() };
        rep.case(&format!("sim|{act}|{}|{}", hex(&rx.bytes[..rx.bytes.len().min(96)]), rx.bytes.len()), class != "other");
        rep.hit(&format!("sim {} on {class} -> {}", if use_err { "error-response" } else { "handle_scmp" }, im.split(' ').next().unwrap()));
        let rv = rev_spec(&rx.bytes);
        let mo = lean.ask(&format!("sim {act} {} {local_if} {rn} {} {} {rv} {}", ia2().to_u64(), hex(&rh), hex(&rx.bytes), if use_err { hex(&offending) } else { "-".into() }));
        if lean.differs(&mo, &im) {
            let cut = |s: &str| s.chars().take(200).collect::<String>();
            rep.disagree("sim", json!({"action": act, "packet": hex(&rx.bytes), "class": class, "offending_len": offending.len()}), &cut(&im), &cut(&mo));
        }
        let case = json!({"action": act, "packet": hex(&rx.bytes), "class": class, "router": router_ip.to_string()});
        if im == "panic" {
            rep.spec_fail("C14:panic", "pocketscion SCMP handling panicked", case.clone());
        }
        if let Some(r) = &reply {
            if class.starts_with("scmp-error") {
                rep.spec_fail("C14:reply-to-error", &format!("pocketscion answered an SCMP message of type {} (< 128) with an SCMP message", rx.bytes[hdr_len(&rx.bytes)]), case.clone());
            }
            if class == "scmp-malformed" {
                rep.spec_fail("C14:reply-to-malformed", "pocketscion answered a malformed SCMP packet", case.clone());
            }
            if !use_err && (class == "echo-request-bad-checksum" || class == "scmp-info-bad-checksum") {
                rep.spec_fail("C14:echo-bad-checksum", "pocketscion answered an echo/traceroute request whose SCMP checksum does not verify", case.clone());
            }
            if !checksum_ok(r) {
                rep.spec_fail("C14:checksum", "checksum of pocketscion's SCMP reply does not verify", case.clone());
            }
            let rh_ = hdr_len(r);
            if use_err {
                let q = &r[rh_ + kind.fixed()..];
                let budget = MAX_ERR.saturating_sub(rh_).saturating_sub(kind.fixed());
                if r.len() > MAX_ERR || !offending.starts_with(q) || q.len() != offending.len().min(budget) {
                    rep.spec_fail("C14:error-quote", "pocketscion SCMP error: longer than 1232 B or quote not the longest allowed prefix", case.clone());
                }
            } else if class == "echo-request" {
                let h = hdr_len(&rx.bytes);
                if r[rh_] != 129 || r[rh_ + 4..] != rx.bytes[h + 4..view_len] {
                    rep.spec_fail("C14:echo-reply-wrong", "pocketscion echo reply does not carry the same id/seq/data", case.clone());
                }
            }
            // addressed back to the requester
            let b = &rx.bytes;
            let sl = host_len(b[9] & 15);
            let dl = host_len(b[9] >> 4);
            if r[9] >> 4 != b[9] & 15 || r[28..28 + sl] != b[28 + dl..28 + dl + sl] || r[12..20] != b[20..28] {
                rep.spec_fail("C14:reply-not-to-source", "pocketscion SCMP reply is not addressed to the packet's source", case.clone());
            }
        }
    }
}

// ---------------------------------------------------------------------------------------------
// pocketscion, whole pipeline: the production entry point `NetworkSimulator::dispatch` (route through the topology, local
// handling, reply routed back) decides itself *what* it quotes; the harness only supplies the packet.

struct NetRecorder(Mutex<Vec<Vec<u8>>>);
impl Receiver for NetRecorder {
    fn receive_packet(&self, packet: &ScionRawPacketView) {
        self.0.lock().unwrap().push(packet.as_slice().to_vec());
    }
}

/// walks `bytes` AS by AS with the real `ScionNetworkSim::iter` (one step per iterator so that the packet is observable
/// between steps) → (packet as it arrived at the AS that took the final decision, packet after that AS processed it,
/// that AS, number of AS steps)
fn net_walk(topo: &ScionTopology, bytes: &[u8], start: IsdAsn, now: u32, ignore_macs: bool) -> Option<(Vec<u8>, Vec<u8>, IsdAsn, usize, Option<(u8, u8, Vec<u8>)>)> {
    let mut buf = bytes.to_vec();
    let (mut cur_as, mut cur_if) = (start, 0u16);
    for step in 1..200usize {
        let before = buf.clone();
        let (o, nxt) = {
            let (v, _) = ScionRawPacketView::try_from_mut_slice(&mut buf).ok()?;
            let mut it = ScionNetworkSim::iter::<SpecRoutingLogic>(topo, v, ScionNetworkTime::from_timestamp_secs(now), cur_as, cur_if, ignore_macs).ok()?;
            let o = it.next();
            (o, (it.get_processing_as(), it.get_processing_interface_id()))
        };
        match o {
            Some(Ok(s)) if !s.finished => {
                cur_as = nxt.0;
                cur_if = nxt.1;
            }
            Some(Ok(s)) => {
                let raised = match &s.action {
                    AsRoutingAction::Local(LocalAsRoutingAction::SendSCMPErrorResponse(e)) => Some(err_parts(e)),
                    _ => None,
                };
                return Some((before, buf, s.at_as, step, raised));
            }
            _ => return None,
        }
    }
    None
}

/// (type, code, quoted bytes) of an SCMP error model
fn err_parts(e: &ScmpErrorMessage) -> (u8, u8, Vec<u8>) {
    match e {
        ScmpErrorMessage::DestinationUnreachable(m) => (1, u8::from(m.code), m.get_offending_packet().to_vec()),
        ScmpErrorMessage::PacketTooBig(m) => (2, 0, m.get_offending_packet().to_vec()),
        ScmpErrorMessage::ParameterProblem(m) => (4, u8::from(m.code), m.get_offending_packet().to_vec()),
        ScmpErrorMessage::ExternalInterfaceDown(m) => (5, 0, m.get_offending_packet().to_vec()),
        ScmpErrorMessage::InternalConnectivityDown(m) => (6, 0, m.get_offending_packet().to_vec()),
    }
}

/// which header fields differ between the packet as it arrived (`before`) and the quote `q`; the call site by (type, code)
fn quote_diff(before: &[u8], q: &[u8], ty: u8, code: u8) -> (Vec<usize>, Vec<&'static str>, &'static str) {
    let diff: Vec<usize> = (0..q.len().min(before.len())).filter(|i| before[*i] != q[*i]).collect();
    let pstart = addr_end(before);
    let (ninf, nhf) = if before.len() >= pstart + 4 && before[8] == 1 {
        let m = &before[pstart..pstart + 4];
        let w = u32::from_be_bytes([m[0], m[1], m[2], m[3]]);
        let segs = [(w >> 12) & 63, (w >> 6) & 63, w & 63];
        (segs.iter().filter(|x| **x > 0).count(), segs.iter().sum::<u32>() as usize)
    } else {
        (0, 0)
    };
    let field = |i: usize| -> &'static str {
        if i < pstart || i >= hdr_len(before) {
            "outside-path-header"
        } else if i < pstart + 4 {
            "pointer"
        } else if i < pstart + 4 + 8 * ninf {
            if matches!((i - pstart - 4) % 8, 2 | 3) { "segid" } else { "info-field-other" }
        } else if i < pstart + 4 + 8 * ninf + 12 * nhf {
            if (i - pstart - 4 - 8 * ninf) % 12 == 0 { "alert-flag" } else { "hop-field-other" }
        } else {
            "outside-path-header"
        }
    };
    let mut fields: Vec<&'static str> = diff.iter().map(|i| field(*i)).collect();
    fields.sort();
    fields.dedup();
    let site = match (ty, code) {
        (1, 3) => "address-unreachable",
        (4, 35) => "non-local-delivery",
        (4, _) => "path-validation",
        _ => "other-site",
    };
    (diff, fields, site)
}

fn net_stream(rng: &mut Rng, rep: &mut Report, rounds: usize) {
    use sciparse::core::convert::ToModel;
    use sciparse::dataplane_path::{standard::types::{HopFieldFlags, InfoFieldFlags}, view::ScionDpPathView};
    let Ok(topo) = test_topology() else {
        rep.notes.push("net stream: pocketscion test topology not available".into());
        return;
    };
    let registry = SegmentRegistry::from_topology(&topo);
    let now0: u32 = 1_700_000_000;
    let ts = chrono::DateTime::<chrono::Utc>::from_timestamp(now0 as i64, 0).unwrap();
    let ases: Vec<IsdAsn> = ["1-1", "1-11", "1-21", "2-1", "1-2", "1-3", "1-4", "1-12", "2-2", "2-3", "2-21"].iter().map(|s| s.parse().unwrap()).collect();
    let mut honest: Vec<(IsdAsn, IsdAsn, StandardPath)> = vec![];
    for a in &ases {
        for b in &ases {
            if a == b {
                continue;
            }
            if let Ok(Ok(ps)) = catch(|| registry.paths(*a, *b, ts, &topo)) {
                for p in ps.into_iter().take(4) {
                    if let ScionDpPathView::Standard(v) = p.dp_path() {
                        honest.push((*a, *b, v.to_model()));
                    }
                }
            }
        }
    }
    rep.hit_n("net honest paths", honest.len() as u64);
    if honest.is_empty() {
        return;
    }
    let src_ip = Ipv4Addr::new(10, 0, 0, 1);
    let dst_ip = Ipv4Addr::new(10, 0, 0, 2);
    let src_rec = Arc::new(NetRecorder(Mutex::new(vec![])));
    let dst_rec = Arc::new(NetRecorder(Mutex::new(vec![])));
    let mut with_dst = NetworkReceiverRegistry::new();
    let mut without_dst = NetworkReceiverRegistry::new();
    for a in &ases {
        with_dst.add_receiver(*a, "10.0.0.1/32".parse().unwrap(), src_rec.clone()).unwrap();
        with_dst.add_receiver(*a, "10.0.0.2/32".parse().unwrap(), dst_rec.clone()).unwrap();
        without_dst.add_receiver(*a, "10.0.0.1/32".parse().unwrap(), src_rec.clone()).unwrap();
    }
    let externals = ExternalAsRegistry::new();
    // the first rounds are directed (every honest path family gets: undeliverable host, foreign destination AS, one
    // corrupted hop MAC in the first segment), the rest random
    let directed = (3 * honest.len()).min(rounds / 3);
    for round in 0..rounds {
        let dir = if round < directed { Some(round % 3) } else { None };
        let (src_ia, dst_ia0, p0) = if dir.is_some() { &honest[(round / 3) * honest.len() / (directed / 3).max(1) % honest.len()] } else { &honest[rng.below(honest.len() as u64) as usize] };
        let mut path = p0.clone();
        let mut dst_ia = *dst_ia0;
        let mut now = now0 + 10;
        let mut ignore = false;
        let nseg = path.segments.len();
        let si = if dir.is_some() { 0 } else { rng.below(nseg as u64) as usize };
        let nh = path.segments[si].hop_fields.len();
        let hi = if dir.is_some() { 1.min(nh - 1) } else { rng.below(nh as u64) as usize };
        let mutation = match dir.map(|d| [0u64, 5, 2][d]).unwrap_or_else(|| rng.below(10)) {
            0 | 1 => "none",
            2 => {
                let b = rng.below(48);
                path.segments[si].hop_fields[hi].mac.0[(b / 8) as usize] ^= 1 << (b % 8);
                "mac"
            }
            3 => {
                now = *rng.pick(&[now0 - 1_000_000, now0 + 40 * 86400, now0 + 100 * 86400]);
                "clock"
            }
            4 => {
                ignore = true;
                if rng.chance(1, 2) { path.segments[si].hop_fields[hi].cons_egress ^= 1 << rng.below(8) } else { path.segments[si].hop_fields[hi].cons_ingress ^= 1 << rng.below(8) };
                "interface"
            }
            5 => {
                dst_ia = *rng.pick(&ases);
                "other-dst"
            }
            6 => {
                path.segments[si].hop_fields[hi].flags.toggle(if rng.chance(1, 2) { HopFieldFlags::CONS_INGRESS_ROUTER_ALERT } else { HopFieldFlags::CONS_EGRESS_ROUTER_ALERT });
                "alert"
            }
            7 => {
                path.segments[si].info_field.segment_id ^= 1 << rng.below(16);
                "segid"
            }
            8 => {
                ignore = true;
                path.segments[si].info_field.flags.toggle(InfoFieldFlags::CONS_DIR);
                "consdir"
            }
            _ => {
                path.segments[si].hop_fields[hi].expiration_units = 0;
                now = now0 + *rng.pick(&[300u32, 400, 86400]);
                "hop-expiry"
            }
        };
        let src = ScionAddr::new(*src_ia, ScionHostAddr::V4(src_ip));
        let dst = ScionAddr::new(dst_ia, ScionHostAddr::V4(dst_ip));
        let dp = DpPath::Standard(path);
        // payload
        let (pl_label, bytes): (&str, Option<Vec<u8>>) = match if dir.is_some() { 0 } else { rng.below(8) } {
            0 | 1 | 2 => {
                let n = *rng.pick(&[0usize, 10, 400, 1100, 1300, 3000]);
                ("udp", ScionUdpPacket::new(ScionSocketAddr::new(*src_ia, ScionHostAddr::V4(src_ip), 4000), ScionSocketAddr::new(dst_ia, ScionHostAddr::V4(dst_ip), 53), dp, rng.bytes(n)).try_encode_to_vec().ok())
            }
            3 => {
                let n = rng.below(120) as usize;
                let k = gk(rng);
                ("scmp-error", ScionScmpPacket::new(src, dst, dp, k.msg(rng.bytes(n))).try_encode_to_vec().ok())
            }
            4 => {
                let msg: ScmpMessage = ScmpEchoRequest::new(rng.next() as u16, rng.next() as u16, rng.bytes(24)).into();
                ("echo-request", ScionScmpPacket::new(src, dst, dp, msg).try_encode_to_vec().ok())
            }
            5 => {
                // malformed SCMP: message shorter than the fixed header of its type
                let ty = *rng.pick(&[1u8, 2, 4, 5, 6, 3, 100, 128, 130]);
                let n = *rng.pick(&[0usize, 1, 3, 7]);
                let mut body = rng.bytes(n);
                if n > 0 {
                    body[0] = ty;
                }
                ("scmp-malformed", ScionRawPacket::new(src, dst, dp, ProtocolNumber::Scmp, body).try_encode_to_vec().ok())
            }
            6 => {
                // well-formed SCMP error of a type outside the table
                let ty = *rng.pick(&[0u8, 3, 7, 100, 127]);
                let n = 8 + rng.below(40) as usize;
                let mut body = rng.bytes(n);
                body[0] = ty;
                let b = ScionRawPacket::new(src, dst, dp, ProtocolNumber::Scmp, body).try_encode_to_vec().ok().map(|mut b| {
                    fix_checksum(&mut b, 2);
                    b
                });
                ("scmp-error-unknown", b)
            }
            _ => {
                let n = rng.below(60) as usize;
                ("other-proto", ScionRawPacket::new(src, dst, dp, ProtocolNumber::Tcp, rng.bytes(n)).try_encode_to_vec().ok())
            }
        };
        let Some(bytes) = bytes else { continue };
        let has_dst = if dir.is_some() { false } else { rng.chance(1, 2) };
        let class = classify_rx(&bytes);
        let walk = catch(|| net_walk(&topo, &bytes, *src_ia, now, ignore)).ok().flatten();
        // the production pipeline
        src_rec.0.lock().unwrap().clear();
        dst_rec.0.lock().unwrap().clear();
        let mut buf = bytes.clone();
        let r = catch(|| {
            let (v, _) = ScionRawPacketView::try_from_mut_slice(&mut buf).unwrap();
            NetworkSimulator::new(if has_dst { &with_dst } else { &without_dst }, &externals, &topo, ignore).dispatch(*src_ia, 0, ScionNetworkTime::from_timestamp_secs(now), v);
        });
        let replies = src_rec.0.lock().unwrap().clone();
        let delivered = dst_rec.0.lock().unwrap().len();
        let case = json!({"stream": "net", "packet": hex(&bytes), "src_as": src_ia.to_string(), "dst_as": dst_ia.to_string(), "now": now, "ignore_macs": ignore, "dst_host_registered": has_dst,
                          "mutation": mutation, "payload": pl_label, "class": class});
        rep.case(&format!("net|{}|{}|{now}|{ignore}|{has_dst}", hex(&bytes[..bytes.len().min(160)]), bytes.len()), mutation != "none" || !has_dst);
        rep.hit(&format!("net mutation {mutation}"));
        rep.hit(&format!("net payload {pl_label} -> {} replies, {} delivered", replies.len(), delivered));
        if r.is_err() {
            rep.spec_fail("C14:panic", "NetworkSimulator::dispatch panicked", case.clone());
            continue;
        }
        // the error as raised by the production routing step (whether or not a reply makes it back to the sender)
        if let Some((before, after, at, steps, Some((ty, code, q)))) = &walk {
            let whole = |x: &[u8]| q.as_slice() == x;
            let verdict = if whole(before) { "as arrived" } else if whole(after) { "processed" } else { "neither" };
            rep.hit(&format!("net raised {ty}/{code} by {mutation} after {} steps: quote {verdict}", steps.min(&6)));
            match verdict {
                "as arrived" => {}
                "processed" => {
                    let (diff, fields, site) = quote_diff(before, q, *ty, *code);
                    let expected_fields = fields.iter().all(|f| matches!(*f, "segid" | "pointer" | "alert-flag"));
                    for f in &fields {
                        rep.hit(&format!("net processed-packet quote raised at {site}: {f} differs"));
                    }
                    rep.spec_fail(
                        &if expected_fields { format!("C14:sim-quote-is-processed-packet:{site}") } else { format!("C14:sim-quote-is-processed-packet:{site}:{}", fields.join("+")) },
                        &format!("the SCMP error (type {ty} code {code}) raised by the routing step of AS {at} quotes the packet as modified by that step's own path processing, not the offending packet as it arrived: {} bytes differ (offsets {:?}, fields {:?})", diff.len(), &diff[..diff.len().min(8)], fields),
                        case.clone(),
                    );
                }
                _ => rep.spec_fail("C14:error-quote", "the SCMP error raised by pocketscion's routing step quotes neither the packet as it arrived nor the packet as the step left it", case.clone()),
            }
            if class.starts_with("scmp-error") || class == "scmp-malformed" {
                rep.hit("net error raised for an SCMP error / malformed SCMP (must not be answered)");
            }
        }
        if replies.len() > 1 {
            rep.spec_fail("C14:sim-more-than-one-reply", &format!("{} packets came back to the sender of one packet", replies.len()), case.clone());
        }
        for rp in &replies {
            if !decodable(rp) || rp[4] != 202 {
                rep.hit("net reply non-scmp");
                continue;
            }
            let rh = hdr_len(rp);
            if rp.len() < rh + 8 {
                rep.spec_fail("C14:error-quote", "pocketscion sent an SCMP packet shorter than its fixed header", case.clone());
                continue;
            }
            let ty = rp[rh];
            if !checksum_ok(rp) {
                rep.spec_fail("C14:checksum", "checksum of an SCMP packet delivered by pocketscion does not verify", case.clone());
            }
            if ty >= 128 {
                rep.hit(&format!("net reply info type {ty}"));
                continue;
            }
            rep.hit(&format!("net reply error type {ty} code {}", rp[rh + 1]));
            if class.starts_with("scmp-error") {
                rep.spec_fail("C14:reply-to-error", &format!("pocketscion answered an SCMP message of type {} (< 128) with an SCMP error", bytes[hdr_len(&bytes)]), case.clone());
            }
            if class == "scmp-malformed" {
                rep.spec_fail("C14:reply-to-malformed", "pocketscion answered a malformed SCMP packet with an SCMP error", case.clone());
            }
            if rp.len() > MAX_ERR {
                rep.spec_fail("C14:error-too-long", &format!("SCMP error packet delivered by pocketscion is {} bytes", rp.len()), case.clone());
            }
            let fixed = match ty { 5 => 20, 6 => 28, _ => 8 };
            if rp.len() < rh + fixed {
                continue;
            }
            let q = &rp[rh + fixed..];
            let budget = MAX_ERR.saturating_sub(rh).saturating_sub(fixed);
            match &walk {
                None => rep.hit("net reply without a walk"),
                Some((before, after, at, steps, _)) => {
                    rep.hit(&format!("net error raised after {} AS steps", steps.min(&6)));
                    let longest = |x: &[u8]| x.starts_with(q) && q.len() == x.len().min(budget);
                    rep.hit(&format!("net by mutation: {mutation}{} -> {ty}/{} after {} steps: {}", if dir.is_some() { " (directed)" } else { "" }, rp[rh + 1], steps.min(&6), if longest(before) { "as arrived" } else if longest(after) { "processed" } else { "neither" }));
                    if longest(before) {
                        rep.hit("net quote = packet as it arrived");
                    } else if longest(after) {
                        let (diff, fields, site) = quote_diff(before, q, ty, rp[rh + 1]);
                        let expected_fields = fields.iter().all(|f| matches!(*f, "segid" | "pointer" | "alert-flag"));
                        for f in &fields {
                            rep.hit(&format!("net processed-packet quote at {site}: {f} differs"));
                        }
                        rep.spec_fail(
                            &if expected_fields { format!("C14:sim-quote-is-processed-packet:{site}") } else { format!("C14:sim-quote-is-processed-packet:{site}:{}", fields.join("+")) },
                            &format!("the SCMP error (type {ty} code {}) of AS {at} quotes the packet as modified by that AS's own path processing, not the offending packet as it arrived: {} quoted bytes differ (offsets {:?}, fields {:?})", rp[rh + 1], diff.len(), &diff[..diff.len().min(8)], fields),
                            case.clone(),
                        );
                    } else {
                        rep.spec_fail("C14:error-quote", "the quote of pocketscion's SCMP error is neither a longest prefix of the packet as it arrived at the AS raising the error nor of the packet as that AS left it", case.clone());
                    }
                }
            }
            // addressed back to the sender
            let b = &bytes;
            let sl = host_len(b[9] & 15);
            let dl = host_len(b[9] >> 4);
            if rp[9] >> 4 != b[9] & 15 || rp[28..28 + sl] != b[28 + dl..28 + dl + sl] || rp[12..20] != b[20..28] {
                rep.spec_fail("C14:reply-not-to-source", "pocketscion SCMP reply is not addressed to the packet's source", case.clone());
            }
        }
        if rep.samples.len() < 6 && !replies.is_empty() && mutation != "none" {
            rep.sample(json!({"stream": "net", "case": {"src_as": src_ia.to_string(), "dst_as": dst_ia.to_string(), "mutation": mutation, "payload": pl_label, "packet_len": bytes.len()}, "reply_len": replies[0].len()}));
        }
    }
}

// ---------------------------------------------------------------------------------------------
// pocketscion's third echo answering path: the `PsEchoResponder` component (comp/echo_responder.rs), registered as a
// receiver for a listen prefix in every AS exactly like `PocketScionRuntime::start_echo_responder` does, reached through
// the production pipeline (`PocketScionState::dispatch_to_network_sim`), its reply routed back to a recording receiver.

/// forwards to the real responder and counts what reached it
struct Tap<R: Receiver>(Arc<R>, Mutex<usize>, Mutex<Vec<u8>>);
impl<R: Receiver> Receiver for Tap<R> {
    fn receive_packet(&self, packet: &ScionRawPacketView) {
        *self.1.lock().unwrap() += 1;
        *self.2.lock().unwrap() = packet.as_slice().to_vec();
        self.0.receive_packet(packet);
    }
}

fn echoresp_stream(rng: &mut Rng, lean: &mut Lean, rep: &mut Report, rt: &tokio::runtime::Runtime, rounds: usize) {
    use pocketscion::{comp::echo_responder::PsEchoResponder, state::PocketScionState};
    use sciparse::core::convert::ToModel;
    use sciparse::dataplane_path::view::ScionDpPathView;
    let Ok(topo) = test_topology() else { return };
    let now = chrono::Utc::now();
    let registry = SegmentRegistry::from_topology(&topo);
    let ases: Vec<IsdAsn> = ["1-1", "1-11", "1-21", "2-1", "1-2", "1-3", "1-4", "1-12", "2-2", "2-3", "2-21"].iter().map(|s| s.parse().unwrap()).collect();
    let mut honest: Vec<(IsdAsn, IsdAsn, StandardPath)> = vec![];
    for a in &ases {
        for b in &ases {
            if a != b {
                if let Ok(Ok(ps)) = catch(|| registry.paths(*a, *b, now, &topo)) {
                    for p in ps.into_iter().take(2) {
                        if let ScionDpPathView::Standard(v) = p.dp_path() {
                            honest.push((*a, *b, v.to_model()));
                        }
                    }
                }
            }
        }
    }
    if honest.is_empty() {
        return;
    }
    let mut state = PocketScionState::new(now);
    state.set_topology(topo);
    let src_rec = Arc::new(NetRecorder(Mutex::new(vec![])));
    let responder = Arc::new(Tap(Arc::new(PsEchoResponder::new(state.clone())), Mutex::new(0), Mutex::new(vec![])));
    for a in &ases {
        state.add_sim_receiver(*a, "10.0.0.1/32".parse().unwrap(), src_rec.clone()).unwrap();
        state.add_sim_receiver(*a, "10.0.0.2/32".parse().unwrap(), responder.clone()).unwrap();
    }
    let src_ip = Ipv4Addr::new(10, 0, 0, 1);
    let dst_ip = Ipv4Addr::new(10, 0, 0, 2);
    // keep the paths over which the simulator delivers a UDP datagram forwards and, reversed, backwards (some offered
    // paths are refused by the simulated routers - C13/C01 findings - and say nothing about echo handling)
    let n_offered = honest.len();
    honest.retain(|(a, b, p)| {
        let fwd = ScionUdpPacket::new(ScionSocketAddr::new(*a, ScionHostAddr::V4(src_ip), 1), ScionSocketAddr::new(*b, ScionHostAddr::V4(dst_ip), 2), DpPath::Standard(p.clone()), vec![1, 2, 3]).try_encode_to_vec();
        let Ok(mut fwd) = fwd else { return false };
        *responder.1.lock().unwrap() = 0;
        src_rec.0.lock().unwrap().clear();
        let ok = catch(|| {
            rt.block_on(async {
                {
                    let (v, _) = ScionRawPacketView::try_from_mut_slice(&mut fwd).unwrap();
                    state.dispatch_to_network_sim(*a, 0, ScionNetworkTime::now(), v);
                }
                // back over the reverse of the path as it arrived
                let arrived = responder.2.lock().unwrap().clone();
                if *responder.1.lock().unwrap() == 1 {
                    if let Ok((av, _)) = ScionRawPacketView::try_from_slice(&arrived) {
                        if let Ok(rp) = av.header().path().to_model().try_into_reversed() {
                            if let Ok(mut back) = ScionUdpPacket::new(ScionSocketAddr::new(*b, ScionHostAddr::V4(dst_ip), 2), ScionSocketAddr::new(*a, ScionHostAddr::V4(src_ip), 1), rp, vec![4, 5, 6]).try_encode_to_vec() {
                                let (v, _) = ScionRawPacketView::try_from_mut_slice(&mut back).unwrap();
                                state.dispatch_to_network_sim(*b, 0, ScionNetworkTime::now(), v);
                            }
                        }
                    }
                }
                for _ in 0..4 {
                    tokio::task::yield_now().await;
                }
            })
        });
        let (f, bk) = (*responder.1.lock().unwrap(), src_rec.0.lock().unwrap().len());
        rep.hit(&format!("echoresp probe: forward {f} backward {bk} panic {}", ok.is_err()));
        ok.is_ok() && f == 1 && bk == 1
    });
    rep.hit_n("echoresp paths offered", n_offered as u64);
    rep.hit_n("echoresp paths delivering UDP both ways", honest.len() as u64);
    if honest.is_empty() {
        return;
    }
    for round in 0..rounds {
        let (src_ia, dst_ia, path) = &honest[rng.below(honest.len() as u64) as usize];
        let src = ScionAddr::new(*src_ia, ScionHostAddr::V4(src_ip));
        let dst = ScionAddr::new(*dst_ia, ScionHostAddr::V4(dst_ip));
        let dp = DpPath::Standard(path.clone());
        let (ident, seq) = (rng.next() as u16, rng.next() as u16);
        let dn = *rng.pick(&[0usize, 1, 8, 56, 700]);
        let data = rng.bytes(dn);
        let echo = |dp: DpPath| -> Vec<u8> {
            let msg: ScmpMessage = ScmpEchoRequest::new(ident, seq, data.clone()).into();
            ScionScmpPacket::new(src, dst, dp, msg).try_encode_to_vec().unwrap()
        };
        let (label, bytes): (&str, Vec<u8>) = match if round < 8 { round as u64 % 4 } else { rng.below(8) } {
            0 | 4 => ("echo-request", echo(dp)),
            1 | 5 => {
                let mut b = echo(dp);
                let h = hdr_len(&b);
                match rng.below(3) {
                    0 => b[h + 2] ^= 0x40,
                    1 => {
                        let k = b.len() - 1;
                        if k >= h + 8 { b[k] ^= 1 } else { b[h + 3] ^= 1 }
                    }
                    _ => {
                        b[h + 2] = !b[h + 2];
                        b[h + 3] = !b[h + 3];
                    }
                }
                ("echo-request-bad-checksum", b)
            }
            2 => {
                let k = gk(rng);
                let n = rng.below(100) as usize;
                ("scmp-error", ScionScmpPacket::new(src, dst, dp, k.msg(rng.bytes(n))).try_encode_to_vec().unwrap())
            }
            3 => {
                let ty = *rng.pick(&[1u8, 3, 5, 6, 128, 130]);
                let n = *rng.pick(&[0usize, 1, 3, 7]);
                let mut body = rng.bytes(n);
                if n > 0 {
                    body[0] = ty;
                }
                ("scmp-malformed", ScionRawPacket::new(src, dst, dp, ProtocolNumber::Scmp, body).try_encode_to_vec().unwrap())
            }
            6 => {
                let msg: ScmpMessage = ScmpTracerouteRequest::new(ident, seq).into();
                ("traceroute-request", ScionScmpPacket::new(src, dst, dp, msg).try_encode_to_vec().unwrap())
            }
            _ => {
                let msg: ScmpMessage = ScmpEchoReply::new(ident, seq, data.clone()).into();
                ("echo-reply", ScionScmpPacket::new(src, dst, dp, msg).try_encode_to_vec().unwrap())
            }
        };
        let class = classify_rx(&bytes);
        src_rec.0.lock().unwrap().clear();
        *responder.1.lock().unwrap() = 0;
        let mut buf = bytes.clone();
        let r = catch(|| {
            rt.block_on(async {
                {
                    let (v, _) = ScionRawPacketView::try_from_mut_slice(&mut buf).unwrap();
                    state.dispatch_to_network_sim(*src_ia, 0, ScionNetworkTime::now(), v);
                }
                // the responder sends its reply from a spawned task
                for _ in 0..8 {
                    tokio::task::yield_now().await;
                }
            })
        });
        let replies = src_rec.0.lock().unwrap().clone();
        let case = json!({"stream": "echoresp", "packet": hex(&bytes), "src_as": src_ia.to_string(), "dst_as": dst_ia.to_string(), "gen": label, "class": class});
        rep.case(&format!("echoresp|{}|{}", hex(&bytes[..bytes.len().min(200)]), bytes.len()), true);
        rep.hit(&format!("echoresp {label} ({class}) reached the responder {}x -> {} replies", *responder.1.lock().unwrap(), replies.len()));
        if r.is_err() {
            rep.spec_fail("C14:panic", "PsEchoResponder / dispatch_to_network_sim panicked", case.clone());
            continue;
        }
        let h = hdr_len(&bytes);
        match class {
            "echo-request" => {
                if replies.len() != 1 {
                    rep.spec_fail("C14:echo-not-exactly-one", &format!("pocketscion's echo responder: {} packets came back for one well-formed echo request over an honest path", replies.len()), case.clone());
                }
                for rp in &replies {
                    let rh = hdr_len(rp);
                    let ok = rp.len() >= rh + 8 && rp[4] == 202 && rp[rh] == 129 && rp[rh + 1] == 0 && rp[rh + 4..] == bytes[h + 4..]
                        && rp[9] == ((bytes[9] & 15) << 4 | (bytes[9] >> 4)) && rp[12..20] == bytes[20..28] && rp[20..28] == bytes[12..20]
                        && rp[28..32] == bytes[32..36] && rp[32..36] == bytes[28..32];
                    if !ok {
                        rep.spec_fail("C14:echo-reply-wrong", "pocketscion's echo responder: reply does not carry the same id/seq/data with swapped addresses", case.clone());
                    }
                    if !checksum_ok(rp) {
                        rep.spec_fail("C14:checksum", "pocketscion's echo responder: reply checksum does not verify", case.clone());
                    }
                    // the model's reply message (echoHandle) for the same request
                    let mo = lean.ask(&format!("recv echo 0 {} 0:-", hex(&set_path_empty(&bytes))));
                    if lean.enabled {
                        let want = mo.strip_prefix("scmp sent=").and_then(|x| x.split(' ').next()).and_then(unhex);
                        let same = want.as_ref().map(|w| w[hdr_len(w)..] == rp[rh..]).unwrap_or(false);
                        if !same {
                            rep.disagree("echoresp", case.clone(), &format!("reply message {}", hex(&rp[rh..]).chars().take(120).collect::<String>()), &mo.chars().take(200).collect::<String>());
                        }
                    }
                }
            }
            "echo-request-bad-checksum" => {
                if !replies.is_empty() {
                    rep.spec_fail("C14:echo-bad-checksum", "pocketscion's echo responder (PsEchoResponder) answered an echo request whose SCMP checksum does not verify", case.clone());
                }
            }
            c => {
                if !replies.is_empty() {
                    let key = if c.starts_with("scmp-error") { "C14:reply-to-error" } else if c == "scmp-malformed" { "C14:reply-to-malformed" } else { "C14:unexpected-reply" };
                    rep.spec_fail(key, &format!("pocketscion's echo responder path produced {} packets for a packet of class {c}", replies.len()), case.clone());
                }
            }
        }
    }
}

/// the same packet with an empty path (addresses and payload untouched): what the model needs to compute the echo
/// reply *message*, which does not depend on the path
fn set_path_empty(b: &[u8]) -> Vec<u8> {
    let h = hdr_len(b);
    let ae = addr_end(b);
    let mut v = b[..ae].to_vec();
    v[5] = (ae / 4) as u8;
    v[8] = 0;
    v.extend_from_slice(&b[h..]);
    v
}

fn main() {
    let args = Args::parse();
    quiet_panics();
    let mut lean = Lean::spawn(&args.driver);
    let mut rng = Rng::new(args.seed);
    let mut rep = Report::new(
        "C14",
        "build: one case = (error kind, address kinds, path, offending length) through the real encoders vs the model, \
         byte for byte; recv: one case = one received packet (every SCMP type/code, truncated, wrong checksum, error quoting \
         an error, echo over reversible/irreversible paths, UDP, other) run alone and inside random interleavings through the \
         real socket loop with the real handlers; sim: one case = (packet, routing action) through pocketscion; receivers: one case = one history of \
         registrations / drops / binds / deliveries on the production receiver list. Non-trivial = a history in which an SCMP \
         error arrives with a harness receiver registered, a build case with a non-empty offending packet, or a decodable received packet that is UDP or SCMP; distinct by hash of \
         the parameters / first 96 packet bytes + length + handler configuration",
    );
    let consts = lean.ask("const");
    if lean.enabled && !consts.starts_with(&format!("max {MAX_ERR} maxhdr 1020 scmp 202 udp 17 ")) {
        rep.disagree("constants", json!("generated constants vs crate constants"), &format!("max {MAX_ERR} maxhdr 1020 scmp 202 udp 17"), &consts);
    }
    rep.notes.push(format!("model flags: {consts}"));
    let rt = tokio::runtime::Builder::new_current_thread().enable_all().build().unwrap();
    let corpus: Vec<Vec<u8>> = read_corpus(&args.corpus).iter().filter_map(|l| unhex(l.split_whitespace().next()?)).collect();
    rep.hit_n("corpus packets", corpus.len() as u64);
    let histories: Vec<(String, Vec<HOp>)> = read_corpus(&args.corpus).iter().filter_map(|l| parse_hist(l)).collect();
    rep.hit_n("corpus receiver histories", histories.len() as u64);
    if let Some(p) = &args.replay {
        let txt = std::fs::read_to_string(p).expect("replay file");
        let hs: Vec<(String, Vec<HOp>)> = txt.lines().filter_map(parse_hist).collect();
        for (mode, ops) in &hs {
            check_history(&mut rep, &mut lean, &rt, mode, ops, "replay");
        }
        let pk: Vec<Vec<u8>> = txt.lines().filter_map(|l| unhex(l.split_whitespace().next()?)).collect();
        if !pk.is_empty() || hs.is_empty() {
            recv_stream(&mut rng, &mut lean, &mut rep, &rt, 1, &pk);
            sim_stream(&mut rng, &mut lean, &mut rep, pk.len(), &pk);
        }
    } else {
        build_stream(&mut rng, &mut lean, &mut rep, args.scale(160, 4000));
        recv_stream(&mut rng, &mut lean, &mut rep, &rt, args.scale(500, 12000), &corpus);
        sim_stream(&mut rng, &mut lean, &mut rep, args.scale(3000, 80000), &corpus);
        net_stream(&mut rng, &mut rep, args.scale(1500, 40000));
        echoresp_stream(&mut rng, &mut lean, &mut rep, &rt, args.scale(400, 8000));
        receivers_stream(&mut rng, &mut lean, &mut rep, &rt, args.scale(400, 12000), &histories);
    }
    rep.write(&args.out);
    std::process::exit(if rep.ok() { 0 } else { 1 });
}
