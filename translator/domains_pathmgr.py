"""Translator domain `PathMgr` (C05/C06/C07): configuration defaults, the config validator, half-lives,
penalty magnitudes, swap threshold and scorer impacts of the scion-stack path manager.

Floats are emitted as exact rationals NUM/DEN of the decimal literal in the source (sign separate for
penalties: the source writes negative magnitudes).  Durations are emitted in nanoseconds.
"""
import re
from fractions import Fraction

MGR = "crates/scion-stack/src/path/manager.rs"
ISS = "crates/scion-stack/src/path/manager/issues.rs"
REL = "crates/scion-stack/src/path/manager/reliability.rs"
SCO = "crates/scion-stack/src/path/strategy/scoring.rs"
TYP = "crates/scion-stack/src/path/types.rs"
PST = "crates/scion-stack/src/path/manager/pathset.rs"

# Rust field -> Lean field of Generated.PathMgr.Cfg (durations in ns; f32 threshold in score units)
FIELDS = [
    ("max_cached_paths_per_pair", "maxCached", "usize"),
    ("refetch_interval", "refetchInterval", "Duration"),
    ("min_refetch_delay", "minRefetchDelay", "Duration"),
    ("min_expiry_threshold", "minExpiryThreshold", "Duration"),
    ("max_idle_period", "maxIdle", "Duration"),
    ("fetch_failure_backoff", None, "BackoffConfig"),
    ("issue_cache_size", "issueCacheSize", "usize"),
    ("issue_broadcast_size", "issueBroadcastSize", "usize"),
    ("issue_deduplication_window", "dedupWindow", "Duration"),
    ("path_swap_score_threshold", "swapThreshold", "f32"),
]
NS = 1_000_000_000
# every finite f32 is an integer multiple of 2^-149: scores cross the tie as integers in that unit
SCORE_UNIT_LOG2 = 149


def register(api):
    E = api.ExtractError

    def num(expr, what):
        """integer arithmetic expression like `60 * 30`"""
        e = expr.strip().replace("_", "")
        if not re.fullmatch(r"[0-9\s*+()]+", e):
            raise E(f"{what}: cannot evaluate integer expression {expr!r}")
        return int(eval(e, {"__builtins__": {}}, {}))

    def frac(lit, what):
        s = lit.strip().replace("_", "")
        s = re.sub(r"f32$", "", s)
        if not re.fullmatch(r"-?[0-9]+(\.[0-9]*)?", s):
            raise E(f"{what}: not a decimal float literal: {lit!r}")
        return Fraction(s)

    def duration_ns(expr, what):
        m = re.fullmatch(r"\s*Duration::from_(secs|millis)\((.*)\)\s*", expr, flags=re.S)
        if not m:
            raise E(f"{what}: not a Duration::from_secs/millis expression: {expr!r}")
        v = num(m.group(2), what)
        return v * (NS if m.group(1) == "secs" else 1_000_000)

    def block_after(src, head_re, what):
        """text of the balanced {...} block that starts at the first `{` after the match of head_re"""
        m = re.search(head_re, src, flags=re.S)
        if not m:
            raise E(f"{what}: not found")
        i = src.index("{", m.end() - 1)
        depth, j = 0, i
        while j < len(src):
            if src[j] == "{":
                depth += 1
            elif src[j] == "}":
                depth -= 1
                if depth == 0:
                    return src[i + 1:j]
            j += 1
        raise E(f"{what}: unbalanced braces")

    @api.domain
    def gen_PathMgr():
        mgr = api.strip_comments(api.read(MGR))
        iss = api.strip_comments(api.read(ISS))
        rel = api.strip_comments(api.read(REL))
        sco = api.strip_comments(api.read(SCO))
        typ = api.strip_comments(api.read(TYP))
        pst = api.strip_comments(api.read(PST))
        vals = {}

        # ---- struct fields (the model's Cfg must cover exactly these) -------------------------------
        sbody = block_after(mgr, r"pub struct MultiPathManagerConfig\s*\{", "struct MultiPathManagerConfig")
        got = re.findall(r"(\w+)\s*:\s*([\w:<>]+)\s*,", sbody)
        if [(n, t) for n, t in got] != [(n, t) for n, _, t in FIELDS]:
            raise E(f"MultiPathManagerConfig fields changed: {got}")

        # ---- Default impl ----------------------------------------------------------------------------
        dimpl = block_after(mgr, r"impl Default for MultiPathManagerConfig\s*\{", "Default for MultiPathManagerConfig")
        dbody = block_after(dimpl, r"MultiPathManagerConfig\s*\{", "default() literal")
        bbody = block_after(dbody, r"fetch_failure_backoff\s*:\s*BackoffConfig\s*\{", "default backoff literal")
        dflat = dbody.replace("{" + bbody + "}", "")

        def field(body, name):
            m = re.search(rf"\b{name}\s*:\s*((?:[^,()]|\([^()]*\))+),", body)
            if not m:
                raise E(f"default value of {name} not found")
            return m.group(1)

        for rn, ln, ty in FIELDS:
            if ty == "usize":
                vals["DEFAULT_" + rn.upper()] = num(field(dflat, rn), rn)
            elif ty == "Duration":
                vals["DEFAULT_" + rn.upper() + "_NS"] = duration_ns(field(dflat, rn), rn)
            elif ty == "f32":
                f = frac(field(dflat, rn), rn)
                vals["DEFAULT_" + rn.upper() + "_NUM"] = f.numerator
                vals["DEFAULT_" + rn.upper() + "_DEN"] = f.denominator
        for bn in ["minimum_delay_secs", "maximum_delay_secs", "factor", "jitter_secs"]:
            f = frac(field(bbody, bn), "backoff." + bn)
            vals["DEFAULT_BACKOFF_" + bn.upper() + "_NUM"] = f.numerator
            vals["DEFAULT_BACKOFF_" + bn.upper() + "_DEN"] = f.denominator

        # ---- validator: a sequence of `if self.a > self.b { return Err(..) }` then Ok(()) ------------
        vbody = block_after(mgr, r"fn validate\s*\(\s*&self\s*\)\s*->\s*Result<\(\),\s*MultiPathManagerConfigError>\s*\{", "validate")
        rest = vbody
        constraints = []
        while True:
            m = re.match(r"\s*if\s+self\.(\w+)\s*(>|>=|<|<=|==)\s*(?:self\.(\w+)|(\d+))\s*\{", rest, flags=re.S)
            if not m:
                break
            blk = block_after(rest, r"\s*if\s+self\.\w+\s*(?:>|>=|<|<=|==)\s*(?:self\.\w+|\d+)\s*\{", "validate if-block")
            if not re.fullmatch(r"\s*return\s+Err\s*\(.*\)\s*;\s*", blk, flags=re.S):
                raise E(f"validate: unexpected block {blk!r}")
            constraints.append((m.group(1), m.group(2), m.group(3), m.group(4)))
            rest = rest[rest.index("{") + len(blk) + 2:]
        if not re.fullmatch(r"\s*Ok\s*\(\s*\(\s*\)\s*\)\s*", rest):
            raise E(f"validate: unrecognised statements: {rest.strip()[:120]!r}")
        if not constraints:
            raise E("validate: no constraints recognised")
        lean_of = {rn: ln for rn, ln, _ in FIELDS if ln}
        neg = {">": "≤", ">=": "<", "<": "≥", "<=": ">", "==": "≠"}
        conj = []
        for a, op, b, lit in constraints:
            if a not in lean_of or (b is not None and b not in lean_of):
                raise E(f"validate: constraint over unknown field {a} {op} {b}")
            rhs = f"c.{lean_of[b]}" if b is not None else lit
            conj.append(f"decide (c.{lean_of[a]} {neg[op]} {rhs})")
        vals["VALIDATE"] = " && ".join(conj)

        # ---- half-lives ------------------------------------------------------------------------------
        m = re.search(r"const EXPONENTIAL_DECAY_HALFLIFE\s*:\s*Duration\s*=\s*(Duration::from_\w+\([^;]*\))\s*;", rel)
        if not m:
            raise E("EXPONENTIAL_DECAY_HALFLIFE not found")
        vals["RELIABILITY_HALF_LIFE_NS"] = duration_ns(m.group(1), "EXPONENTIAL_DECAY_HALFLIFE")
        m = re.search(r"const SYSTEM_HALF_LIFE\s*:\s*Duration\s*=\s*(Duration::from_\w+\([^;]*\))\s*;", iss)
        if not m:
            raise E("IssueMarker::SYSTEM_HALF_LIFE not found")
        vals["ISSUE_HALF_LIFE_NS"] = duration_ns(m.group(1), "SYSTEM_HALF_LIFE")

        # ---- penalty magnitudes (fn penalty) ---------------------------------------------------------
        pbody = block_after(iss, r"fn penalty\s*\(\s*&self\s*\)\s*->\s*Score\s*\{", "IssueKind::penalty")

        def arm(pattern, what):
            m = re.search(pattern + r"\s*=>\s*\{?\s*(-?[0-9.]+)", pbody, flags=re.S)
            if not m:
                raise E(f"penalty arm {what} not found")
            return frac(m.group(1), what)

        link = arm(r"ScmpErrorMessage::ExternalInterfaceDown\(_\)\s*\|\s*ScmpErrorMessage::InternalConnectivityDown\(_\)", "link down")
        first = arm(r"SendError::FirstHopUnreachable\s*\{\s*\.\.\s*\}", "first hop unreachable")
        for nm, f in [("PENALTY_LINK_DOWN", link), ("PENALTY_FIRST_HOP", first)]:
            if f > 0:
                raise E(f"{nm}: expected a non-positive magnitude, got {f}")
            vals[nm + "_NUM"] = (-f).numerator
            vals[nm + "_DEN"] = (-f).denominator
        if not re.search(r"Score::new_clamped\(magnitude\)", pbody):
            raise E("penalty(): result is no longer Score::new_clamped(magnitude)")

        # ---- scorer impacts, length scorer ----------------------------------------------------------
        for cn in ["DEFAULT_RELIABILITY_IMPACT", "DEFAULT_LENGTH_IMPACT"]:
            m = re.search(rf"pub const {cn}\s*:\s*f32\s*=\s*([0-9.]+)\s*;", sco)
            if not m:
                raise E(f"{cn} not found")
            f = frac(m.group(1), cn)
            vals[cn + "_NUM"], vals[cn + "_DEN"] = f.numerator, f.denominator
        for cn in ["MAX_SCORE", "MIN_SCORE", "HOP_COUNT_FOR_MIN_SCORE"]:
            m = re.search(rf"const {cn}\s*:\s*f32\s*=\s*([0-9.]+)\s*;", sco)
            if not m:
                raise E(f"PathLengthScorer {cn} not found")
            f = frac(m.group(1), cn)
            vals["LENGTH_" + cn + "_NUM"], vals["LENGTH_" + cn + "_DEN"] = f.numerator, f.denominator
        if not re.search(r"use_default_scorers[^}]*PathReliabilityScorer[^}]*DEFAULT_RELIABILITY_IMPACT[^}]*PathLengthScorer[^}]*DEFAULT_LENGTH_IMPACT", sco, flags=re.S):
            raise E("use_default_scorers no longer registers (reliability, length) with the default impacts")

        # ---- Score clamp -------------------------------------------------------------------------------
        m = re.search(r"value\.clamp\(\s*(-?[0-9.]+)\s*,\s*(-?[0-9.]+)\s*\)", typ)
        if not m:
            raise E("Score::new_clamped clamp bounds not found")
        lo, hi = frac(m.group(1), "clamp lo"), frac(m.group(2), "clamp hi")
        if lo.denominator != 1 or hi.denominator != 1:
            raise E("Score clamp bounds are not integers")
        vals["SCORE_CLAMP_LO_NEG"] = int(-lo)
        vals["SCORE_CLAMP_HI"] = int(hi)

        # ---- the swap rule and expiry classification are control flow (hand-modelled) but their shape is pinned
        if not re.search(r"if\s+diff\s*>\s*self\.config\.path_swap_score_threshold", pst):
            raise E("decide_active_path_update: `diff > path_swap_score_threshold` not found")
        if not re.search(r"Ok\(time_left\)\s+if\s+time_left\s*<=\s*threshold\s*=>\s*ExpiryState::NearExpiry", pst):
            raise E("check_path_expiry: `time_left <= threshold => NearExpiry` not found")
        if not re.search(r"time_since_last_seen\s*<\s*self\.deduplication_window", mgr):
            raise E("add_issue: `time_since_last_seen < deduplication_window` not found")
        if not re.search(r"self\.cache\.len\(\)\s*>=\s*self\.max_entries", mgr):
            raise E("add_issue: `cache.len() >= max_entries` not found")

        vals["SCORE_UNIT_LOG2"] = SCORE_UNIT_LOG2

        # ---- Lean -----------------------------------------------------------------------------------
        b = "namespace ScionVerif.Generated.PathMgr\n"
        b += "/-- mirror of `MultiPathManagerConfig` (durations in ns, threshold in units of 2^-SCORE_UNIT_LOG2);\n"
        b += "    the f32 backoff parameters enter the model only through `backoffMax` (ns) -/\n"
        b += "structure Cfg where\n"
        for rn, ln, ty in FIELDS:
            if ln:
                b += f"  {ln} : {'Int' if ty == 'f32' else 'Nat'}\n"
        b += "  backoffMax : Nat\n"
        b += "  deriving Repr, DecidableEq\n"
        for k, v in vals.items():
            if k == "VALIDATE":
                continue
            b += f"def {k} : Nat := {v}\n"
        b += "/-- `MultiPathManagerConfig::validate` (Ok ↦ true) -/\n"
        b += f"def validate (c : Cfg) : Bool := {vals['VALIDATE']}\n"
        th = Fraction(vals["DEFAULT_PATH_SWAP_SCORE_THRESHOLD_NUM"], vals["DEFAULT_PATH_SWAP_SCORE_THRESHOLD_DEN"]) * 2 ** SCORE_UNIT_LOG2
        if th.denominator != 1:
            raise E("default swap threshold is not a dyadic rational")
        bmax = Fraction(vals["DEFAULT_BACKOFF_MAXIMUM_DELAY_SECS_NUM"], vals["DEFAULT_BACKOFF_MAXIMUM_DELAY_SECS_DEN"]) * NS
        if bmax.denominator != 1:
            raise E("default backoff maximum is not a whole number of ns")
        b += "/-- `MultiPathManagerConfig::default()` -/\n"
        b += "def defaultCfg : Cfg where\n"
        for rn, ln, ty in FIELDS:
            if not ln:
                continue
            if ty == "usize":
                b += f"  {ln} := DEFAULT_{rn.upper()}\n"
            elif ty == "Duration":
                b += f"  {ln} := DEFAULT_{rn.upper()}_NS\n"
            else:
                b += f"  {ln} := {int(th)}\n"
        b += f"  backoffMax := {int(bmax)}\n"
        b += "end ScionVerif.Generated.PathMgr\n"
        return api.write_lean("PathMgr", b, [MGR, ISS, REL, SCO, TYP, PST]), vals
