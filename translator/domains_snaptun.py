"""Translator domain `SnapTun` (property C09).

Extracted from the Rust sources of the working tree (data / decision predicates only; control flow is
hand-modelled and tied by the correspondence harness hx_snaptun):

* `IdentityRegistration::is_authorized`  — the comparison between `expires_at` and `now`
  (generated as the Lean function `authorizedAt`, so `>` -> `>=` changes the function the theorems are
  stated over and `expiry_strict` stops checking);
* `IdentityRegistryState::clean_expired` — that the purge predicate is the negation of `is_authorized`;
* `IdentityRegistryState::add_identity`  — the supersession guard (`prev_identity != identity`) and the
  `retain` predicate that removes the identity from every other key;
* `IdentityRegistry::update_state` — the statement classes in source order (`UPDATE_STEPS`: 0 acquire the write lock
  with the guard bound to a named variable, 1 load+clone, 2 modifier, 3 store; `UPDATE_UNDER_WRITE_LOCK`): the
  concurrency theorems run the program computed from this list, so a missing lock (or `let _ = ..lock()`) makes
  `Conc.program_is_locked` fail; that `register` / `remove_expired` are single calls of it, that it is the only
  writer of the `ArcSwap`, that `has_authorization` / `is_authorized` are one `load` each, that the lock is a
  `std::sync::Mutex`; any other shape is an ExtractError;
* `SnapTunServer::handle_{incoming,outgoing}_packet_with_session` — number of authorisation checks that
  return early (3: occupied entry, new handshake, outgoing), and the early return that keeps a handshake rejected by
  the freshly created tunnel from leaving a tunnel entry (fix 9197560);
* the public surface of `SnapTunServer`: the names of all `pub fn` of all its impl blocks (`SERVER_PUB_FNS`, compared by
  the `decide` theorem `entry_points_pinned` with the list of entry points the model has a function for and the
  harness drives), and that the two compatibility wrappers `handle_incoming_packet` / `handle_outgoing_packet` are the
  `_with_session` function followed by the projection (`PLAIN_*_DELEGATES`; false makes the same theorem fail);
* gotatun `N_SESSIONS`, `MAX_QUEUE_DEPTH` (vendored crate; used only by the executable WireGuard stand-in of the
  model driver, never by a theorem about the server).
"""
import re, glob, os


def register(api):
    E = api.ExtractError

    def fn_body(src, header_re, what):
        m = re.search(header_re, src)
        if not m:
            raise E(f"{what}: function header not found")
        i = src.index("{", m.end() - 1) if src[m.end() - 1] != "{" else m.end() - 1
        depth, j = 0, i
        while j < len(src):
            if src[j] == "{":
                depth += 1
            elif src[j] == "}":
                depth -= 1
                if depth == 0:
                    return src[i + 1:j]
            j += 1
        raise E(f"{what}: unbalanced braces")

    @api.domain
    def gen_SnapTun():
        rel_reg = "crates/snap/snap-control/src/server/identity_registry.rs"
        rel_srv = "crates/snap/snap-tun/src/server.rs"
        reg = api.strip_comments(api.read(rel_reg))
        srv = api.strip_comments(api.read(rel_srv))
        vals = {}

        # --- IdentityRegistration::is_authorized: `self.expires_at <op> now`
        m = re.search(r"impl\s+IdentityRegistration\s*\{", reg)
        if not m:
            raise E("impl IdentityRegistration not found")
        body = fn_body(reg[m.end():], r"fn\s+is_authorized\s*\(\s*&self\s*,\s*now\s*:\s*Instant\s*\)\s*->\s*bool\s*\{", "IdentityRegistration::is_authorized")
        mm = re.fullmatch(r"\s*self\.expires_at\s*(>=|<=|>|<|==|!=)\s*now\s*", body)
        if not mm:
            raise E(f"IdentityRegistration::is_authorized: body is not `self.expires_at <cmp> now`: {body.strip()!r}")
        op = mm.group(1)
        lean_op = {">": ">", ">=": "≥", "<": "<", "<=": "≤", "==": "=", "!=": "≠"}[op]
        vals["EXPIRY_CMP"] = op

        # --- IdentityRegistryState::is_authorized: sessions.get(ident).filter(|s| s.is_authorized(now))
        m = re.search(r"impl\s+IdentityRegistryState\s*\{", reg)
        if not m:
            raise E("impl IdentityRegistryState not found")
        st = reg[m.end():]
        b = " ".join(fn_body(st, r"fn\s+is_authorized\s*\([^)]*\)\s*->\s*Option<Arc<\(\)>>\s*\{", "IdentityRegistryState::is_authorized").split())
        if not re.search(r"self\s*\.sessions\s*\.get\(ident\)\s*\.filter\(\|session\| session\.is_authorized\(now\)\)", b):
            raise E(f"IdentityRegistryState::is_authorized: unexpected body {b!r}")
        vals["STATE_AUTH_IS_SESSION_LOOKUP_FILTERED"] = True

        # --- clean_expired: predicate `!session.is_authorized(now)`
        b = " ".join(fn_body(st, r"fn\s+clean_expired\s*\([^)]*\)\s*\{", "clean_expired").split())
        if not re.search(r"\(\s*!session\.is_authorized\(now\)\s*\)\s*\.then_some\(\*identity\)", b):
            raise E(f"clean_expired: purge predicate is not `!session.is_authorized(now)`: {b!r}")
        if not re.search(r"self\.sessions\.remove\(&identity\);\s*self\.associations\s*\.retain\(\|_, registered_identity\| \*registered_identity != identity\)", b):
            raise E(f"clean_expired: removal statements changed: {b!r}")
        vals["PURGE_IS_NOT_AUTHORIZED"] = True

        # --- add_identity: guards
        b = " ".join(fn_body(st, r"fn\s+add_identity\b[^{]*->\s*bool\s*\{", "add_identity").split())
        if not re.search(r"if let Some\(prev_identity\) = self\.associations\.insert\(key\.clone\(\), identity\) && prev_identity != identity \{ self\.sessions\.remove\(&prev_identity\); \}", b):
            raise E(f"add_identity: supersession statement changed: {b!r}")
        if not re.search(r"self\.associations\.retain\(\|existing_key, existing_identity\| \{ \*existing_identity != identity \|\| existing_key == &key \}\)", b):
            raise E(f"add_identity: retain predicate changed: {b!r}")
        if not re.search(r"let was_new = !self\.sessions\.contains_key\(&identity\);", b):
            raise E(f"add_identity: was_new changed: {b!r}")
        vals["ADD_SUPERSEDES_PREV"] = True
        vals["ADD_RETAIN_OTHER_KEYS_DROPPED"] = True

        # --- IdentityRegistry (the shared object): fields, the single writer `update_state`, its callers, readers
        flatreg = " ".join(reg.split())
        if not re.search(r"use std::\{[^}]*\bsync::\{[^}]*\bMutex\b[^}]*\}", flatreg):
            raise E("identity_registry.rs: `Mutex` is not imported from std::sync (a blocking mutex is what the model assumes)")
        if not re.search(r"pub struct IdentityRegistry \{ state: arc_swap::ArcSwap<IdentityRegistryState>, write_lock: Mutex<\(\)>, \}", flatreg):
            raise E("struct IdentityRegistry is not { state: arc_swap::ArcSwap<IdentityRegistryState>, write_lock: Mutex<()> }")
        m = re.search(r"impl\s+IdentityRegistry\s*\{", reg)
        if not m:
            raise E("impl IdentityRegistry not found")
        ir = reg[m.end():]
        ub = " ".join(fn_body(ir, r"fn\s+update_state\s*<F>\s*\(\s*&self\s*,\s*modifier\s*:\s*F\s*\)\s*where\s+F\s*:\s*FnOnce\(&mut IdentityRegistryState\)\s*,?\s*\{", "IdentityRegistry::update_state").split())
        stmts = [s.strip() for s in ub.split(";") if s.strip()]
        # statement classes: 0 = acquire the write lock, guard bound to a variable that lives to the end of the
        # function; 1 = load + clone the shared state into a local; 2 = apply the modifier to the local;
        # 3 = store the local as the new shared state
        LOCK = r"let (\w+) = self \.write_lock \.lock\(\) \.(?:expect\(\"[^\"]*\"\)|unwrap\(\))"
        LOAD = r"let mut state(?:: IdentityRegistryState)? = \(\*\*self\.state\.load\(\)\)\.clone\(\)"
        MODI = r"(?:\(modifier\)|modifier)\(&mut state\)"
        STOR = r"self\.state\.store\(Arc::new\(state\)\)"
        steps = []
        guard = None
        for s in stmts:
            s1 = re.sub(r"\s*\.\s*", " .", s)          # `self .write_lock .lock()` regardless of line breaks
            mm = re.fullmatch(LOCK, s1)
            if mm:
                guard = mm.group(1)
                steps.append(0)
            elif re.fullmatch(LOAD, s):
                steps.append(1)
            elif re.fullmatch(MODI, s):
                steps.append(2)
            elif re.fullmatch(STOR, s):
                steps.append(3)
            else:
                raise E(f"update_state: unrecognised statement {s!r} (body {ub!r})")
        if steps not in ([0, 1, 2, 3], [1, 2, 3]):
            raise E(f"update_state: statement order {steps} is neither lock-load-modify-store nor load-modify-store: {ub!r}")
        if guard is not None and not re.fullmatch(r"_[A-Za-z]\w*|[A-Za-z]\w*", guard):
            # `let _ = lock()` drops the guard at once: the remaining statements run without the lock
            steps = [1, 2, 3]
        if re.search(r"\bdrop\s*\(", ub):
            raise E(f"update_state: explicit drop in the body: {ub!r}")
        vals["UPDATE_STEPS"] = steps
        vals["UPDATE_UNDER_WRITE_LOCK"] = steps == [0, 1, 2, 3]
        # the only writer of `self.state` in the whole file is that store
        writers = re.findall(r"\.\s*(store|swap|rcu|compare_and_swap)\s*\(", reg)
        if writers != ["store"]:
            raise E(f"identity_registry.rs: expected exactly one write to the ArcSwap (the store in update_state), found {writers}")
        if len(re.findall(r"\bwrite_lock\b", reg)) != (3 if guard is not None else 2):
            raise E("identity_registry.rs: write_lock is used outside `new` and `update_state`")
        rb = " ".join(fn_body(ir, r"pub\s+fn\s+register\s*<S:\s*AsRef<str>>\s*\([^)]*\)\s*->\s*bool\s*\{", "IdentityRegistry::register").split())
        if not re.fullmatch(r"let mut res = false; self\.update_state\(\|state\| \{ res = state\.add_identity\(key, ident, now \+ lifetime\); \}\); res", rb):
            raise E(f"IdentityRegistry::register is not a single update_state(add_identity(key, ident, now + lifetime)): {rb!r}")
        pb = " ".join(fn_body(ir, r"pub\s+fn\s+remove_expired\s*\(\s*&self\s*,\s*now\s*:\s*Instant\s*\)\s*\{", "IdentityRegistry::remove_expired").split())
        if not re.fullmatch(r"self\.update_state\(\|state\| state\.clean_expired\(now\)\);", pb):
            raise E(f"IdentityRegistry::remove_expired is not a single update_state(clean_expired(now)): {pb!r}")
        vals["WRITERS_GO_THROUGH_UPDATE_STATE"] = True
        # readers take one snapshot per decision
        hb = " ".join(fn_body(ir, r"pub\s+fn\s+has_authorization\s*\([^)]*\)\s*->\s*bool\s*\{", "IdentityRegistry::has_authorization").split())
        if hb != "self.state.load().is_authorized(now, identity).is_some()":
            raise E(f"has_authorization is not one load + is_authorized: {hb!r}")
        m = re.search(r"impl\s+SnapTunAuthorization\s+for\s+IdentityRegistry\s*\{", reg)
        if not m:
            raise E("impl SnapTunAuthorization for IdentityRegistry not found")
        ab = " ".join(fn_body(reg[m.end():], r"fn\s+is_authorized\s*\([^)]*\)\s*->\s*Option<Arc<Self::SessionData>>\s*\{", "SnapTunAuthorization::is_authorized").split())
        if ab != "self.state.load().is_authorized(now, identity)":
            raise E(f"SnapTunAuthorization::is_authorized is not one load + is_authorized: {ab!r}")
        vals["READ_IS_ONE_SNAPSHOT"] = True

        # --- server: authorisation checks that return early
        n_checks =len(re.findall(r"let Some\(session_data\) = self\s*\.authz\s*\.is_authorized\(\s*packet_now\s*,", " ".join(srv.split())))
        if n_checks != 3:
            raise E(f"server.rs: expected 3 `let Some(session_data) = self.authz.is_authorized(packet_now, ..) else` checks, found {n_checks}")
        vals["SERVER_AUTHZ_CHECKS"] = n_checks
        # --- server: a handshake initiation that the freshly created tunnel rejects must not leave a tunnel entry
        flat = " ".join(srv.split())
        m1 = re.search(r"if let TunnResult::Err\(err\) = res \{.*?return HandleIncomingPacketResult::Result \{ result: TunnResult::Err\(err\), \}; \}", flat)
        m2 = flat.find("e.insert_entry(ActiveTunnel { peer_static, tunn });")
        if not m1 or m2 < 0 or not (m1.end() <= m2):
            raise E("server.rs: the early return for a handshake rejected by the new tunnel (before insert_entry) was not found")
        vals["VACANT_REJECTED_HANDSHAKE_NOT_INSERTED"] = True

        # --- server: the public surface of `SnapTunServer` (every `pub fn` of every `impl .. SnapTunServer<..>` block
        # in source order; a cfg-gated block prefixes its functions with the feature; a trait impl or a `pub` field is
        # listed too).  The model (`entryPoints`) and the harness (`DRIVEN`) know this list; a new public entry point
        # that neither models nor drives makes `entry_points_pinned` fail.
        ms = re.search(r"pub struct SnapTunServer\s*<[^{]*\{", srv)
        if not ms:
            raise E("struct SnapTunServer not found")
        sbody = srv[ms.end():srv.index("}", ms.end())]
        pub_fns = ["field:" + f for f in re.findall(r"\bpub(?:\([^)]*\))?\s+(\w+)\s*:", sbody)]
        impl_re = re.compile(r"((?:#\[[^\]]*\]\s*)*)\bimpl\s*(?:<[^{]*?>)?\s*(?:([\w:]+(?:<[^{]*?>)?)\s+for\s+)?SnapTunServer\s*<[^{]*?>\s*(?:where\b[^{]*)?\{")
        n_impl = 0
        for mi in impl_re.finditer(srv):
            n_impl += 1
            attrs, trait = mi.group(1), mi.group(2)
            depth, j = 1, mi.end()
            while j < len(srv) and depth:
                depth += {"{": 1, "}": -1}.get(srv[j], 0)
                j += 1
            if depth:
                raise E("impl SnapTunServer: unbalanced braces")
            ibody = srv[mi.end():j - 1]
            prefix = ""
            if attrs.strip():
                mf = re.fullmatch(r'#\[cfg\(feature = "([\w-]+)"\)\]', " ".join(attrs.split()))
                prefix = (mf.group(1) if mf else " ".join(attrs.split())) + ":"
            if trait:
                pub_fns.append(f"{prefix}impl {trait}")
                continue
            for mfn in re.finditer(r"\bpub(\([^)]*\))?\s+(?:(?:const|async|unsafe)\s+)*fn\s+(\w+)", ibody):
                pub_fns.append(prefix + (f"pub{mfn.group(1)}:" if mfn.group(1) else "") + mfn.group(2))
        if n_impl == 0:
            raise E("no `impl .. SnapTunServer<..>` block found")
        for need in ("handle_incoming_packet_with_session", "handle_outgoing_packet_with_session"):
            if need not in pub_fns:
                raise E(f"server.rs: pub fn {need} not found in impl SnapTunServer")
        vals["SERVER_PUB_FNS"] = pub_fns
        # the two compatibility wrappers are the `_with_session` function followed by a projection
        imp = next(mi for mi in impl_re.finditer(srv) if not mi.group(1).strip() and not mi.group(2))
        isrc = srv[imp.end():]

        def wrapper(name, sig_re, want):
            try:
                b = " ".join(fn_body(isrc, r"pub\s+fn\s+" + name + r"\s*\(" + sig_re, name).split())
            except E:
                return False
            return re.sub(r"\s*\.\s*", ".", b) == want
        vals["PLAIN_INCOMING_DELEGATES"] = wrapper(
            "handle_incoming_packet",
            r"\s*&mut self\s*,\s*packet\s*:\s*Packet\s*,\s*from\s*:\s*SocketAddr\s*,\s*send_to_network\s*:\s*&mut VecDeque<WgKind>\s*,?\s*\)\s*->\s*TunnResult\s*\{",
            "self.handle_incoming_packet_with_session(packet, from, send_to_network).into_result()")
        vals["PLAIN_OUTGOING_DELEGATES"] = wrapper(
            "handle_outgoing_packet",
            r"\s*&mut self\s*,\s*packet\s*:\s*Packet\s*,\s*to\s*:\s*SocketAddr\s*,?\s*\)\s*->\s*Option<WgKind>\s*\{",
            "self.handle_outgoing_packet_with_session(packet, to).and_then(HandleOutgoingPacketResult::into_packet)")
        # the projections themselves
        vals["INTO_RESULT_IS_PROJECTION"] = bool(re.search(
            r"pub fn into_result\(self\) -> TunnResult \{ match self \{ HandleIncomingPacketResult::Result \{ result \} => result, "
            r"HandleIncomingPacketResult::Forwarded \{ packet, \.\. \} => \{ TunnResult::WriteToTunnel\(packet\) \} \} \}", flat))
        vals["INTO_PACKET_IS_PROJECTION"] = bool(re.search(
            r"pub fn into_packet\(self\) -> Option<WgKind> \{ self\.network_packet \}", flat))

        # --- gotatun constants (vendored crate, version pinned by Cargo.lock)
        lock = api.read("Cargo.lock")
        mv = re.search(r'name = "ana-gotatun"\s*\nversion = "([^"]+)"', lock)
        if not mv:
            raise E("ana-gotatun not in Cargo.lock")
        cands = glob.glob(os.path.expanduser(f"~/.cargo/registry/src/*/ana-gotatun-{mv.group(1)}/src/noise/mod.rs"))
        if not cands:
            raise E(f"vendored ana-gotatun-{mv.group(1)} source not found")
        with open(cands[0], encoding="utf-8") as f:
            gsrc = api.strip_comments(f.read())
        gc = api.find_consts(gsrc)
        for name in ("N_SESSIONS", "MAX_QUEUE_DEPTH"):
            vals[name] = api.eval_const(name, gc, {})

        body = "namespace ScionVerif.Generated.SnapTun\n"
        body += f"/-- `IdentityRegistration::is_authorized`: `self.expires_at {op} now` -/\n"
        body += f"def authorizedAt (expiresAt now : Nat) : Bool := decide (expiresAt {lean_op} now)\n"
        body += f"def SERVER_AUTHZ_CHECKS : Nat := {n_checks}\n"
        body += ("/-- `IdentityRegistry::update_state` (the only writer of the shared `ArcSwap`; `register` and `remove_expired`\n"
                 "are single calls of it): classes of its statements in source order. 0 = `let <guard> = self.write_lock.lock()…`\n"
                 "with the guard bound to a named variable (lives to the end of the function); 1 = `let mut state =\n"
                 "(**self.state.load()).clone()`; 2 = `(modifier)(&mut state)`; 3 = `self.state.store(Arc::new(state))`.\n"
                 "A guard bound to `_` (dropped at once) is classified as absent. -/\n")
        body += f"def UPDATE_STEPS : List Nat := [{', '.join(str(x) for x in vals['UPDATE_STEPS'])}]\n"
        body += f"def UPDATE_UNDER_WRITE_LOCK : Bool := {'true' if vals['UPDATE_UNDER_WRITE_LOCK'] else 'false'}\n"
        lb = lambda b: "true" if b else "false"
        body += ("/-- every `pub fn` of every `impl .. SnapTunServer<..>` block of snap-tun/src/server.rs in source order\n"
                 "(`<feature>:` = inside a `#[cfg(feature = ..)]` block, `impl <Trait>` = a trait impl, `field:` = a pub field) -/\n")
        body += "def SERVER_PUB_FNS : List String := [" + ", ".join('"' + n.replace('\\', '\\\\').replace('"', '\\"') + '"' for n in pub_fns) + "]\n"
        body += ("/-- `handle_incoming_packet` is `self.handle_incoming_packet_with_session(packet, from, send_to_network)\n"
                 ".into_result()` and `into_result` maps `Result { result }` to `result`, `Forwarded { packet, .. }` to\n"
                 "`WriteToTunnel(packet)` -/\n")
        body += f"def PLAIN_INCOMING_DELEGATES : Bool := {lb(vals['PLAIN_INCOMING_DELEGATES'] and vals['INTO_RESULT_IS_PROJECTION'])}\n"
        body += ("/-- `handle_outgoing_packet` is `self.handle_outgoing_packet_with_session(packet, to)\n"
                 ".and_then(HandleOutgoingPacketResult::into_packet)` and `into_packet` is `self.network_packet` -/\n")
        body += f"def PLAIN_OUTGOING_DELEGATES : Bool := {lb(vals['PLAIN_OUTGOING_DELEGATES'] and vals['INTO_PACKET_IS_PROJECTION'])}\n"
        body += f"def N_SESSIONS : Nat := {vals['N_SESSIONS']}\n"
        body += f"def MAX_QUEUE_DEPTH : Nat := {vals['MAX_QUEUE_DEPTH']}\n"
        body += "end ScionVerif.Generated.SnapTun\n"
        return api.write_lean("SnapTun", body, [rel_reg, rel_srv, "ana-gotatun/src/noise/mod.rs"]), vals
