"""Translator domain `Addr` (property C15): constants, name tables and separator characters of the
address / identifier text forms, re-extracted from the Rust sources on every run.

Everything the Lean model `Model/AddrText.lean` treats as *data* comes from here: integer widths of the
identifier types, the AS-number notation parameters (48 bit = 3 parts of 16 bit, decimal boundary for
parsing and for display), the well-known service names and values (the `Display` table and the `FromStr`
table are extracted separately – the theorems need them to agree), the multicast flag and suffixes, the
`<SVC:0x....>` frame and hex width, the separator characters of the splitters and the TXT prefix.
"""
import re


def lean_chars(s):
    return "[" + ", ".join("'" + ("\\'" if c == "'" else "\\\\" if c == "\\" else c) + "'" for c in s) + "]"


def register(api):
    E = api.ExtractError

    def need(m, what):
        if not m:
            raise E(what + " not found")
        return m

    def body_of(src, header_re, what):
        """text of the `{...}` block that follows the first match of header_re"""
        m = need(re.search(header_re, src), what)
        i = src.index("{", m.end() - 1) if src[m.end() - 1] != "{" else m.end() - 1
        depth, j = 0, i
        while j < len(src):
            if src[j] == "{":
                depth += 1
            elif src[j] == "}":
                depth -= 1
                if depth == 0:
                    return src[i + 1:j]
            j += 1
        raise E(what + ": unbalanced braces")

    def int_bits(ty, what):
        if ty not in api.INT_BITS:
            raise E(f"{what}: unexpected integer type {ty}")
        return api.INT_BITS[ty]

    @api.domain
    def gen_Addr():
        base = "crates/libs/sciparse/src/scion/"
        f_isd, f_asn, f_ia = base + "identifier/isd.rs", base + "identifier/asn.rs", base + "identifier/isd_asn.rs"
        f_host, f_addr, f_sock = base + "address/host_addr.rs", base + "address/addr.rs", base + "address/socket_addr.rs"
        f_txt = "crates/scion-stack/src/resolver/txt.rs"
        vals = {}
        chars = {}
        tables = {}

        # ---- ISD ------------------------------------------------------------------------------
        isd = api.strip_comments(api.read(f_isd))
        m = need(re.search(r"pub struct Isd\(pub (\w+)\)", isd), "struct Isd")
        vals["ISD_BITS"] = int_bits(m.group(1), "Isd")
        m = need(re.search(r"fn from_str\(string: &str\)[^{]*\{\s*(\w+)::from_str\(string\)", isd), "Isd::from_str body")
        if int_bits(m.group(1), "Isd::from_str") != vals["ISD_BITS"]:
            raise E("Isd::from_str parses a different integer type than the field")
        need(re.search(r'write!\(f, "\{\}", self\.0\)', isd), "Isd Display (decimal)")

        # ---- ASN ------------------------------------------------------------------------------
        asn = api.strip_comments(api.read(f_asn))
        consts = api.find_consts(asn)
        types = api.find_types(asn)
        vals["ASN_BITS"] = api.eval_const("BITS", consts, types)
        vals["ASN_BITS_PER_PART"] = api.eval_const("BITS_PER_PART", consts, types)
        vals["ASN_NUMBER_PARTS"] = api.eval_const("NUMBER_PARTS", consts, types)
        vals["ASN_MAX"] = api.eval_const("MAX", {"MAX": consts["MAX"].replace("Self(", "(").replace("Self::", "")}, types,
                                         {"BITS": vals["ASN_BITS"]})
        vals["ASN_DISPLAY_DECIMAL_MAX"] = api.eval_const("BGP_ASN_FORMAT_BOUNDARY", consts, types)
        m = need(re.search(r"if let Ok\(bgp_asn\) = (\w+)::from_str\(asn_string\)\s*\{\s*return if bgp_asn <= (\w+)::MAX\.into\(\)", asn),
                 "Asn::from_str decimal branch")
        vals["ASN_DECIMAL_PARSE_BITS"] = int_bits(m.group(1), "Asn decimal")
        vals["ASN_PARSE_DECIMAL_MAX"] = 2 ** int_bits(m.group(2), "Asn decimal bound") - 1
        m = need(re.search(r"asn_string\.splitn\(Asn::NUMBER_PARTS as usize, '(.)'\)", asn), "Asn::from_str splitn")
        chars["ASN_SEP"] = m.group(1)
        m = need(re.search(r"(\w+)::from_str_radix\(asn_part, (\d+)\)", asn), "Asn::from_str from_str_radix")
        vals["ASN_PART_PARSE_BITS"] = int_bits(m.group(1), "Asn part")
        vals["ASN_PART_RADIX"] = int(m.group(2))
        need(re.search(r'let separator = if i != 0 \{ "' + re.escape(chars["ASN_SEP"]) + r'" \} else \{ "" \};', asn), "Asn Display separator")
        need(re.search(r'write!\(f, "\{asn_part:x\}\{separator\}"\)', asn), "Asn Display lower-case hex parts")

        # ---- ISD-AS ---------------------------------------------------------------------------
        ia = api.strip_comments(api.read(f_ia))
        m = need(re.search(r"filter\(\|c\| \*c == '(.)'\)\.take\(2\)\.count\(\);\s*if n_separators != 1", ia), "IsdAsn::from_str separator count")
        chars["IA_SEP"] = m.group(1)
        need(re.search(r"\.split_once\('" + re.escape(chars["IA_SEP"]) + r"'\)", ia), "IsdAsn::from_str split_once")
        need(re.search(r'write!\(f, "\{\}' + re.escape(chars["IA_SEP"]) + r'\{\}", self\.isd\(\), self\.asn\(\)\)', ia), "IsdAsn Display")
        m = need(re.search(r"pub struct IsdAsn\(pub (\w+)\)", ia), "struct IsdAsn")
        vals["IA_BITS"] = int_bits(m.group(1), "IsdAsn")

        # ---- service / host -------------------------------------------------------------------
        host = api.strip_comments(api.read(f_host))
        m = need(re.search(r"pub struct ServiceAddr\(pub (\w+)\)", host), "struct ServiceAddr")
        vals["SVC_BITS"] = int_bits(m.group(1), "ServiceAddr")
        svc_consts = {}
        for m in re.finditer(r"pub const (\w+): Self = Self\((0x[0-9a-fA-F_]+|\d+)\);", host):
            svc_consts[m.group(1)] = int(m.group(2).replace("_", ""), 0)
        m = need(re.search(r"const MULTICAST_FLAG: u16 = (0x[0-9a-fA-F_]+|\d+);", host), "MULTICAST_FLAG")
        vals["SVC_MULTICAST_FLAG"] = int(m.group(1).replace("_", ""), 0)
        disp = body_of(host, r"impl Display for ServiceAddr\s*\{", "Display for ServiceAddr")
        show_tab = []
        for m in re.finditer(r'ServiceAddr::(\w+) => write!\(f, "(\w+)"\)', disp):
            if m.group(1) not in svc_consts:
                raise E(f"ServiceAddr::{m.group(1)} has no value")
            show_tab.append((m.group(2), svc_consts[m.group(1)]))
        if not show_tab:
            raise E("ServiceAddr Display: no well-known names")
        m = need(re.search(r'ServiceAddr\(value\) => write!\(f, "([^"{]*)\{value:#0(\d+)x\}([^"]*)"\)', disp), "ServiceAddr Display numeric form")
        chars["SVC_HEX_OPEN"] = m.group(1) + "0x"
        vals["SVC_HEX_WIDTH"] = int(m.group(2)) - 2
        chars["SVC_HEX_CLOSE"] = m.group(3)
        m = need(re.search(r'if self\.is_multicast\(\) \{\s*write!\(f, "([^"]*)"\)', disp), "ServiceAddr Display multicast suffix")
        mc = m.group(1)
        frm = body_of(host, r"impl FromStr for ServiceAddr\s*\{", "FromStr for ServiceAddr")
        m = need(re.search(r"s\.split_once\('(.)'\)\.unwrap_or\(\(s, \"(\w+)\"\)\)", frm), "ServiceAddr::from_str split_once")
        chars["SVC_SUFFIX_SEP"] = m.group(1)
        chars["SVC_SUFFIX_ANYCAST"] = m.group(2)
        parse_tab = []
        for m in re.finditer(r'"(\w+)" => ServiceAddr::(\w+),', frm):
            parse_tab.append((m.group(1), svc_consts[m.group(2)]))
        if not parse_tab:
            raise E("ServiceAddr FromStr: no well-known names")
        m = need(re.search(r'"(\w+)" => Ok\(address\.to_multicast\(\)\)', frm), "ServiceAddr::from_str multicast suffix")
        chars["SVC_SUFFIX_MULTICAST"] = m.group(1)
        need(re.search(r'"' + chars["SVC_SUFFIX_ANYCAST"] + r'" => Ok\(address\)', frm), "ServiceAddr::from_str anycast suffix")
        if mc != chars["SVC_SUFFIX_SEP"] + chars["SVC_SUFFIX_MULTICAST"]:
            raise E(f"ServiceAddr: displayed multicast suffix {mc!r} is not separator+parsed suffix")
        # numeric form accepted by from_str (present once the `<SVC:0x....>` repair is in)
        m = re.search(r'strip_prefix\("([^"]*)"\)', frm)
        m2 = re.search(r"strip_suffix\('(.)'\)|strip_suffix\(\"([^\"]*)\"\)", frm)
        m3 = re.search(r"(\w+)::from_str_radix\(\w+, (\d+)\)", frm)
        if not (m and m2 and m3):
            raise E("ServiceAddr::from_str does not parse the numeric form `<SVC:0x....>` that Display prints")
        chars["SVC_PARSE_HEX_OPEN"] = m.group(1)
        chars["SVC_PARSE_HEX_CLOSE"] = m2.group(1) or m2.group(2)
        vals["SVC_PARSE_HEX_BITS"] = int_bits(m3.group(1), "ServiceAddr numeric form")
        vals["SVC_PARSE_HEX_RADIX"] = int(m3.group(2))
        tables["SVC_SHOW_NAMES"] = show_tab
        tables["SVC_PARSE_NAMES"] = parse_tab

        # ---- SCION address / socket address ---------------------------------------------------
        addr = api.strip_comments(api.read(f_addr))
        m = need(re.search(r"s\.splitn\(2, '(.)'\)", addr), "parse_scion_addr splitn")
        chars["ADDR_SEP"] = m.group(1)
        need(re.search(r'write!\(f, "\{\}' + re.escape(chars["ADDR_SEP"]) + r'\{\}", isd_asn, host\)', addr), "format_scion_addr")
        sock = api.strip_comments(api.read(f_sock))
        m = need(re.search(r"s\.rsplit_once\('(.)'\)", sock), "parse_socket_addr rsplit_once")
        chars["PORT_SEP"] = m.group(1)
        m = need(re.search(r"strip_prefix\('(.)'\)", sock), "parse_socket_addr strip_prefix (bracket repair)")
        chars["SOCK_OPEN"] = m.group(1)
        m = need(re.search(r"strip_suffix\('(.)'\)", sock), "parse_socket_addr strip_suffix (bracket repair)")
        chars["SOCK_CLOSE"] = m.group(1)
        m = need(re.search(r"let port: (\w+) = port\.parse\(\)", sock), "parse_socket_addr port type")
        vals["PORT_BITS"] = int_bits(m.group(1), "port")
        fm = need(re.search(r'write!\(f, "(.)\{\}(.)\{\}(.)(.)\{\}", isd_asn, host, port\)', sock), "format_socket_addr")
        if (fm.group(1), fm.group(2), fm.group(3), fm.group(4)) != (chars["SOCK_OPEN"], chars["ADDR_SEP"], chars["SOCK_CLOSE"], chars["PORT_SEP"]):
            raise E("format_socket_addr and parse_socket_addr use different delimiters")

        # ---- TXT ------------------------------------------------------------------------------
        txt = api.strip_comments(api.read(f_txt))
        m = need(re.search(r'const SCION_TXT_PREFIX: &str = "([^"]*)";', txt), "SCION_TXT_PREFIX")
        chars["TXT_PREFIX"] = m.group(1)
        fn = body_of(txt, r"fn parse_txt_payload\(payload: &str\)[^{]*\{", "parse_txt_payload")
        m = need(re.search(r"remaining\.starts_with\('(.)'\)", fn), "parse_txt_payload open bracket")
        chars["TXT_OPEN"] = m.group(1)
        m = need(re.search(r"\.find\('(.)'\)", fn), "parse_txt_payload close bracket")
        chars["TXT_CLOSE"] = m.group(1)
        m = need(re.search(r"\.split_once\('(.)'\)", fn), "parse_txt_payload entry separator")
        chars["TXT_ENTRY_SEP"] = m.group(1)
        m = need(re.search(r"rest\.starts_with\('(.)'\)", fn), "parse_txt_payload list separator")
        chars["TXT_LIST_SEP"] = m.group(1)
        # record layer: character-strings joined with no separator, strict UTF-8, version prefix stripped,
        # failed records collected and skipped, error only when nothing valid is left
        fn = body_of(txt, r"fn txt_record_to_string\(txt: &TXT\)[^{]*\{", "txt_record_to_string")
        need(re.search(r"\.txt_data\(\)\s*\.iter\(\)\s*\.flat_map\(\|chunk\| chunk\.iter\(\)\)\s*\.copied\(\)\s*\.collect\(\)", fn),
             "txt_record_to_string: character-strings concatenated without separator")
        if "from_utf8_lossy" in fn:
            raise E("txt_record_to_string decodes lossily (model: strict String::from_utf8)")
        m = need(re.search(r'String::from_utf8\(bytes\)\s*\.map_err\(\|_\| InvalidEntry::new\("([^"]*)",', fn),
                 "txt_record_to_string: strict String::from_utf8 with an InvalidEntry on failure")
        chars["TXT_INVALID_UTF8_RAW"] = m.group(1)
        vals["TXT_UTF8_STRICT"] = 1
        fn = body_of(txt, r"fn resolve_txt_records_with_invalid\([^{]*\{", "resolve_txt_records_with_invalid")
        need(re.search(r"let Some\(payload\) = record\.strip_prefix\(SCION_TXT_PREFIX\) else \{\s*continue;\s*\};", fn),
             "resolve_txt_records_with_invalid: records without the prefix are skipped")
        need(re.search(r"match parse_txt_payload\(payload\) \{\s*Ok\(mut addresses\) => valid\.append\(&mut addresses\),\s*"
                       r"Err\(err\) => invalid\.push\(InvalidEntry::new\(record, err\.to_string\(\)\)\),\s*\}", fn),
             "resolve_txt_records_with_invalid: valid appended in order, failed record collected")
        need(re.search(r"if valid\.is_empty\(\) \{\s*return Err\(ResolveError::NoValidEntries \{", fn),
             "resolve_txt_records_with_invalid: NoValidEntries only when no address is left")
        need(re.search(r"Ok\(valid\)\s*$", fn.strip()), "resolve_txt_records_with_invalid: returns the valid addresses")
        rs = body_of(txt, r"async fn resolve\(&self, domain: &str\)[^{]*\{", "ScionTxtDnsResolver::resolve")
        need(re.search(r"for txt in lookup\.iter\(\) \{\s*match txt_record_to_string\(txt\) \{\s*Ok\(txt_record\) => txt_records\.push\(txt_record\),\s*"
                       r"Err\(err\) => invalid_entries\.push\(err\),\s*\}\s*\}\s*resolve_txt_records_with_invalid\(domain, txt_records, invalid_entries\)", rs),
             "ScionTxtDnsResolver::resolve: record loop")
        hk = body_of(txt, r"pub fn verif_resolve_txt_rrs\([^{]*\{", "verif_resolve_txt_rrs (hook)")
        norm = lambda s: re.sub(r"\s+", " ", s).strip()
        loop_of = lambda s: norm(s[s.index("let mut txt_records"):])
        if loop_of(hk).replace("for rr in rrs { let txt = TXT::from_bytes(rr.iter().map(Vec::as_slice).collect()); match txt_record_to_string(&txt)",
                               "for txt in lookup.iter() { match txt_record_to_string(txt)") != loop_of(rs):
            raise E("verif_resolve_txt_rrs no longer repeats the record loop of ScionTxtDnsResolver::resolve")

        body ="namespace ScionVerif.Generated.Addr\n"
        for k, v in vals.items():
            body += f"def {k} : Nat := {v}\n"
        for k, v in chars.items():
            if len(v) == 1 and not k.endswith(("_OPEN", "_CLOSE", "_PREFIX", "_ANYCAST", "_MULTICAST")) or k in (
                    "SOCK_OPEN", "SOCK_CLOSE", "TXT_OPEN", "TXT_CLOSE"):
                body += f"def {k} : Char := '{v}'\n"
            else:
                body += f"def {k} : List Char := {lean_chars(v)}\n"
        for k, tab in tables.items():
            body += f"def {k} : List (List Char × Nat) := [" + ", ".join(f"({lean_chars(n)}, {v})" for n, v in tab) + "]\n"
        body += "end ScionVerif.Generated.Addr\n"
        allv = dict(vals)
        allv.update(chars)
        allv.update({k: [[n, v] for n, v in t] for k, t in tables.items()})
        return api.write_lean("Addr", body, [f_isd, f_asn, f_ia, f_host, f_addr, f_sock, f_txt]), allv
