"""Translator domains `SnapFilter` (C08) and `Scmp` (C14).

Everything the two models use as *data* is re-extracted from the Rust sources on every run:
common/address header bit ranges, the address-type nibble -> (kind, size) table, the path-type
encoding, standard-path meta ranges and field sizes, the SNAP policy's accepted path types / IP kinds,
the parameter-problem codes used per rejection class, the gateway buffer size; the SCMP type table,
per-kind fixed header sizes, SCMP_ERROR_MAX_PACKET_SIZE, protocol numbers, echo/parameter-problem
field ranges, and the handler decision tables (which message kinds the default handlers answer).
"""
import re

SCI = "crates/libs/sciparse/src/"
HDR_LAYOUT = SCI + "proto/header/layout.rs"
HOST_ADDR = SCI + "scion/address/host_addr.rs"
PATH_TYPES = SCI + "proto/dataplane_path/types.rs"
STD_LAYOUT = SCI + "proto/dataplane_path/standard/layout.rs"
ONEHOP_LAYOUT = SCI + "proto/dataplane_path/onehop/layout.rs"
SCMP_LAYOUT = SCI + "proto/payload/scmp/layout.rs"
SCMP_TYPES = SCI + "proto/payload/scmp/types.rs"
SCMP_MODEL = SCI + "proto/payload/scmp/model.rs"
PAYLOAD = SCI + "proto/payload.rs"
CHECKSUM = SCI + "scion/checksum.rs"
POLICY = "crates/snap/snap-dataplane/src/tunnel_gateway/packet_policy.rs"
GATEWAY = "crates/snap/snap-dataplane/src/tunnel_gateway/gateway.rs"
ECHO = "crates/scion-stack/src/stack/scmp_handler/echo.rs"
ERRH = "crates/scion-stack/src/stack/scmp_handler/error.rs"
SOCKET = "crates/scion-stack/src/stack/socket.rs"
SCMP_VIEW = SCI + "proto/payload/scmp/view.rs"
SIM = "crates/pocketscion/src/network/local/simulator.rs"
STACK = "crates/scion-stack/src/stack.rs"
PS_ECHO = "crates/pocketscion/src/comp/echo_responder.rs"
# codes of the handler types in STACK_SOCKET_HANDLERS (Model/ScmpHandler.lean `handlerOfCode`)
HANDLER_CODES = {"ScmpErrorHandler": 0, "DefaultEchoHandler": 1}


def register(api):
    E = api.ExtractError

    def impl_block(src, header_re, what):
        """text of the `{...}` block that follows the first match of header_re (brace matching)"""
        m = re.search(header_re, src)
        if not m:
            raise E(f"{what}: block header not found")
        i = src.index("{", m.end() - 1)
        depth, j = 0, i
        while j < len(src):
            if src[j] == "{":
                depth += 1
            elif src[j] == "}":
                depth -= 1
                if depth == 0:
                    return src[i + 1:j]
            j += 1
        raise E(f"{what}: unbalanced braces")

    def bitranges(block, what, env=None):
        """all gen_bitrange_const!(NAME, start, width) of a block -> {NAME: (start, width)}"""
        out = {}
        for m in re.finditer(r"gen_bitrange_const!\(\s*([A-Z0-9_]+)\s*,\s*([^,]+?)\s*,\s*([^)]+?)\s*\)\s*;", block, flags=re.S):
            try:
                out[m.group(1)] = (api.eval_expr(m.group(2), {}, {}, env or {}), api.eval_expr(m.group(3), {}, {}, env or {}))
            except E:
                pass  # ranges defined over other layouts' constants are not needed here
        if not out:
            raise E(f"{what}: no gen_bitrange_const! found")
        return out

    def need(d, k, what):
        if k not in d:
            raise E(f"{what}: {k} not found")
        return d[k]

    def int_lit(s):
        s = s.strip().replace("_", "")
        if s.startswith("0b"):
            return int(s[2:], 2)
        if s.startswith("0x"):
            return int(s[2:], 16)
        return int(s)

    def enum_from_u8(src, enum, what):
        """arms `LIT => Enum::Variant,` of `impl From<u8> for Enum` -> {Variant: value}"""
        blk = impl_block(src, rf"impl\s+From<u8>\s+for\s+{enum}\s*\{{", what)
        out = {}
        for m in re.finditer(rf"\b(0b[01_]+|0x[0-9a-fA-F_]+|\d+)\s*=>\s*{enum}::(\w+)\s*,", blk):
            out[m.group(2)] = int_lit(m.group(1))
        if not out:
            raise E(f"{what}: no literal arms")
        return out, blk

    def rng(name, r):
        return f"def {name} : Nat × Nat := ({r[0]}, {r[1]})\n"

    def gateway_glue(gw):
        """shape of the `HandleIncomingPacketResult::Forwarded` arm of the receive closure in
        `TunnelGateway::start_server` (the only code that calls `Dispatcher::try_dispatch` on tunnel input) and of the
        `local_addr` binding -> {fact name: bool | int}.  Raises when the arm / its match on the policy check cannot be
        found; a fact that no longer holds is emitted as `false` (the theorem over the generated names then fails)."""
        def norm(t):
            return re.sub(r"\s+", "", t)
        srv = impl_block(gw, r"pub\s+async\s+fn\s+start_server\(", "TunnelGateway::start_server")
        m = re.search(r"HandleIncomingPacketResult::Forwarded\s*\{([^{}]*)\}\s*=>\s*\{", srv)
        if not m:
            raise E("start_server: arm `HandleIncomingPacketResult::Forwarded { .. } => {` not found")
        binds = [b.strip() for b in m.group(1).split(",") if b.strip()]
        arm = impl_block(srv[m.start():], r"=>\s*\{", "start_server: Forwarded arm")
        mm = re.search(r"match\s+inbound_datagram_check\(", arm)
        if not mm or len(re.findall(r"inbound_datagram_check\(", srv)) != 1:
            raise E("start_server: the Forwarded arm does not `match inbound_datagram_check(..)` exactly once")
        # the call's argument list
        i = arm.index("(", mm.start())
        depth, j = 0, i
        while True:
            depth += {"(": 1, ")": -1}.get(arm[j], 0)
            if depth == 0:
                break
            j += 1
        call_args = norm(arm[i + 1:j]).rstrip(",")
        body = impl_block(arm[j:], r"\{", "start_server: match on inbound_datagram_check")
        # top-level arms `PATTERN => {block}` of that match
        arms, k, inner = [], 0, body[1:-1]
        while True:
            a = re.search(r"\s*([^{}]*?)\s*=>\s*\{", inner[k:])
            if not a:
                break
            blk = impl_block(inner[k + a.start():], r"=>\s*\{", "start_server: arm of the policy match")
            arms.append((norm(a.group(1)), blk))
            k = k + a.start() + inner[k + a.start():].index(blk) + len(blk)
        if len(arms) < 2:
            raise E("start_server: arms of the match on inbound_datagram_check not recognised")
        pats = [p for p, _ in arms]
        ok_blk = next((b for p, b in arms if p.startswith("Ok(")), "")
        err_blk = "".join(b for p, b in arms if p.startswith("Err("))
        okn, errn = norm(ok_blk), norm(err_blk)
        la = re.search(r"let\s+local_addr\s*=\s*(.*?);", srv, flags=re.S)
        if not la:
            raise E("start_server: `let local_addr = ..;` not found")
        lan = norm(la.group(1))
        facts = {
            "GATEWAY_FORWARDED_BINDS_PACKET": "packet" in binds,
            "GATEWAY_CHECK_ARG_IS_WHOLE_PAYLOAD": call_args.split(",")[0] == "&packet[..]",
            "GATEWAY_CHECK_ARG_IS_FROM_IP": call_args == "&packet[..],from.ip()",
            "GATEWAY_CHECK_ARMS_ARE_OK_VIEW_AND_ERR": pats == ["Ok(view)", "Err(e)"],
            "GATEWAY_DISPATCHES_VIEW": okn.count("try_dispatch(") == 1 and "self.dispatcher.try_dispatch(view);" in okn
                                        and "letview" not in okn and "view=" not in okn,
            "GATEWAY_OK_ARM_SENDS_NOTHING": not re.search(r"create_scmp_error|handle_outgoing_packet|try_queue_batched_packet|try_send", okn),
            "GATEWAY_ERR_ARM_NEVER_DISPATCHES": "try_dispatch" not in errn and "dispatcher" not in errn,
            "GATEWAY_REPLY_BUILT_ONCE": errn.count("create_scmp_error(") == 1 and errn.count("try_queue_batched_packet(") == 1
                                         and errn.count("handle_outgoing_packet(") == 1,
            "GATEWAY_REPLY_SRC_IS_LOCAL_ADDR": "Self::create_scmp_error(e,local_addr," in errn,
            "GATEWAY_REPLY_DST_IS_FROM_IP": "Self::create_scmp_error(e,local_addr,ScionAddr::new(IsdAsn::WILDCARD,from.ip().into()),&muttarget_buf,)" in errn
                                             or "Self::create_scmp_error(e,local_addr,ScionAddr::new(IsdAsn::WILDCARD,from.ip().into()),&muttarget_buf)" in errn,
            "GATEWAY_REPLY_SENT_TO_FROM": "snaptun_srv.handle_outgoing_packet(target_buf,from)" in errn
                                           and re.search(r"try_queue_batched_packet\(&socket,&mutsender,Self::wg_kind_to_bytes\(out_pkt\),from,?\)", errn) is not None,
            "LOCAL_ADDR_IS_SOCKET_LOCAL_IP": lan.startswith("ScionHostAddr::from(socket.local_addr().map(|s|s.ip())"),
            "LOCAL_ADDR_FALLBACK_UNSPECIFIED": ".unwrap_or(IpAddr::V4(Ipv4Addr::UNSPECIFIED))" in lan,
        }
        counts = {"GATEWAY_TRY_DISPATCH_SITES": len(re.findall(r"try_dispatch\(", srv)),
                  "GATEWAY_CHECK_ARMS": len(arms)}
        return facts, counts

    def path_type_arms():
        """`impl From<u8> for PathType`: literal arms [(literal, ordinal of the variant in the arm list)] and whether the
        fallback is `other => PathType::Other(other)` (then `from` is injective iff literals and variants are distinct)"""
        src = api.strip_comments(api.read(PATH_TYPES))
        blk = impl_block(src, r"impl\s+From<u8>\s+for\s+PathType\s*\{", "PathType::from(u8)")
        lits = [(int_lit(m.group(1)), m.group(2)) for m in re.finditer(r"\b(0b[01_]+|0x[0-9a-fA-F_]+|\d+)\s*=>\s*PathType::(\w+)\s*,", blk)]
        names = []
        for _, n in lits:
            if n not in names:
                names.append(n)
        fb = re.search(r"\b(\w+)\s*=>\s*PathType::Other\(\s*\1\s*\)", blk)
        if not lits or not fb or "Other" in names:
            raise E("PathType::from(u8): literal arms + `other => PathType::Other(other)` not recognised")
        return [(v, names.index(n)) for v, n in lits]

    # -----------------------------------------------------------------------------------------
    def header_data():
        src = api.strip_comments(api.read(HDR_LAYOUT))
        common = bitranges(impl_block(src, r"impl\s+CommonHeaderLayout\s*\{", "CommonHeaderLayout"), "CommonHeaderLayout")
        addr_blk = impl_block(src, r"impl\s+AddressHeaderLayout\s*\{", "AddressHeaderLayout")
        addr = bitranges(addr_blk, "AddressHeaderLayout")
        m = re.search(r"const\s+FIXED_SIZE_BITS\s*:\s*usize\s*=\s*(\d+)\s*;", addr_blk)
        if not m:
            raise E("AddressHeaderLayout::FIXED_SIZE_BITS not found")
        fixed_bits = int(m.group(1))
        # dst host at FIXED, src host at FIXED + dst_len*8 (order of the two host addresses)
        d = re.search(r"fn\s+dst_host_addr_range.*?let\s+start\s*=\s*Self::FIXED_SIZE_BITS\s*;", addr_blk, flags=re.S)
        s = re.search(r"fn\s+src_host_addr_range.*?let\s+start\s*=\s*Self::FIXED_SIZE_BITS\s*\+\s*\(self\.dst_addr_len\s+as\s+usize\)\s*\*\s*8\s*;", addr_blk, flags=re.S)
        if not d or not s:
            raise E("AddressHeaderLayout: host address order (dst first, then src) not recognised")
        m = re.search(r"pub\s+const\s+MAX_SIZE_BYTES\s*:\s*usize\s*=\s*(\d+)\s*;", impl_block(src, r"impl\s+ScionHeaderLayout\s*\{", "ScionHeaderLayout"))
        if not m:
            raise E("ScionHeaderLayout::MAX_SIZE_BYTES not found")
        max_hdr = int(m.group(1))
        for k in ["VERSION_RNG", "NEXT_HEADER_RNG", "HEADER_LEN_RNG", "PAYLOAD_LEN_RNG", "PATH_TYPE_RNG",
                  "DST_ADDR_INFO_RNG", "SRC_ADDR_INFO_RNG", "TOTAL_RNG", "TRAFFIC_CLASS_RNG", "FLOW_ID_RNG", "RSV_RNG"]:
            need(common, k, "CommonHeaderLayout")
        for k in ["DST_IA_RNG", "SRC_IA_RNG"]:
            need(addr, k, "AddressHeaderLayout")
        # header_len() multiplies the field by 4
        vsrc = api.strip_comments(api.read(SCI + "proto/header/view.rs"))
        if not re.search(r"fn\s+header_len\(&self\)\s*->\s*u16\s*\{[^}]*HEADER_LEN_RNG\)\s*as\s+u16\s*\*\s*4", vsrc, flags=re.S):
            raise E("ScionHeaderView::header_len: `* 4` unit not recognised")
        return common, addr, fixed_bits, max_hdr

    def addr_type_table():
        src = api.strip_comments(api.read(HOST_ADDR))
        lit, blk = enum_from_u8(src, "WireHostAddrType", "WireHostAddrType::from(u8)")
        m = re.search(r"other\s*=>\s*\{\s*let\s+id\s*=\s*other\s*>>\s*(\d+)\s*;\s*let\s+size\s*=\s*\(\(other\s*&\s*(0b[01]+|\d+)\)\s*\+\s*(\d+)\)\s*\*\s*(\d+)\s*;", blk)
        if not m:
            raise E("WireHostAddrType::from(u8): `other` arm formula not recognised")
        sh, mask, add, mul = int(m.group(1)), int_lit(m.group(2)), int(m.group(3)), int(m.group(4))
        sz_blk = impl_block(src, r"pub\s+const\s+fn\s+size\(&self\)\s*->\s*u8\s*\{", "WireHostAddrType::size")
        sizes = {m.group(1): int(m.group(2)) for m in re.finditer(r"WireHostAddrType::(\w+)\s*=>\s*(\d+)\s*,", sz_blk)}
        kinds = {"IPV4": 0, "IPV6": 1, "Service": 2}
        for k in kinds:
            if k not in lit or k not in sizes:
                raise E(f"WireHostAddrType: variant {k} missing")
        if set(lit) - set(kinds):
            raise E(f"WireHostAddrType: unexpected known variants {sorted(set(lit) - set(kinds))}")
        by_val = {v: k for k, v in lit.items()}
        table = []
        for n in range(16):
            if n in by_val:
                table.append((kinds[by_val[n]], sizes[by_val[n]], 0))
            else:
                table.append((3, ((n & mask) + add) * mul, n >> sh))
        # which wire kinds `WireHostAddr::ip()` maps to an IpAddr
        ip_blk = impl_block(src[src.index("impl WireHostAddr {"):], r"pub\s+const\s+fn\s+ip\(&self\)\s*->\s*Option<IpAddr>\s*\{", "WireHostAddr::ip")
        ipk = sorted({"V4": 0, "V6": 1}[m.group(1)] for m in re.finditer(r"WireHostAddr::(V4|V6)\(\w+\)\s*=>\s*Some\(IpAddr::\1", ip_blk))
        if ipk != [0, 1] or re.search(r"(Svc|Unknown)[^=]*=>\s*Some", ip_blk):
            raise E("WireHostAddr::ip(): arms not recognised")
        # try_from_parts: expected buffer length per kind
        tf = impl_block(src, r"pub\s+fn\s+try_from_parts\(", "WireHostAddr::try_from_parts")
        exp = {}
        for k in kinds:
            m = re.search(rf"WireHostAddrType::{k}\s*=>\s*\{{\s*let\s+buf\s*:\s*\[u8;\s*(\d+)\]", tf)
            if not m:
                raise E(f"try_from_parts: arm {k} not recognised")
            exp[kinds[k]] = int(m.group(1))
        return table, lit, exp

    def path_data():
        src = api.strip_comments(api.read(PATH_TYPES))
        pt, _ = enum_from_u8(src, "PathType", "PathType::from(u8)")
        for k in ["Empty", "Scion", "OneHop"]:
            need(pt, k, "PathType")
        std = api.strip_comments(api.read(STD_LAYOUT))
        meta = bitranges(impl_block(std, r"impl\s+StdPathMetaLayout\s*\{", "StdPathMetaLayout"), "StdPathMetaLayout")
        info = bitranges(impl_block(std, r"impl\s+InfoFieldLayout\s*\{", "InfoFieldLayout"), "InfoFieldLayout")
        hop = bitranges(impl_block(std, r"impl\s+HopFieldLayout\s*\{", "HopFieldLayout"), "HopFieldLayout")
        for k in ["SEG0_LEN_RNG", "SEG1_LEN_RNG", "SEG2_LEN_RNG", "TOTAL_RNG"]:
            need(meta, k, "StdPathMetaLayout")
        info_sz = need(info, "TOTAL_RNG", "InfoFieldLayout")[1] // 8
        hop_sz = need(hop, "TOTAL_RNG", "HopFieldLayout")[1] // 8
        oh = api.strip_comments(api.read(ONEHOP_LAYOUT))
        m = re.search(r"pub\s+const\s+SIZE_BYTES\s*:\s*usize\s*=\s*InfoFieldLayout::SIZE_BYTES\s*\+\s*(\d+)\s*\*\s*HopFieldLayout::SIZE_BYTES\s*;", oh)
        if not m:
            raise E("OneHopPathLayout::SIZE_BYTES not recognised")
        onehop = info_sz + int(m.group(1)) * hop_sz
        return pt, meta, info_sz, hop_sz, onehop

    @api.domain
    def gen_SnapFilter():
        common, addr, fixed_bits, max_hdr = header_data()
        table, lit, exp = addr_type_table()
        pt, meta, info_sz, hop_sz, onehop = path_data()
        pol = api.strip_comments(api.read(POLICY))
        m = re.search(r"match\s+view\.header\(\)\.path_type\(\)\s*\{\s*((?:PathType::\w+\s*\|?\s*)+)=>\s*\{\s*\}", pol)
        if not m:
            raise E("inbound_datagram_check: accepted path-type arm not recognised")
        acc_names = re.findall(r"PathType::(\w+)", m.group(1))
        accepted = sorted(need(pt, n, "PathType") for n in acc_names)
        # check order in the policy: parse, source address, path type
        i1, i2, i3 = pol.find("try_from_slice(datagram)"), pol.find("src_ip != expected_ip"), pol.find("match view.header().path_type()")
        if not (0 <= i1 < i2 < i3):
            raise E("inbound_datagram_check: check order (parse, source, path type) not recognised")
        gw = api.strip_comments(api.read(GATEWAY))
        m = re.search(r"const\s+PACKET_BUF_SIZE\s*:\s*usize\s*=\s*(\d+)\s*;", gw)
        if not m:
            raise E("gateway PACKET_BUF_SIZE not found")
        bufsz = int(m.group(1))
        types = api.strip_comments(api.read(SCMP_TYPES))
        pp_blk = impl_block(types, r"pub\s+enum\s+ScmpParameterProblemCode\s*\{", "ScmpParameterProblemCode")
        ppc = {m.group(1): int(m.group(2)) for m in re.finditer(r"(\w+)\s*=\s*(\d+)\s*,", pp_blk)}
        fn = impl_block(gw, r"fn\s+create_inbound_scmp_error\(", "create_inbound_scmp_error")
        codes = {}
        for variant in ["MalformedPacket", "InvalidSourceAddress", "InvalidPathType"]:
            m = re.search(rf"PacketPolicyError::{variant}\([^)]*\)\s*=>\s*\{{\s*scmp::model::ScmpParameterProblem::new\(\s*ScmpParameterProblemCode::(\w+)\s*,", fn)
            if not m:
                raise E(f"create_inbound_scmp_error: arm {variant} not recognised")
            codes[variant] = need(ppc, m.group(1), "ScmpParameterProblemCode")
        if "IsdAsn::WILDCARD" not in gw or "DpPath::Empty" not in impl_block(gw, r"fn\s+create_scmp_error\(", "create_scmp_error"):
            raise E("create_scmp_error: wildcard ISD-AS / empty path not recognised")
        vals = {
            "COMMON_SIZE": common["TOTAL_RNG"][1] // 8, "ADDR_FIXED_SIZE": fixed_bits // 8, "MAX_HEADER_SIZE": max_hdr,
            "HEADER_LEN_UNIT": 4, "PACKET_BUF_SIZE": bufsz, "INFO_FIELD_SIZE": info_sz, "HOP_FIELD_SIZE": hop_sz,
            "PATH_META_SIZE": meta["TOTAL_RNG"][1] // 8, "ONEHOP_PATH_SIZE": onehop,
            "PT_EMPTY": pt["Empty"], "PT_SCION": pt["Scion"], "PT_ONEHOP": pt["OneHop"],
            "ACCEPTED_PATH_TYPES": accepted,
            "CODE_MALFORMED": codes["MalformedPacket"], "CODE_BAD_SOURCE": codes["InvalidSourceAddress"],
            "CODE_BAD_PATH_TYPE": codes["InvalidPathType"],
            "ADDR_TYPE_TABLE": table, "NIBBLE_IPV4": lit["IPV4"], "NIBBLE_IPV6": lit["IPV6"], "NIBBLE_SVC": lit["Service"],
            "EXPECTED_ADDR_LEN": [exp[0], exp[1], exp[2]],
        }
        body = "namespace ScionVerif.Generated.SnapFilter\n"
        for k in ["VERSION_RNG", "TRAFFIC_CLASS_RNG", "FLOW_ID_RNG", "NEXT_HEADER_RNG", "HEADER_LEN_RNG", "PAYLOAD_LEN_RNG",
                  "PATH_TYPE_RNG", "DST_ADDR_INFO_RNG", "SRC_ADDR_INFO_RNG", "RSV_RNG"]:
            body += rng(k, common[k]); vals[k] = list(common[k])
        for k in ["DST_IA_RNG", "SRC_IA_RNG"]:
            body += rng(k, addr[k]); vals[k] = list(addr[k])
        for k in ["SEG0_LEN_RNG", "SEG1_LEN_RNG", "SEG2_LEN_RNG"]:
            body += rng(k, meta[k]); vals[k] = list(meta[k])
        for k in ["COMMON_SIZE", "ADDR_FIXED_SIZE", "MAX_HEADER_SIZE", "HEADER_LEN_UNIT", "PACKET_BUF_SIZE", "INFO_FIELD_SIZE",
                  "HOP_FIELD_SIZE", "PATH_META_SIZE", "ONEHOP_PATH_SIZE", "PT_EMPTY", "PT_SCION", "PT_ONEHOP",
                  "CODE_MALFORMED", "CODE_BAD_SOURCE", "CODE_BAD_PATH_TYPE", "NIBBLE_IPV4", "NIBBLE_IPV6", "NIBBLE_SVC"]:
            body += f"def {k} : Nat := {vals[k]}\n"
        body += "/-- path types the SNAP policy lets through (`PathType::… => {}` arm of inbound_datagram_check) -/\n"
        body += f"def ACCEPTED_PATH_TYPES : List Nat := {accepted}\n"
        body += "/-- nibble (DT/ST ++ DL/SL) -> (kind, size in bytes, unknown type id); `WireHostAddrType::from(u8)` + `size()`;\n"
        body += "    address kind: 0 = IPv4, 1 = IPv6, 2 = service, 3 = unknown -/\n"
        body += "def ADDR_TYPE_TABLE : List (Nat × Nat × Nat) := [" + ", ".join(f"({k}, {s}, {i})" for k, s, i in table) + "]\n"
        body += "/-- buffer length `WireHostAddr::try_from_parts` demands for kinds 0,1,2 -/\n"
        body += f"def EXPECTED_ADDR_LEN : List Nat := {[exp[0], exp[1], exp[2]]}\n"
        body += "/-- kinds for which `WireHostAddr::ip()` is `Some` -/\n"
        body += "def IP_KINDS : List Nat := [0, 1]\n"
        body += "/-- (kind, family of the `IpAddr` that `WireHostAddr::ip()` builds from it: 4 = `IpAddr::V4`, 6 = `IpAddr::V6`) -/\n"
        body += "def IP_KIND_FAMILY : List (Nat × Nat) := [(0, 4), (1, 6)]\n"
        arms = path_type_arms()
        vals["PATH_TYPE_FROM_U8_ARMS"] = [list(a) for a in arms]
        body += "/-- literal arms of `PathType::from(u8)`: (byte, ordinal of the variant); every other byte `b` becomes\n"
        body += "    `PathType::Other(b)` (fallback arm recognised by the translator) -/\n"
        body += "def PATH_TYPE_FROM_U8_ARMS : List (Nat × Nat) := [" + ", ".join(f"({v}, {o})" for v, o in arms) + "]\n"
        facts, counts = gateway_glue(gw)
        body += "/-! shape of the `HandleIncomingPacketResult::Forwarded` arm of the receive closure of\n"
        body += "    `TunnelGateway::start_server` (gateway.rs) - the code `gatewayStep` stands for - read from the source text -/\n"
        for k2, v2 in facts.items():
            vals[k2] = bool(v2)
            body += f"def {k2} : Bool := {'true' if v2 else 'false'}\n"
        for k2, v2 in counts.items():
            vals[k2] = v2
            body += f"def {k2} : Nat := {v2}\n"
        body += "end ScionVerif.Generated.SnapFilter\n"
        return api.write_lean("SnapFilter", body, [HDR_LAYOUT, HOST_ADDR, PATH_TYPES, STD_LAYOUT, ONEHOP_LAYOUT, POLICY, GATEWAY, SCMP_TYPES]), vals

    # -----------------------------------------------------------------------------------------
    @api.domain
    def gen_Scmp():
        lay = api.strip_comments(api.read(SCMP_LAYOUT))
        m = re.search(r"pub\s+const\s+SCMP_ERROR_MAX_PACKET_SIZE\s*:\s*usize\s*=\s*(\d+)\s*;", lay)
        if not m:
            raise E("SCMP_ERROR_MAX_PACKET_SIZE not found")
        maxsz = int(m.group(1))
        types = api.strip_comments(api.read(SCMP_TYPES))
        ty, _ = enum_from_u8(types, "ScmpMessageType", "ScmpMessageType::from(u8)")
        kinds = ["DestinationUnreachable", "PacketTooBig", "ParameterProblem", "ExternalInterfaceDown",
                 "InternalConnectivityDown", "EchoRequest", "EchoReply", "TracerouteRequest", "TracerouteReply"]
        hdr, is_err, budget_ok = {}, {}, {}
        for k in kinds:
            need(ty, k, "ScmpMessageType")
            blk = impl_block(lay, rf"impl\s+Scmp{k}Layout\s*\{{", f"Scmp{k}Layout")
            m = re.search(r"pub\s+const\s+HEADER_SIZE_BYTES\s*:\s*usize\s*=\s*(\d+)\s*;", blk)
            if not m:
                raise E(f"Scmp{k}Layout::HEADER_SIZE_BYTES not found")
            hdr[k] = int(m.group(1))
            is_err[k] = "fn from_offending_packet_length" in blk
            if is_err[k]:
                # the truncation budget must be exactly the modelled formula
                f = impl_block(blk, r"fn\s+from_offending_packet_length\(", f"Scmp{k}Layout::from_offending_packet_length")
                norm = " ".join(f.split())
                want = ("let max_payload = SCMP_ERROR_MAX_PACKET_SIZE.saturating_sub(header_and_extensions_size); "
                        "let max_offending_len = max_payload.saturating_sub(Self::HEADER_SIZE_BYTES); "
                        "let included_offending = offending_packet_length.min(max_offending_len); "
                        "Self { payload_length: Self::HEADER_SIZE_BYTES + included_offending, }")
                if norm != want:
                    raise E(f"Scmp{k}Layout::from_offending_packet_length: body differs from the modelled formula: {norm!r}")
        m = re.search(r"impl\s+ScmpUnknownMessageLayout\s*\{\s*const\s+HEADER_SIZE_BYTES\s*:\s*usize\s*=\s*(\d+)\s*;", lay)
        if not m:
            raise E("ScmpUnknownMessageLayout::HEADER_SIZE_BYTES not found")
        unk_hdr = int(m.group(1))
        errs = [k for k in kinds if is_err[k]]
        infos = [k for k in kinds if not is_err[k]]
        if [ty[k] for k in errs if ty[k] >= 128] or [ty[k] for k in infos if ty[k] < 128]:
            raise E("SCMP kinds: error kinds must have type < 128 and informational kinds >= 128")
        def section(a, b):
            if a not in lay or b not in lay:
                raise E(f"scmp/layout.rs: section {a!r} not found")
            return lay[lay.index(a):lay.index(b)]
        echo_req = bitranges(section("impl ScmpEchoRequestLayout {", "impl Layout for ScmpEchoRequestLayout"), "ScmpEchoRequestLayout")
        echo_rep = bitranges(section("impl ScmpEchoReplyLayout {", "impl Layout for ScmpEchoReplyLayout"), "ScmpEchoReplyLayout")
        pp = bitranges(section("impl ScmpParameterProblemLayout {", "impl Layout for ScmpParameterProblemLayout"), "ScmpParameterProblemLayout")
        for k in ["TYPE_RNG", "CODE_RNG", "CHECKSUM_RNG", "IDENTIFIER_RNG", "SEQUENCE_NUMBER_RNG"]:
            need(echo_req, k, "ScmpEchoRequestLayout")
            if echo_rep.get(k) != echo_req[k]:
                raise E(f"echo request/reply layouts differ at {k}")
        for k in ["RESERVED_RNG", "POINTER_RNG"]:
            need(pp, k, "ScmpParameterProblemLayout")
        pay = api.strip_comments(api.read(PAYLOAD))
        proto = {}
        for name in ["Udp", "Scmp"]:
            m = re.search(rf"\b{name}\s*=\s*(\d+)\s*,", pay)
            if not m:
                raise E(f"ProtocolNumber::{name} not found")
            proto[name] = int(m.group(1))
        hsrc = api.strip_comments(api.read(HDR_LAYOUT))
        m = re.search(r"pub\s+const\s+MAX_SIZE_BYTES\s*:\s*usize\s*=\s*(\d+)\s*;", hsrc)
        if not m:
            raise E("ScionHeaderLayout::MAX_SIZE_BYTES not found")
        max_hdr = int(m.group(1))
        gw = api.strip_comments(api.read(GATEWAY))
        m = re.search(r"const\s+PACKET_BUF_SIZE\s*:\s*usize\s*=\s*(\d+)\s*;", gw)
        if not m:
            raise E("gateway PACKET_BUF_SIZE not found")
        bufsz = int(m.group(1))
        # does the encoder fold the message bytes into the checksum? (pseudo-header only otherwise)
        mdl = api.strip_comments(api.read(SCMP_MODEL))
        sites = len(re.findall(r"ChecksumDigest::with_pseudoheader\(", mdl))
        covered = len(re.findall(r"ChecksumDigest::with_pseudoheader\([^;]*?\)\s*\.add_slice\([^;]*?\)\s*\.checksum\(\)", mdl, flags=re.S))
        if sites == 0 or covered not in (0, sites):
            raise E(f"scmp/model.rs: {covered} of {sites} checksum sites fold the message bytes (expected none or all)")
        ck = api.strip_comments(api.read(CHECKSUM))
        wp = impl_block(ck, r"pub\s+fn\s+with_pseudoheader\(", "ChecksumDigest::with_pseudoheader")
        order = [wp.find(s) for s in ["dst_ia.to_u64()", "src_ia.to_u64()", "dst_host_addr.encode_unchecked", "src_host_addr.encode_unchecked",
                                      "add_u32(buf.len() as u32)", "add_u32(protocol as u32)"]]
        if -1 in order or order != sorted(order) or "add_slice(buf)" in wp.replace(" ", ""):
            raise E("ChecksumDigest::with_pseudoheader: pseudo-header composition not recognised")
        # ---- handler decision data -------------------------------------------------------------
        view = api.strip_comments(api.read(SCMP_VIEW))
        ie = impl_block(view, r"fn\s+is_error\(&self\)\s*->\s*bool\s*\{", "ScmpMessageExt::is_error")
        is_err_names = sorted(re.findall(r"ScmpMessageView::(\w+)\(_\)", ie))
        if is_err_names != sorted(errs):
            raise E(f"is_error(): variants {is_err_names} differ from the kinds with an offending packet {sorted(errs)}")
        echo = api.strip_comments(api.read(ECHO))
        te = impl_block(echo, r"fn\s+try_echo_reply\(", "DefaultEchoHandler::try_echo_reply")
        answered = re.findall(r"ScmpMessageView::(\w+)\(\w+\)\s*=>", te)
        if answered != ["EchoRequest"] or not re.search(r"_\s*=>\s*return\s+Ok\(None\)", te) or "ScmpEchoReply::new(" not in te:
            raise E(f"DefaultEchoHandler: answered kinds {answered} (expected exactly EchoRequest -> EchoReply, everything else None)")
        if "ScionScmpPacket::new(dst, src, reply_path, reply_msg)" not in " ".join(te.split()):
            raise E("DefaultEchoHandler: reply is not ScionScmpPacket::new(dst, src, reversed path, reply)")
        errh = api.strip_comments(api.read(ERRH))
        eh = impl_block(errh, r"fn\s+handle\(&self,\s*pkt", "ScmpErrorHandler::handle")
        if "is_error()" not in eh or "for_each" not in eh or not re.search(r"\}\);\s*None\s*$", eh.strip()):
            raise E("ScmpErrorHandler::handle: shape (is_error filter, for_each receiver, returns None) not recognised")
        sim = api.strip_comments(api.read(SIM))
        mc = impl_block(sim, r"fn\s+maybe_create_scmp_reply\(", "maybe_create_scmp_reply")
        if "is_error()" not in mc or "is_multicast()" not in mc:
            raise E("maybe_create_scmp_reply: error / multicast guards not recognised")
        no_reply_unknown = bool(re.search(r"message_type\(\)\s*\)?\s*<\s*128", mc))
        hs = impl_block(sim, r"pub\s+fn\s+handle_scmp\(", "handle_scmp")
        v_echo, v_sim = "verify_checksum()" in te, "verify_checksum()" in hs
        psr = impl_block(api.strip_comments(api.read(PS_ECHO)), r"fn\s+handle_scmp_message\(", "PsEchoResponder::handle_scmp_message")
        v_psr = "verify_checksum()" in psr
        if re.findall(r"ScmpMessageView::(\w+)\(\w+\)\s*=>", psr) != ["EchoRequest"] or "ScionScmpPacket::new(dst, src, reply_path, reply)" not in " ".join(psr.split()):
            raise E("PsEchoResponder::handle_scmp_message: shape (EchoRequest -> EchoReply from dst to src over the reversed path) not recognised")
        if not (v_echo == v_sim == v_psr):
            raise E(f"checksum verification on receive: echo handler {v_echo}, simulator {v_sim}, pocketscion echo responder {v_psr} (expected all or none)")
        sock = api.strip_comments(api.read(SOCKET))
        loops = re.findall(r"ProtocolNumber::Udp\s*=>\s*\{\s*\}\s*ProtocolNumber::Scmp\s*=>\s*\{.*?for\s+handler\s+in\s+&self\.scmp_handlers.*?continue;\s*\}\s*next_header\s*=>", sock, flags=re.S)
        if len(loops) < 2:
            raise E("socket.rs: the next_header dispatch of recv_from / recv_from_with_path not recognised")
        # ---- which handlers production sockets carry: every `PathUnawareUdpScionSocket::new(socket, vec![..])` of stack.rs
        def balanced(src, i):
            """text between the parenthesis at src[i] and its partner"""
            depth = 0
            for j in range(i, len(src)):
                if src[j] in "([{":
                    depth += 1
                elif src[j] in ")]}":
                    depth -= 1
                    if depth == 0:
                        return src[i + 1:j]
            raise E("unbalanced parentheses")
        def top_level_split(txt):
            parts, depth, cur = [], 0, ""
            for ch in txt:
                if ch in "([{":
                    depth += 1
                elif ch in ")]}":
                    depth -= 1
                if ch == "," and depth == 0:
                    parts.append(cur); cur = ""
                else:
                    cur += ch
            if cur.strip():
                parts.append(cur)
            return [x.strip() for x in parts]
        stack = api.strip_comments(api.read(STACK))
        wiring = []
        for m in re.finditer(r"PathUnawareUdpScionSocket::new\(", stack):
            fns = list(re.finditer(r"pub\s+(?:async\s+)?fn\s+(\w+)\s*\(", stack[:m.start()]))
            if not fns:
                raise E("stack.rs: PathUnawareUdpScionSocket::new outside a public fn")
            args = top_level_split(balanced(stack, m.end() - 1))
            if len(args) != 2 or not re.fullmatch(r"vec!\[.*\]", args[1], flags=re.S):
                raise E(f"stack.rs {fns[-1].group(1)}: handler argument of PathUnawareUdpScionSocket::new is not a vec![..] literal: {args[1:]!r}")
            elems = top_level_split(args[1][5:-1])
            codes = []
            for e in elems:
                mm = re.fullmatch(r"Box::new\(\s*(\w+)::new\(.*\)\s*,?\s*\)", e, flags=re.S)
                if not mm or mm.group(1) not in HANDLER_CODES:
                    raise E(f"stack.rs {fns[-1].group(1)}: SCMP handler {e!r} is not one of {sorted(HANDLER_CODES)}")
                codes.append(HANDLER_CODES[mm.group(1)])
            wiring.append((fns[-1].group(1), codes))
        if not wiring or len({w[0] for w in wiring}) != len(wiring):
            raise E(f"stack.rs: construction sites of PathUnawareUdpScionSocket not recognised: {wiring}")
        # no other production construction site: in socket.rs they all live in the test module
        first_test = sock.find("#[cfg(test)]")
        if any(first_test < 0 or m.start() < first_test for m in re.finditer(r"PathUnawareUdpScionSocket::new\(", sock)):
            raise E("socket.rs: PathUnawareUdpScionSocket::new outside the test module")
        vals = {
            "STACK_SOCKET_HANDLERS": [[f, c] for f, c in wiring],
            "VERIFY_CHECKSUM_ON_RECEIVE": 1 if v_echo else 0, "NO_REPLY_TO_UNKNOWN_ERROR": 1 if no_reply_unknown else 0,
            "SCMP_ERROR_MAX_PACKET_SIZE": maxsz, "MAX_HEADER_SIZE": max_hdr, "JUMBO_BUF_SIZE": bufsz,
            "PROTO_SCMP": proto["Scmp"], "PROTO_UDP": proto["Udp"], "UNKNOWN_HEADER_SIZE": unk_hdr,
            "CHECKSUM_COVERS_MESSAGE": 1 if covered else 0,
            "ERROR_KINDS": [[k, ty[k], hdr[k]] for k in errs], "INFO_KINDS": [[k, ty[k], hdr[k]] for k in infos],
        }
        body = "namespace ScionVerif.Generated.Scmp\n"
        for k in ["SCMP_ERROR_MAX_PACKET_SIZE", "MAX_HEADER_SIZE", "JUMBO_BUF_SIZE", "PROTO_SCMP", "PROTO_UDP", "UNKNOWN_HEADER_SIZE"]:
            body += f"def {k} : Nat := {vals[k]}\n"
        body += "/-- true iff every SCMP encoder folds the encoded message bytes into the checksum (`.add_slice`) -/\n"
        body += f"def CHECKSUM_COVERS_MESSAGE : Bool := {'true' if covered else 'false'}\n"
        body += "/-- true iff DefaultEchoHandler, pocketscion's handle_scmp and pocketscion's PsEchoResponder verify the SCMP checksum before answering -/\n"
        body += f"def VERIFY_CHECKSUM_ON_RECEIVE : Bool := {'true' if v_echo else 'false'}\n"
        body += "/-- true iff pocketscion's maybe_create_scmp_reply refuses to answer *every* SCMP type < 128, not only the known kinds -/\n"
        body += f"def NO_REPLY_TO_UNKNOWN_ERROR : Bool := {'true' if no_reply_unknown else 'false'}\n"
        for k in kinds:
            body += f"def TYPE_{k} : Nat := {ty[k]}\n"
            body += f"def HDR_{k} : Nat := {hdr[k]}\n"
        body += "/-- (type, fixed header size) of every SCMP error kind that has `from_offending_packet_length` -/\n"
        body += "def ERROR_KINDS : List (Nat × Nat) := [" + ", ".join(f"({ty[k]}, {hdr[k]})" for k in errs) + "]\n"
        body += "/-- (type, fixed header size) of every known informational kind -/\n"
        body += "def INFO_KINDS : List (Nat × Nat) := [" + ", ".join(f"({ty[k]}, {hdr[k]})" for k in infos) + "]\n"
        for k in ["TYPE_RNG", "CODE_RNG", "CHECKSUM_RNG", "IDENTIFIER_RNG", "SEQUENCE_NUMBER_RNG"]:
            body += rng(k, echo_req[k]); vals[k] = list(echo_req[k])
        for k in ["RESERVED_RNG", "POINTER_RNG"]:
            body += rng("PP_" + k, pp[k]); vals["PP_" + k] = list(pp[k])
        body += "/-- (public fn of ScionStack, handler types of the `vec![..]` it passes to `PathUnawareUdpScionSocket::new`):\n"
        body += "    0 = ScmpErrorHandler, 1 = DefaultEchoHandler; every construction site of stack.rs -/\n"
        body += "def STACK_SOCKET_HANDLERS : List (String × List Nat) := [" + ", ".join(f'("{f}", {c})' for f, c in wiring) + "]\n"
        body += "end ScionVerif.Generated.Scmp\n"
        return api.write_lean("Scmp", body, [SCMP_LAYOUT, SCMP_TYPES, SCMP_MODEL, SCMP_VIEW, PAYLOAD, CHECKSUM, HDR_LAYOUT, GATEWAY, ECHO, ERRH, SOCKET, SIM, STACK, PS_ECHO]), vals
