"""translator domain `Router`: decision tables of the pocketscion router / simulator (C13, C01)"""
import re

LT = ["LinkToCore", "LinkToParent", "LinkToChild", "LinkToPeer"]


def register(api):
    @api.domain
    def gen_Router():
        rel = "crates/pocketscion/src/network/scion/routing/spec/standard.rs"
        src = api.strip_comments(api.read(rel))
        m = re.search(r"let segment_change_valid = match \(in_link_type, out_link_type\) \{(.*?)\n\s*\};", src, re.S)
        if not m:
            raise api.ExtractError("segment_change_valid match not found")
        body = m.group(1)
        # arms in source order, first match wins; each side is `_` or `LinkType::A | LinkType::B ...`
        arms = []
        for arm in re.finditer(r"(\([^()]*\)|\b_)\s*=>\s*(true|false)\s*,", body):
            pat, v = arm.group(1).strip(), arm.group(2) == "true"
            if pat == "_":
                arms.append((None, None, v)); continue
            parts = [x.strip() for x in pat[1:-1].split(",")]
            if len(parts) != 2:
                raise api.ExtractError(f"cannot parse match arm {pat!r}")
            sides = []
            for side in parts:
                if side == "_":
                    sides.append(None); continue
                alts = [x.strip() for x in side.split("|")]
                names = []
                for alt in alts:
                    mm = re.fullmatch(r"LinkType::(\w+)", alt)
                    if not mm or mm.group(1) not in LT:
                        raise api.ExtractError(f"cannot parse pattern {side!r} in arm {pat!r}")
                    names.append(mm.group(1))
                sides.append(names)
            arms.append((sides[0], sides[1], v))
        n_arrows = len(re.findall(r"=>", body))
        if n_arrows != len(arms):
            raise api.ExtractError(f"{n_arrows} match arms in the source, {len(arms)} understood")
        rows = []
        vals = {}
        for a in LT:
            for b in LT:
                v = None
                for (pa, pb, val) in arms:
                    if (pa is None or a in pa) and (pb is None or b in pb):
                        v = val; break
                if v is None:
                    raise api.ExtractError(f"no arm matches {(a, b)}")
                vals[f"{a}->{b}"] = v
                rows.append(f"  | .{lean_lt(a)}, .{lean_lt(b)} => {'true' if v else 'false'}")
        # simulator: ScionLinkType (what this AS is on the link) -> AsRoutingLinkType (link to X)
        rel2 = "crates/pocketscion/src/network/scion/simulator.rs"
        src2 = api.strip_comments(api.read(rel2))
        swap = {}
        for k in ["Core", "Child", "Parent", "Peer"]:
            mm = re.search(rf"ScionLinkType::{k}\s*=>\s*AsRoutingLinkType::(\w+)", src2)
            if not mm:
                raise api.ExtractError(f"simulator link-type mapping for {k} not found")
            swap[k] = mm.group(1)
            vals[f"sim:{k}"] = mm.group(1)
        # expiry unit
        rel3 = "crates/libs/sciparse/src/proto/dataplane_path/standard/types.rs"
        src3 = api.strip_comments(api.read(rel3))
        mm = re.search(r"EXP_TIME_UNIT\s*:\s*Duration\s*=\s*Duration::new\(\s*(\d+)\s*,\s*([\d_]+)\s*\)", src3)
        if not mm:
            raise api.ExtractError("EXP_TIME_UNIT not found")
        secs, nanos = int(mm.group(1)), int(mm.group(2).replace("_", ""))
        vals["EXP_UNIT_NANOS"] = secs * 10**9 + nanos
        # largest hop-field index the 6-bit CurrHF pointer can hold (advance_* refuse to move beyond it)
        rel4 = "crates/libs/sciparse/src/proto/dataplane_path/standard/layout.rs"
        src4 = api.strip_comments(api.read(rel4))
        mm = re.search(r"const\s+MAX_TOTAL_HOPS\s*:\s*usize\s*=\s*(\d+)\s*;", src4)
        if not mm:
            raise api.ExtractError("StdPathMetaLayout::MAX_TOTAL_HOPS not found")
        vals["MAX_TOTAL_HOPS"] = int(mm.group(1))
        rel5 = "crates/libs/sciparse/src/proto/dataplane_path/standard/routing.rs"
        src5 = api.strip_comments(api.read(rel5))
        n_guard = len(re.findall(r"curr_hop_idx\s*\+\s*1\s*>\s*StdPathMetaLayout::MAX_TOTAL_HOPS", src5))
        if n_guard != 2:
            raise api.ExtractError(f"expected the CurrHF overflow guard in advance_ingress (segment change) and advance_egress, found {n_guard}")
        out = "namespace ScionVerif.Generated.Router\n"
        out += "inductive LinkType | toCore | toParent | toChild | toPeer\nderiving Repr, DecidableEq\n\n"
        out += "/-- `validate_segment_change`: (link type of the ingress of the current hop, link type of the egress of the next hop) -/\n"
        out += "def segChangeValid : LinkType → LinkType → Bool\n" + "\n".join(rows) + "\n\n"
        out += "/-- role of this AS on a link, as stored in the topology (`ScionLinkType`) -/\n"
        out += "inductive LinkRole | core | child | parent | peer\nderiving Repr, DecidableEq\n\n"
        out += "/-- simulator.rs: role on the link → `AsRoutingLinkType` handed to the router -/\n"
        out += "def roleToLinkType : LinkRole → LinkType\n"
        for k in ["Core", "Child", "Parent", "Peer"]:
            out += f"  | .{k.lower()} => .{lean_lt(swap[k])}\n"
        out += f"\n/-- `EXP_TIME_UNIT` in nanoseconds -/\ndef EXP_UNIT_NANOS : Nat := {vals['EXP_UNIT_NANOS']}\n"
        out += f"\n/-- `StdPathMetaLayout::MAX_TOTAL_HOPS`: largest value of the 6-bit CurrHF pointer -/\ndef MAX_TOTAL_HOPS : Nat := {vals['MAX_TOTAL_HOPS']}\n"
        out += "end ScionVerif.Generated.Router\n"
        return api.write_lean("Router", out, [rel, rel2, rel3, rel4, rel5]), vals


def lean_lt(name):
    return {"LinkToCore": "toCore", "LinkToParent": "toParent", "LinkToChild": "toChild", "LinkToPeer": "toPeer"}[name]
