"""Translator plugin, domain `Comb` (C19, C04): limits, sizes and decision tables used by the path
combinator model, re-extracted from the Rust sources on every run.

  * StdPathMetaLayout::{MAX_SEGMENTS, MAX_SEGMENT_HOPS, MAX_TOTAL_HOPS}, meta / info-field / hop-field sizes
  * the *list* of rejection tests of StandardPath::wire_valid (every `if <cond> { return Err(..) }` in source
    order): the model's `encodeOk` implements exactly this list, a test added / removed / changed in the
    Rust source breaks the extraction instead of silently leaving the model behind
  * ScionHeaderPathLayout::MAX_SIZE_BYTES (formula re-evaluated from its three operands)
  * EXP_TIME_UNIT and the `exp_time + 1` multiplier of exp_time_to_duration
  * the initial MTU (`u16::MAX`) and the saturating conversion of the AS MTU (u32) in PathSolution::path
  * the loop threshold of has_loops (`*v > 2`)
  * the segment sequencing rule of PathSolution::valid_next_seg as Boolean functions of (is core,
    traversed in construction direction) of the edges, with the definitions of SolutionEdge::is_up /
    is_down / in_construction_direction checked against the form the model implements
  * the order of the comparison keys of the solution sort in MultiGraph::get_paths
  * the fields hashed by the data-plane fingerprint and by PathSegment::id
"""
import re

LAYOUT = "crates/libs/sciparse/src/proto/dataplane_path/standard/layout.rs"
DPLAYOUT = "crates/libs/sciparse/src/proto/dataplane_path/layout.rs"
HDRLAYOUT = "crates/libs/sciparse/src/proto/header/layout.rs"
TYPES = "crates/libs/sciparse/src/proto/dataplane_path/standard/types.rs"
STDMODEL = "crates/libs/sciparse/src/proto/dataplane_path/standard/model.rs"
GRAPH = "crates/libs/sciparse/src/scion/path/combinator/graph.rs"
COMB = "crates/libs/sciparse/src/scion/path/combinator.rs"
FPR = "crates/libs/sciparse/src/scion/path/fingerprint/data_plane.rs"
SEGMENT = "crates/libs/sciparse/src/scion/segment.rs"


def register(api):
    E = api.ExtractError

    def impl_blocks(src, name):
        """concatenated bodies of all `impl <name> {` blocks"""
        out = []
        for m in re.finditer(r"\bimpl\s+" + re.escape(name) + r"\s*\{", src):
            i, depth = m.end(), 1
            while i < len(src) and depth:
                depth += {"{": 1, "}": -1}.get(src[i], 0)
                i += 1
            out.append(src[m.end():i - 1])
        if not out:
            raise E(f"impl {name} not found")
        return "\n".join(out)

    def block_after(src, header_rx, what):
        """body of the first `{...}` block whose header matches header_rx"""
        m = re.search(header_rx, src, flags=re.S)
        if not m:
            raise E(f"{what} not found")
        i, depth = m.end(), 1
        while i < len(src) and depth:
            depth += {"{": 1, "}": -1}.get(src[i], 0)
            i += 1
        return src[m.end():i - 1]

    def norm(x):
        return " ".join(x.split()).replace(" .", ".")

    def total_bytes(src, name):
        body = impl_blocks(src, name)
        m = re.search(r"gen_bitrange_const!\(\s*TOTAL_RNG\s*,\s*0\s*,\s*(\d+)\s*\)", body)
        if not m:
            raise E(f"{name}::TOTAL_RNG not found")
        if not re.search(r"SIZE_BYTES\s*:\s*usize\s*=\s*Self::TOTAL_RNG\.end\s*/\s*8", body):
            raise E(f"{name}::SIZE_BYTES is no longer TOTAL_RNG.end / 8")
        bits = int(m.group(1))
        if bits % 8:
            raise E(f"{name}::TOTAL_RNG not byte aligned")
        return bits // 8

    def fn_body(src, name):
        m = re.search(r"\bfn\s+" + re.escape(name) + r"\b[^{;]*\{", src, flags=re.S)
        if not m:
            raise E(f"fn {name} not found")
        i, depth = m.end(), 1
        while i < len(src) and depth:
            depth += {"{": 1, "}": -1}.get(src[i], 0)
            i += 1
        return src[m.end():i - 1]

    @api.domain
    def gen_Comb():
        vals = {}
        lay = api.strip_comments(api.read(LAYOUT))
        meta = impl_blocks(lay, "StdPathMetaLayout")
        c = api.find_consts(meta)
        for k in ("MAX_SEGMENTS", "MAX_SEGMENT_HOPS", "MAX_TOTAL_HOPS"):
            if k not in c:
                raise E(f"StdPathMetaLayout::{k} not found")
            vals[k] = api.eval_expr(c[k], {}, {}, {})
        vals["META_SIZE"] = total_bytes(lay, "StdPathMetaLayout")
        vals["INFO_SIZE"] = total_bytes(lay, "InfoFieldLayout")
        vals["HOP_SIZE"] = total_bytes(lay, "HopFieldLayout")
        # segment-length fields of the meta header (6 bit each)
        for i in range(3):
            m = re.search(rf"gen_bitrange_const!\(\s*SEG{i}_LEN_RNG\s*,\s*\d+\s*,\s*(\d+)\s*\)", meta)
            if not m:
                raise E(f"SEG{i}_LEN_RNG not found")
            vals[f"SEG{i}_LEN_BITS"] = int(m.group(1))

        hdr = api.strip_comments(api.read(HDRLAYOUT))
        sc = api.find_consts(impl_blocks(hdr, "ScionHeaderLayout"))
        if "MAX_SIZE_BYTES" not in sc:
            raise E("ScionHeaderLayout::MAX_SIZE_BYTES not found")
        hdr_max = api.eval_expr(sc["MAX_SIZE_BYTES"], {}, {}, {})
        common = total_bytes(hdr, "CommonHeaderLayout")
        ac = api.find_consts(impl_blocks(hdr, "AddressHeaderLayout"))
        addr_min = api.eval_const("MIN_SIZE_BYTES", ac, {}, {})
        dpl = api.strip_comments(api.read(DPLAYOUT))
        m = re.search(r"MAX_SIZE_BYTES\s*:\s*usize\s*=\s*ScionHeaderLayout::MAX_SIZE_BYTES\s*-\s*"
                      r"CommonHeaderLayout::SIZE_BYTES\s*-\s*AddressHeaderLayout::MIN_SIZE_BYTES\s*;", dpl)
        if not m:
            raise E("ScionHeaderPathLayout::MAX_SIZE_BYTES formula changed")
        vals["PATH_MAX_SIZE"] = hdr_max - common - addr_min

        # ---- StandardPath::wire_valid: the list of rejection tests, in source order -----------------------
        sm = api.strip_comments(api.read(STDMODEL))
        wenc = block_after(sm, r"\bimpl\s+WireEncode\s+for\s+StandardPath\s*\{", "impl WireEncode for StandardPath")
        wbody = fn_body(wenc, "wire_valid")
        checks = [norm(m.group(1)) for m in re.finditer(r"\bif\s+([^{}]+?)\s*\{\s*return\s+Err\(", wbody)]
        expected = [
            "self.required_size() > ScionHeaderPathLayout::MAX_SIZE_BYTES",
            "self.segments.len() > StdPathMetaLayout::MAX_SEGMENTS",
            "self.segments.is_empty()",
            "self.current_hop_field as usize >= self.hop_field_count()",
            "self.current_hop_field as usize > StdPathMetaLayout::MAX_TOTAL_HOPS",
            "self.hop_field_count() > StdPathMetaLayout::MAX_TOTAL_HOPS + 1",
            "self.current_info_field as usize >= self.info_field_count()",
            "segment.hop_fields.len() > StdPathMetaLayout::MAX_SEGMENT_HOPS",
            "segment.hop_fields.is_empty()",
        ]
        if checks != expected:
            raise E("StandardPath::wire_valid: the list of rejection tests changed; Model/Combinator.lean encodeOk "
                    f"implements {expected!r}, the source now has {checks!r}")
        # nothing else may reject: the remaining statements are the two delegations (both `Ok(())`) and the loop
        rest = re.sub(r"\bif\s+[^{}]+?\{\s*return\s+Err\([^;]*;\s*\}", "", wbody)
        rest = norm(rest)
        if rest != norm("for segment in &self.segments { segment.info_field.wire_valid()?; "
                        "for hop_field in &segment.hop_fields { hop_field.wire_valid()?; } } Ok(())"):
            raise E(f"StandardPath::wire_valid: unexpected statements besides the rejection tests: {rest!r}")
        for ty_name in ("InfoField", "HopField"):
            b = fn_body(block_after(sm, r"\bimpl\s+WireEncode\s+for\s+" + ty_name + r"\s*\{", f"impl WireEncode for {ty_name}"), "wire_valid")
            if norm(b) != "Ok(())":
                raise E(f"{ty_name}::wire_valid is no longer `Ok(())`")
        hb = norm(fn_body(sm, "hop_field_count"))
        if hb != norm("self.segments.iter().map(|segment| segment.hop_fields.len()).sum()"):
            raise E("StandardPath::hop_field_count is no longer the sum of the segments' hop_fields.len()")
        m = re.fullmatch(r"self\.hop_field_count\(\) > StdPathMetaLayout::(\w+) \+ (\d+)", checks[5])
        vals["TOTAL_HOPS_LIMIT"] = vals[m.group(1)] + int(m.group(2))
        vals["WIRE_VALID_CHECKS"] = checks
        # path() drops a solution exactly when encoding fails: `path.try_encode_to_vec()?` and the caller's `.ok().flatten()`

        ty = api.strip_comments(api.read(TYPES))
        m = re.search(r"EXP_TIME_UNIT\s*:\s*Duration\s*=\s*Duration::new\(\s*([\d_]+)\s*,\s*([\d_]+)\s*\)", ty)
        if not m:
            raise E("EXP_TIME_UNIT not found")
        secs, nanos = int(m.group(1).replace("_", "")), int(m.group(2).replace("_", ""))
        if nanos % 1_000_000:
            raise E("EXP_TIME_UNIT not a whole number of milliseconds")
        vals["EXP_UNIT_MS"] = secs * 1000 + nanos // 1_000_000
        if not re.search(r"EXP_TIME_UNIT\.saturating_mul\(\s*exp_time\s+as\s+u32\s*\+\s*1\s*\)", fn_body(ty, "exp_time_to_duration")):
            raise E("exp_time_to_duration is no longer EXP_TIME_UNIT * (exp_time + 1)")

        gr = api.strip_comments(api.read(GRAPH))
        pbody = fn_body(gr, "path")
        if not re.search(r"let\s+mut\s+mtu\s*=\s*u16::MAX\s*;", pbody):
            raise E("PathSolution::path: initial mtu is no longer u16::MAX")
        vals["MTU_INIT"] = 65535
        # the AS MTU (u32) enters the u16 minimum saturated (since `fix: combinator must not truncate an AS MTU
        # above u16::MAX`; before: the truncating cast `as_entry.mtu as u16`)
        m = re.search(r"mtu\s*=\s*std::cmp::min\(\s*mtu\s*,\s*(u\d+)::try_from\(as_entry\.mtu\)\.unwrap_or\((u\d+)::MAX\)\s*\)", pbody)
        if not m or m.group(1) != m.group(2):
            raise E("PathSolution::path: `min(mtu, uN::try_from(as_entry.mtu).unwrap_or(uN::MAX))` not found")
        if re.search(r"as_entry\.mtu\s+as\s+u\d+", pbody):
            raise E("PathSolution::path: truncating cast of as_entry.mtu is back")
        vals["AS_MTU_SAT"] = 2 ** int(m.group(1)[1:]) - 1

        # valid_next_seg decision table -> Boolean functions over (is core, in construction direction) of the edges
        vbody = fn_body(gr, "valid_next_seg")
        m1 = re.search(r"\[\s*\]\s*=>\s*(\w+)\s*,", vbody)
        m2 = re.search(r"\[\s*last\s*\]\s*=>\s*\{\s*([^{}]+?)\s*\}", vbody)
        m3 = re.search(r"\[\s*first\s*,\s*second\s*\]\s*=>\s*\{\s*([^{}]+?)\s*\}", vbody)
        m4 = re.search(r"\b_\s*=>\s*\{\s*(\w+)\s*\}", vbody)
        if not (m1 and m2 and m3 and m4):
            raise E("valid_next_seg: match arms not recognised")
        if not re.search(r"fn\s+valid_next_seg\s*\(\s*&self\s*,\s*next\s*:\s*&SolutionEdge<", gr):
            raise E("valid_next_seg no longer takes the next SolutionEdge")
        if not re.search(r"!\s*self\.valid_next_seg\(\s*&e\s*\)", fn_body(gr, "try_add_edge")):
            raise E("try_add_edge no longer tests valid_next_seg(&e)")
        # the direction predicates of SolutionEdge, in the form the model implements (GEdge.consDir / isUp / isDown)
        want = {
            "in_construction_direction": "self.dst .ia() .is_some_and(|dst| Some(dst) == self.segment.path_segment().last_ia())",
            "is_up": "self.segment.is_non_core() && !self.in_construction_direction()",
            "is_down": "self.segment.is_non_core() && self.in_construction_direction()",
        }
        for fname, body in want.items():
            got = norm(fn_body(gr, fname)).replace(" .", ".")
            if got != norm(body).replace(" .", "."):
                raise E(f"SolutionEdge::{fname} changed: {got!r}")

        def boolfn(expr, names):
            e = " ".join(expr.split())
            for rust, v in names.items():
                e = e.replace(rust + ".segment.is_non_core()", f"(!{v}C)").replace(rust + ".segment.is_core()", f"{v}C")
                e = e.replace(rust + ".is_up()", f"(!{v}C && !{v}D)").replace(rust + ".is_down()", f"(!{v}C && {v}D)")
            if not re.fullmatch(r"(?:[abn][CD]|[\s()!]|&&|\|\|)+", e):
                raise E(f"valid_next_seg: cannot translate {expr!r} (residue {e!r})")
            return e

        if m1.group(1) != "true" or m4.group(1) != "false":
            raise E("valid_next_seg: empty / >2 arms changed")
        v2 = boolfn(m2.group(1), {"last": "a", "next": "n"})
        v3 = boolfn(m3.group(1), {"first": "a", "second": "b", "next": "n"})
        vals["VALID2"], vals["VALID3"] = v2, v3

        # sort key order in get_paths
        gbody = fn_body(gr, "get_paths")
        keys = [("cost", r"a\.cost\.cmp\(&b\.cost\)"), ("edges", r"a\.edges\.len\(\)\.cmp\(&b\.edges\.len\(\)\)"),
                ("peer", r"edge_a\.edge\.peer\.cmp\(&edge_b\.edge\.peer\)"),
                ("shortcut_desc", r"\.shortcut_idx\s*\.cmp\(&edge_b\.edge\.shortcut_idx\)\s*\.reverse\(\)"),
                ("segid", r"edge_a\.segment\.id\(\)\.cmp\(edge_b\.segment\.id\(\)\)")]
        pos = []
        for name, rx in keys:
            m = re.search(rx, gbody)
            if not m:
                raise E(f"get_paths sort: key {name} not found")
            pos.append((m.start(), name))
        order = [n for _, n in sorted(pos)]
        vals["SORT_KEY"] = order

        cb = api.strip_comments(api.read(COMB))
        m = re.search(r"ia_counts\.values\(\)\.any\(\|v\|\s*\*v\s*>\s*(\d+)\s*\)", fn_body(cb, "has_loops"))
        if not m:
            raise E("has_loops threshold not found")
        vals["LOOP_MAX_IFS"] = int(m.group(1))
        fbody = fn_body(cb, "filter_duplicates")
        if not re.search(r"new_expiration\s*>\s*\*current_expiration", fbody):
            raise E("filter_duplicates: replacement test is no longer `new_expiration > *current_expiration`")
        # the de-duplication key: the interface sequence of the path metadata
        m = re.search(r"unique_paths\.entry\((\w+)\)", fbody)
        if not m:
            raise E("filter_duplicates: key not recognised")
        keyvar = m.group(1)
        if not re.search(r"let\s+" + keyvar + r"\s*:\s*Vec<PathInterface>\s*=\s*path\s*\.metadata\s*\.as_ref\(\)\s*"
                         r"\.and_then\(\|metadata\|\s*metadata\.interfaces\.as_ref\(\)\)\s*"
                         r"\.map\(\|interfaces\|\s*interfaces\.iter\(\)\.map\(\|i\|\s*i\.interface\)\.collect\(\)\)", fbody):
            raise E("filter_duplicates: the key is no longer the interface sequence of the path metadata")
        vals["DEDUP_KEY"] = "interfaces"

        # what the data-plane fingerprint hashes per hop field of a standard path
        fp = api.strip_comments(api.read(FPR))
        m = re.search(r"ScionDpPathViewRef::Standard\(\w+\)\s*=>\s*\{(.*?)\n\s*\}\s*\n", fp, flags=re.S)
        if not m:
            raise E("DpPathFingerprint: Standard arm not found")
        fields = re.findall(r"hf\.(\w+)\(\)\.to_be_bytes\(\)", m.group(1))
        pre = re.findall(r"hasher\.update\((\w+)\.to_be_bytes\(\)\)", m.group(1))
        vals["FPR_PREFIX"] = pre
        vals["FPR_HOP_FIELDS"] = fields
        # PathSegment::id
        sg = api.strip_comments(api.read(SEGMENT))
        ib = fn_body(sg, "id")
        vals["SEGID_FIELDS"] = re.findall(r"hasher\.update\(ase\.([\w.]+)\.to_be_bytes\(\)\)", ib)

        body = "namespace ScionVerif.Generated.Comb\n"
        for k in ("MAX_SEGMENTS", "MAX_SEGMENT_HOPS", "MAX_TOTAL_HOPS", "TOTAL_HOPS_LIMIT", "META_SIZE", "INFO_SIZE", "HOP_SIZE", "SEG0_LEN_BITS",
                  "SEG1_LEN_BITS", "SEG2_LEN_BITS", "PATH_MAX_SIZE", "EXP_UNIT_MS", "MTU_INIT",
                  "AS_MTU_SAT", "LOOP_MAX_IFS"):
            body += f"def {k} : Nat := {vals[k]}\n"
        body += ("/-- `PathSolution::valid_next_seg`, one edge present. `a` = the edge present, `n` = the next edge; "
                 "`xC` = its segment is core, `xD` = it traverses its segment in construction direction "
                 "(`SolutionEdge::in_construction_direction`); `is_up` = `!xC && !xD`, `is_down` = `!xC && xD` -/\n")
        body += f"def valid2 (aC aD nC nD : Bool) : Bool := {v2}\n"
        body += "/-- two edges present: `a`,`b` = first/second edge, `n` = the next edge -/\n"
        body += f"def valid3 (aC aD bC bD nC nD : Bool) : Bool := {v3}\n"

        def strlist(xs):
            return "[" + ", ".join('"' + x + '"' for x in xs) + "]"

        body += "/-- the rejection tests of `StandardPath::wire_valid`, in source order (`encodeOk` implements this list) -/\n"
        body += f"def WIRE_VALID_CHECKS : List String := {strlist(checks)}\n"
        body += f"def SORT_KEY : List String := {strlist(order)}\n"
        body += f"def DEDUP_KEY : String := \"{vals['DEDUP_KEY']}\"\n"
        body += f"def FPR_PREFIX : List String := {strlist(pre)}\n"
        body += f"def FPR_HOP_FIELDS : List String := {strlist(fields)}\n"
        body += f"def SEGID_FIELDS : List String := {strlist(vals['SEGID_FIELDS'])}\n"
        body += "end ScionVerif.Generated.Comb\n"
        return api.write_lean("Comb", body, [LAYOUT, STDMODEL, DPLAYOUT, HDRLAYOUT, TYPES, GRAPH, COMB, FPR, SEGMENT]), vals
