"""Translator domain `Sched` (property C20).

The model `Model/Sched.lean` is hand-written; what ties it to the source on every run is the *order of the
shared-state effects between consecutive yield points* of the code.  For every function of the concurrency
protocol (pathset.rs: `fetch_and_update`, the exit sequence and the `select!` loop of `manage`, `maintain`,
`idle_check`, `PathSetHandle::{active_path, try_active_path, await_ongoing_update, current_error}`,
`PathSetTask::drop`; manager.rs: `path`, `cached_path`, `fast_ensure_managed_paths`, `ensure_managed_paths`,
`stop_managing_paths`) the comment-stripped body is scanned left to right for a fixed vocabulary of tokens:

  yield points   `yield_point(YieldCtx::…("<site>"`  / `note_point(…("<site>"`
  state lock     `.sync.lock()`                                  -> lock
  handshake      `ongoing_start = Some|None`, `.ongoing_start.is_some()|is_none()`, `initialized = true`,
                 `.initialized` (read), `notify_waiters()`, `notified_owned()` / `.notified()` (register),
                 `finish_notification…await` (awaitNotified), `current_error = None|Some`, `current_error.clone()`
  active slot    `active_path.store(None)` (storeNone), `active_path.load()` (load)
  idle flag      `was_used_in_idle_period .store(true|false …)`, `.load(`
  calls          fetch_and_filter_paths, update_path_cache, maybe_update_active_path, fetch_and_update, idle_check,
                 maintain, handle_issue_rx, upgrade(), stop_managing_paths, await_ongoing_update, active_path(),
                 try_active_path(), current_error(), ensure_managed_paths, fast_ensure_managed_paths, peek_with,
                 contains(, entry_sync, insert_entry, insert_sync, remove_sync, manage(), cancel_token.cancel(),
                 `biased;`, `cancel_token.cancelled()`, `tokio::time::sleep(`, `issue_rx.recv()`

and written to `Generated/Sched.lean` as token lists (whole functions) and *regions* (the tokens between one
yield point and the next).  `Theorems/C20.lean` proves over these generated names that every lock region of
the code has exactly the effect on the handshake state that the corresponding model action has, that the
`Notified` is created under the lock before the yield point `h:registered`, that no region takes the state lock
twice, and that `ensure_managed_paths` spawns inside the entry API.  A change that moves an effect into another
region, splits a region, reorders effects or registers after unlocking changes the generated lists and the
theorems stop checking.  An unknown yield-point name or a missing function raises ExtractError.
"""
import re

SITES = {
    "w:start": "yStart", "w:loop": "yLoop", "w:cancelled": "yCancelled", "w:tick": "yTick", "w:issue": "yIssue",
    "w:exit": "yExit", "w:before-exit-notify": "yBeforeExitNotify", "w:done": "yDone",
    "w:before-set-ongoing": "yBeforeSetOngoing", "w:before-set-err": "yBeforeSetErr",
    "w:before-publish": "yBeforePublish", "w:before-clear": "yBeforeClear", "w:after-clear": "yAfterClear",
    "h:before-load": "yBeforeLoad", "h:before-reload": "yBeforeReload", "h:before-lock-check": "yBeforeLockCheck",
    "h:registered": "yRegistered", "c:before-peek": "yBeforePeek", "c:before-ensure": "yBeforeEnsure",
    "c:before-read-err": "yBeforeReadErr", "e:spawn": "ySpawn",
}

# (regex, token) – scanned left to right, first match at a position wins (order matters for overlapping patterns)
PATTERNS = [
    (r"(?:yield_point|note_point)\(\s*(?:[\w:]+::)?YieldCtx::\w+\(\s*\"([^\"]+)\"", None),  # site
    (r"\.sync\s*\.lock\(\)", "lock"),
    (r"ongoing_start\s*=\s*Some\b", "ongoingSome"),
    (r"ongoing_start\s*=\s*None\b", "ongoingNone"),
    (r"\.ongoing_start\s*\.is_(?:some|none)\(\)", "readOngoing"),
    (r"\.initialized\s*=\s*true\b", "initTrue"),
    (r"\.initialized\b(?!\s*=[^=])", "readInit"),
    (r"\.notify_waiters\(\)", "notify"),
    (r"\.notified_owned\(\)|\.notified\(\)", "register"),
    (r"finish_notification(?:\s*\.\s*\w+\(\))*\s*\.await", "awaitNotified"),
    (r"current_error\s*=\s*None\b", "errNone"),
    (r"current_error\s*=\s*Some\b", "errSome"),
    (r"\.current_error\s*\.clone\(\)", "readErrField"),
    (r"active_path\s*\.store\(\s*None\s*\)", "storeNone"),
    (r"active_path\s*\.store\(", "storeActive"),
    (r"active_path\s*\.load\(\)", "load"),
    (r"was_used_in_idle_period\s*\.store\(\s*true\b", "usedTrue"),
    (r"was_used_in_idle_period\s*\.store\(\s*false\b", "usedFalse"),
    (r"was_used_in_idle_period\s*\.load\(", "readUsed"),
    (r"\bfetch_and_filter_paths\(", "fetch"),
    (r"\bupdate_path_cache\(", "cache"),
    (r"\bmaybe_update_active_path\(", "publish"),
    (r"\bfetch_and_update\(", "fetchAndUpdate"),
    (r"\bidle_check\(", "idleCheck"),
    (r"\bself\s*\.maintain\(", "maintain"),
    (r"\bhandle_issue_rx\(", "handleIssue"),
    (r"\.upgrade\(\)", "upgrade"),
    (r"\bstop_managing_paths\(", "remove"),
    (r"\bawait_ongoing_update\(\)", "awaitOngoing"),
    (r"\.try_active_path\(\)", "tryActive"),
    (r"\.active_path\(\)", "activePath"),
    (r"\.current_error\(\)", "readErr"),
    (r"\bfast_ensure_managed_paths\(", "fastEnsure"),
    (r"\bensure_managed_paths\(", "ensure"),
    (r"\.peek_with\(", "peekWith"),
    (r"managed_paths\s*\.contains\(", "containsKey"),
    (r"\.entry_sync\(", "entrySync"),
    (r"\.insert_entry\(", "insertEntry"),
    (r"\.insert_sync\(", "insertSync"),
    (r"\.remove_sync\(", "removeSync"),
    (r"\.manage\(\)", "spawn"),
    (r"cancel_token\s*\.cancel\(\)", "cancel"),
    (r"\bbiased\s*;", "biased"),
    (r"cancel_token\s*\.cancelled\(\)", "armCancelled"),
    (r"tokio::time::sleep\(", "armSleep"),
    (r"issue_rx\s*\.recv\(\)", "armIssue"),
    (r"\bpath_expired_at\(", "expiryCheck"),
]
TOKENS = sorted({t for _, t in PATTERNS if t}) + sorted(SITES.values())


def register(api):
    E = api.ExtractError

    def fn_body(src, header_re, what, start=0):
        m = re.compile(header_re).search(src, start)
        if not m:
            raise E(f"{what}: function header not found")
        i = src.index("{", m.end() - 1)
        depth, j = 0, i
        while j < len(src):
            if src[j] == "{":
                depth += 1
            elif src[j] == "}":
                depth -= 1
                if depth == 0:
                    return src[i + 1:j]
            j += 1
        raise E(f"{what}: unbalanced braces")

    def block_after(src, marker_re, what):
        """the `{…}` block that starts at the first `{` after the marker"""
        return fn_body(src, marker_re, what)

    def scan(body, what):
        comp = [(re.compile(rx), tok) for rx, tok in PATTERNS]
        out, i = [], 0
        while i < len(body):
            best = None
            for rx, tok in comp:
                m = rx.match(body, i)
                if m:
                    best = (m, tok)
                    break
            if best:
                m, tok = best
                if tok is None:
                    site = m.group(1)
                    if site not in SITES:
                        raise E(f"{what}: unknown yield point {site!r}")
                    tok = SITES[site]
                out.append(tok)
                i = m.end()
            else:
                i += 1
        return out

    def region(toks, site, what, nth=0):
        """tokens strictly between the nth occurrence of `site` and the next yield point / `select!` arm (or the end)"""
        idx = [k for k, t in enumerate(toks) if t == site]
        if len(idx) <= nth:
            raise E(f"{what}: yield point {site} (occurrence {nth}) not found")
        out = []
        for t in toks[idx[nth] + 1:]:
            if t in SITES.values() or t.startswith("arm"):
                break
            out.append(t)
        return out

    def lean_list(xs):
        return "[" + ", ".join("." + x for x in xs) + "]"

    @api.domain
    def gen_Sched():
        rel_ps = "crates/scion-stack/src/path/manager/pathset.rs"
        rel_mg = "crates/scion-stack/src/path/manager.rs"
        ps = api.strip_comments(api.read(rel_ps))
        mg = api.strip_comments(api.read(rel_mg))
        # tests at the end of the files must not be scanned
        ps = ps.split("#[cfg(test)]")[0]
        mg = mg.split("#[cfg(test)]")[0]
        fns = {}
        # ---- pathset.rs ----
        fu = fn_body(ps, r"async\s+fn\s+fetch_and_update\s*\(", "fetch_and_update")
        m = re.search(r"match\s+result\s*\{", fu)
        if not m:
            raise E("fetch_and_update: `match result {` not found")
        pre = fu[:m.start()]
        arms = fn_body(fu, r"match\s+result\s*\{", "fetch_and_update match")
        post = fu[fu.index(arms) + len(arms):]
        ok_arm = fn_body(arms, r"Ok\(\s*fetched_paths\s*\)\s*=>\s*\{", "fetch_and_update Ok arm")
        err_arm = fn_body(arms, r"Err\(\s*e\s*\)\s*=>\s*\{", "fetch_and_update Err arm")
        fns["fuPre"] = scan(pre, "fetch_and_update")
        fns["fuOk"] = scan(ok_arm, "fetch_and_update Ok arm")
        fns["fuErr"] = scan(err_arm, "fetch_and_update Err arm")
        fns["fuPost"] = scan(post, "fetch_and_update")
        mb = fn_body(ps, r"pub\s+fn\s+manage\s*\(\s*mut\s+self\s*\)", "PathSet::manage")
        k = mb.find("let exit_reason = maintain.await")
        if k < 0:
            raise E("manage: `let exit_reason = maintain.await` not found")
        fns["manageLoop"] = scan(mb[:k], "manage (start + loop)")
        # the exit sequence ends with the async block; what follows only wraps the task
        k2 = mb.find("PathSetHandle {", k)
        if k2 < 0:
            raise E("manage: construction of the returned handle not found")
        fns["manageExit"] = scan(mb[k:k2], "manage (exit sequence)")
        fns["manageSpawn"] = scan(mb[k2:], "manage (spawn)")
        fns["maintain"] = scan(fn_body(ps, r"pub\s+async\s+fn\s+maintain\s*\(", "maintain"), "maintain")
        fns["idleCheck"] = scan(fn_body(ps, r"fn\s+idle_check\s*\(", "idle_check"), "idle_check")
        hi = ps.find("impl PathSetHandle")
        if hi < 0:
            raise E("impl PathSetHandle not found")
        fns["tryActivePath"] = scan(fn_body(ps, r"pub\s+fn\s+try_active_path\s*\(", "try_active_path", hi), "try_active_path")
        fns["activePath"] = scan(fn_body(ps, r"pub\s+async\s+fn\s+active_path\s*\(", "active_path", hi), "active_path")
        fns["awaitOngoingUpdate"] = scan(fn_body(ps, r"pub\s+async\s+fn\s+await_ongoing_update\s*\(", "await_ongoing_update", hi), "await_ongoing_update")
        fns["currentError"] = scan(fn_body(ps, r"pub\s+fn\s+current_error\s*\(", "current_error", hi), "current_error")
        di = ps.find("impl Drop for PathSetTask")
        if di < 0:
            raise E("impl Drop for PathSetTask not found")
        fns["taskDrop"] = scan(fn_body(ps, r"fn\s+drop\s*\(", "PathSetTask::drop", di), "PathSetTask::drop")
        # ---- manager.rs ----
        fns["path"] = scan(fn_body(mg, r"pub\s+async\s+fn\s+path\s*\(", "MultiPathManager::path"), "path")
        fns["cachedPath"] = scan(fn_body(mg, r"pub\s+fn\s+cached_path\s*\(", "cached_path"), "cached_path")
        fns["fastEnsureFn"] = scan(fn_body(mg, r"fn\s+fast_ensure_managed_paths\s*\(", "fast_ensure_managed_paths"), "fast_ensure_managed_paths")
        fns["ensureFn"] = scan(fn_body(mg, r"fn\s+ensure_managed_paths\s*\(", "ensure_managed_paths"), "ensure_managed_paths")
        fns["stopFn"] = scan(fn_body(mg, r"pub\s+fn\s+stop_managing_paths\s*\(", "stop_managing_paths"), "stop_managing_paths")

        # ---- regions between yield points ----
        regs = {}
        regs["startRegion"] = region(fns["manageLoop"], "yStart", "manage")
        regs["setOngoingRegion"] = region(fns["fuPre"], "yBeforeSetOngoing", "fetch_and_update")
        regs["cacheOkRegion"] = fns["fuOk"][:fns["fuOk"].index("yBeforeSetErr")] if "yBeforeSetErr" in fns["fuOk"] else None
        regs["cacheErrRegion"] = fns["fuErr"][:fns["fuErr"].index("yBeforeSetErr")] if "yBeforeSetErr" in fns["fuErr"] else None
        if regs["cacheOkRegion"] is None or regs["cacheErrRegion"] is None:
            raise E("fetch_and_update: yield point w:before-set-err missing in a match arm")
        regs["setErrOkRegion"] = region(fns["fuOk"], "yBeforeSetErr", "fetch_and_update Ok arm")
        regs["setErrErrRegion"] = region(fns["fuErr"], "yBeforeSetErr", "fetch_and_update Err arm")
        regs["publishRegion"] = region(fns["fuPost"], "yBeforePublish", "fetch_and_update")
        regs["clearRegion"] = region(fns["fuPost"], "yBeforeClear", "fetch_and_update")
        regs["afterClearRegion"] = region(fns["fuPost"], "yAfterClear", "fetch_and_update")
        regs["cancelledRegion"] = region(fns["manageLoop"], "yCancelled", "manage")
        regs["tickRegion"] = region(fns["manageLoop"], "yTick", "manage")
        regs["issueRegion"] = region(fns["manageLoop"], "yIssue", "manage")
        regs["exitRemoveRegion"] = region(fns["manageExit"], "yExit", "manage exit")
        regs["exitNotifyRegion"] = region(fns["manageExit"], "yBeforeExitNotify", "manage exit")
        regs["loadRegion"] = region(fns["activePath"], "yBeforeLoad", "active_path")
        regs["reloadRegion"] = region(fns["activePath"], "yBeforeReload", "active_path")
        regs["lockCheckRegion"] = region(fns["awaitOngoingUpdate"], "yBeforeLockCheck", "await_ongoing_update")
        regs["registeredRegion"] = region(fns["awaitOngoingUpdate"], "yRegistered", "await_ongoing_update")
        regs["peekRegion"] = region(fns["path"], "yBeforePeek", "path")
        regs["ensureRegion"] = region(fns["path"], "yBeforeEnsure", "path")
        regs["readErrRegion"] = region(fns["path"], "yBeforeReadErr", "path")
        # effects before the first yield point of a function would belong to no region
        first = {"fuPre": "yBeforeSetOngoing", "activePath": "yBeforeLoad", "awaitOngoingUpdate": "yBeforeLockCheck",
                 "path": "yBeforePeek", "manageExit": "yExit"}
        regs["beforeFirstSite"] = []
        for f, site in first.items():
            if site not in fns[f]:
                raise E(f"{f}: yield point {site} not found")
            regs["beforeFirstSite"] += fns[f][:fns[f].index(site)]

        body = "namespace ScionVerif.Generated.Sched\n"
        body += "/-- vocabulary of the scan (fixed by translator/domains_sched.py); `y…` = yield points -/\n"
        body += "inductive Tok\n"
        for t in TOKENS:
            body += f"  | {t}\n"
        body += "  deriving DecidableEq, Repr, Inhabited\n\n"
        body += "/-! token sequence of each function body, in source order -/\n"
        for k, v in fns.items():
            body += f"def {k} : List Tok := {lean_list(v)}\n"
        body += "\n/-! regions: the tokens between one yield point and the next -/\n"
        for k, v in regs.items():
            body += f"def {k} : List Tok := {lean_list(v)}\n"
        body += "\n/-- every region that lies between two yield points of the protocol -/\n"
        body += "def allRegions : List (List Tok) := [" + ", ".join(k for k in regs if k != "beforeFirstSite") + "]\n"
        body += "end ScionVerif.Generated.Sched\n"
        vals = {k: " ".join(v) for k, v in {**fns, **regs}.items()}
        return api.write_lean("Sched", body, [rel_ps, rel_mg]), vals
