"""Translator domains `Layout` and `AddrType` (C02, C03, reused by C08 C11 C12 C14).

Layout  : every `gen_bitrange_const!(NAME, start, width)` and every `const NAME: usize = …` of the
          inherent impls in sciparse/src/proto/**/layout.rs (+ SCMP_ERROR_MAX_PACKET_SIZE), the
          SCMP message-kind table (type code, fixed header size, variable-length?, field ranges).
AddrType: `impl From<u8> for WireHostAddrType` (nibble -> kind/id/size), `WireHostAddrType::size`,
          `impl From<WireHostAddrType> for u8`, `PathType` / `ProtocolNumber` / `ScmpMessageType`
          `From<u8>` tables.
"""
import re

SP = "crates/libs/sciparse/src/"
LAYOUT_FILES = [
    SP + "proto/dataplane_path/standard/layout.rs",
    SP + "proto/dataplane_path/onehop/layout.rs",
    SP + "proto/header/layout.rs",
    SP + "proto/dataplane_path/layout.rs",
    SP + "proto/payload/udp/layout.rs",
    SP + "proto/payload/scmp/layout.rs",
]


def _cut_tests(src):
    i = src.find("#[cfg(test)]")
    return src if i < 0 else src[:i]


def _split_args(s):
    out, depth, cur = [], 0, ""
    for ch in s:
        if ch in "([":
            depth += 1
        elif ch in ")]":
            depth -= 1
        if ch == "," and depth == 0:
            out.append(cur.strip()); cur = ""
        else:
            cur += ch
    if cur.strip():
        out.append(cur.strip())
    return out


def register(api):
    E = api.ExtractError

    def evaluate(expr, cur, ranges, consts, what):
        e = " ".join(expr.split())
        e = re.sub(r"\bas\s+usize\b", "", e)

        def rng(m):
            t, n, f = m.group(1), m.group(2), m.group(3)
            t = cur if t == "Self" else t
            if (t, n) not in ranges:
                raise E(f"{what}: unknown range {t}::{n}")
            return str(ranges[(t, n)][0 if f == "start" else 1])

        e = re.sub(r"\b(\w+)::(\w+)\.(start|end)\b", rng, e)

        def cst(m):
            t, n = m.group(1), m.group(2)
            t = cur if t == "Self" else t
            if (t, n) not in consts:
                raise E(f"{what}: unknown const {t}::{n}")
            return str(consts[(t, n)])

        e = re.sub(r"\b(\w+)::([A-Z_][A-Z0-9_]*)\b", cst, e)
        e = re.sub(r"(\d)_(?=\d)", r"\1", e)
        e = e.replace("/", "//")
        if not re.fullmatch(r"[0-9\s+\-*/()]+", e):
            raise E(f"{what}: cannot evaluate {expr!r} (residue {e!r})")
        try:
            return int(eval(e, {"__builtins__": {}}, {}))
        except Exception as ex:
            raise E(f"{what}: cannot evaluate {expr!r}: {ex}")

    def scan_layouts():
        ranges, consts, order, variable = {}, {}, [], {}
        glob = {}
        for rel in LAYOUT_FILES:
            src = _cut_tests(api.strip_comments(api.read(rel)))
            m = re.search(r"pub const SCMP_ERROR_MAX_PACKET_SIZE\s*:\s*usize\s*=\s*(\d+)\s*;", src)
            if m:
                glob["SCMP_ERROR_MAX_PACKET_SIZE"] = int(m.group(1))
            impls = [(mm.start(), mm.group(1)) for mm in re.finditer(r"^impl\s+(\w+)\s*\{", src, flags=re.M)]
            items = []
            for mm in re.finditer(r"gen_bitrange_const!\s*\(", src):
                # find matching paren
                i, depth = mm.end(), 1
                while depth and i < len(src):
                    depth += src[i] == "("; depth -= src[i] == ")"; i += 1
                args = _split_args(src[mm.end():i - 1])
                if len(args) != 3:
                    raise E(f"{rel}: gen_bitrange_const! with {len(args)} args")
                items.append((mm.start(), "rng", args))
            for mm in re.finditer(r"^\s*(?:pub(?:\([a-z]+\))?\s+)?const\s+([A-Z_][A-Z0-9_]*)\s*:\s*usize\s*=\s*([^;]+);", src, flags=re.M):
                items.append((mm.start(), "const", [mm.group(1), mm.group(2)]))
            items.sort()
            for pos, kind, args in items:
                owner = None
                for ip, name in impls:
                    if ip < pos:
                        owner = name
                if owner is None:
                    if kind == "const":
                        continue  # module-level const handled above
                    raise E(f"{rel}: bit range {args[0]} outside an impl block")
                if owner not in order:
                    order.append(owner)
                if kind == "rng":
                    s = evaluate(args[1], owner, ranges, consts, f"{owner}::{args[0]}")
                    w = evaluate(args[2], owner, ranges, consts, f"{owner}::{args[0]}")
                    ranges[(owner, args[0])] = (s, s + w)
                else:
                    consts[(owner, args[0])] = evaluate(args[1], owner, ranges, consts, f"{owner}::{args[0]}")
            # variable-length SCMP layouts: try_from_slice stores buf.len()
            for mm in re.finditer(r"impl\s+(Scmp\w+Layout)\s*\{\s*#\[inline\]\s*pub fn try_from_slice\(buf: &\[u8\]\)[^{]*\{(.*?)\n    \}\n\}", src, flags=re.S):
                body = mm.group(2)
                if "payload_length: buf.len()" in body:
                    variable[mm.group(1)] = True
                elif re.search(r"Ok\(Self\s*\{\s*\}\)", body):
                    variable[mm.group(1)] = False
                else:
                    raise E(f"{mm.group(1)}::try_from_slice: unrecognised size rule")
                if "buf.len() < Self::HEADER_SIZE_BYTES" not in body:
                    raise E(f"{mm.group(1)}::try_from_slice: size check not found")
        return ranges, consts, order, variable, glob

    def lean_name(owner):
        return owner[:-6] if owner.endswith("Layout") else owner

    def scmp_types():
        rel = SP + "proto/payload/scmp/types.rs"
        src = api.strip_comments(api.read(rel))
        m = re.search(r"impl From<u8> for ScmpMessageType\s*\{.*?match value\s*\{(.*?)\n\s*\}\s*\n\s*\}", src, flags=re.S)
        if not m:
            raise E("impl From<u8> for ScmpMessageType not found")
        out = {}
        for a in re.finditer(r"(\d+)\s*=>\s*ScmpMessageType::(\w+)\s*,", m.group(1)):
            out[a.group(2)] = int(a.group(1))
        if not re.search(r"other\s*=>\s*ScmpMessageType::Unknown\(other\)", m.group(1)):
            raise E("ScmpMessageType: catch-all arm not found")
        return out, rel

    @api.domain
    def gen_Layout():
        ranges, consts, order, variable, glob = scan_layouts()
        need = ["CommonHeaderLayout", "AddressHeaderLayout", "StdPathMetaLayout", "InfoFieldLayout",
                "HopFieldLayout", "OneHopPathLayout", "UdpDatagramLayout", "ScionHeaderLayout",
                "ScionHeaderPathLayout", "ScmpMessageLayout"]
        for n in need:
            if n not in order:
                raise E(f"layout {n} not found")
        if "SCMP_ERROR_MAX_PACKET_SIZE" not in glob:
            raise E("SCMP_ERROR_MAX_PACKET_SIZE not found")
        types, trel = scmp_types()
        body = "import ScionVerif.Model.Bits\nnamespace ScionVerif.Generated.Layout\nopen ScionVerif\n"
        vals = {}
        for owner in order:
            ln = lean_name(owner)
            body += f"\nnamespace {ln}\n"
            for (o, n), (s, e) in ranges.items():
                if o == owner:
                    body += f"def {n} : BitRange := ⟨{s}, {e}⟩\n"
                    vals[f"{ln}.{n}"] = [s, e]
            for (o, n), v in consts.items():
                if o == owner:
                    body += f"def {n} : Nat := {v}\n"
                    vals[f"{ln}.{n}"] = v
            body += f"end {ln}\n"
        body += f"\ndef SCMP_ERROR_MAX_PACKET_SIZE : Nat := {glob['SCMP_ERROR_MAX_PACKET_SIZE']}\n"
        vals["SCMP_ERROR_MAX_PACKET_SIZE"] = glob["SCMP_ERROR_MAX_PACKET_SIZE"]
        # SCMP kind table
        body += ("\n/-- one SCMP message kind: name, type code (`none` = catch-all Unknown), fixed header size,\n"
                 "    `varLen` = the view extends to the end of the buffer, named header fields -/\n"
                 "structure ScmpKindRow where\n  name : String\n  code : Option Nat\n  headerSize : Nat\n"
                 "  varLen : Bool\n  fields : List (String × BitRange)\nderiving DecidableEq, Repr\n\n")
        rows = []
        kinds = [o for o in order if o.startswith("Scmp") and o != "ScmpMessageLayout"]
        for o in kinds:
            name = o[4:-6]
            key = "Unknown" if name == "UnknownMessage" else name
            if (o, "HEADER_SIZE_BYTES") not in consts:
                raise E(f"{o}::HEADER_SIZE_BYTES not found")
            if o not in variable:
                raise E(f"{o}::try_from_slice not found")
            if key != "Unknown" and key not in types:
                raise E(f"ScmpMessageType::{key} has no type code")
            code = "none" if key == "Unknown" else f"some {types[key]}"
            fl = ", ".join(f"(\"{n}\", ⟨{s}, {e}⟩)" for (oo, n), (s, e) in ranges.items() if oo == o)
            rows.append(f"  ⟨\"{key}\", {code}, {consts[(o, 'HEADER_SIZE_BYTES')]}, {'true' if variable[o] else 'false'}, [{fl}]⟩")
            vals[f"scmp.{key}"] = {"code": types.get(key), "header": consts[(o, "HEADER_SIZE_BYTES")], "variable": variable[o]}
        for k in types:
            if not any(("Scmp" + ("UnknownMessage" if k == "Unknown" else k) + "Layout") == o for o in kinds):
                raise E(f"ScmpMessageType::{k} has no layout")
        body += "def scmpKinds : List ScmpKindRow := [\n" + ",\n".join(rows) + "\n]\n"
        body += "end ScionVerif.Generated.Layout\n"
        return api.write_lean("Layout", body, LAYOUT_FILES + [trel]), vals

    @api.domain
    def gen_AddrType():
        rel = SP + "scion/address/host_addr.rs"
        src = api.strip_comments(api.read(rel))
        # nibble -> type
        m = re.search(r"impl From<u8> for WireHostAddrType\s*\{.*?match value\s*\{(.*?)\n\s{8}\}", src, flags=re.S)
        if not m:
            raise E("impl From<u8> for WireHostAddrType not found")
        arms = {}
        for a in re.finditer(r"(0b[01]+|\d+)\s*=>\s*WireHostAddrType::(\w+)\s*,", m.group(1)):
            arms[int(a.group(1), 0)] = a.group(2)
        rest = m.group(1)
        if not (re.search(r"let id = other >> 2;", rest) and re.search(r"let size = \(\(other & 0b11\) \+ 1\) \* 4;", rest)
                and re.search(r"WireHostAddrType::Unknown\s*\{\s*id,\s*size\s*\}", rest)):
            raise E("WireHostAddrType::from(u8): unknown-type formula changed")
        m2 = re.search(r"pub const fn size\(&self\) -> u8\s*\{\s*match self\s*\{(.*?)\}\s*\}", src, flags=re.S)
        if not m2:
            raise E("WireHostAddrType::size not found")
        sizes = {}
        for a in re.finditer(r"WireHostAddrType::(\w+)\s*=>\s*(\d+)\s*,", m2.group(1)):
            sizes[a.group(1)] = int(a.group(2))
        if not re.search(r"WireHostAddrType::Unknown\s*\{\s*size,\s*\.\.\s*\}\s*=>\s*\*size", m2.group(1)):
            raise E("WireHostAddrType::size: Unknown arm changed")
        m3 = re.search(r"impl From<WireHostAddrType> for u8\s*\{.*?match val\s*\{(.*?)\n\s{8}\}", src, flags=re.S)
        if not m3:
            raise E("impl From<WireHostAddrType> for u8 not found")
        back = {}
        for a in re.finditer(r"WireHostAddrType::(\w+)\s*=>\s*(0b[01]+|\d+)\s*,", m3.group(1)):
            back[a.group(1)] = int(a.group(2), 0)
        if not re.search(r"\(type_id << 2\) \| \(size / 4\)\.saturating_sub\(1\)", m3.group(1)):
            raise E("u8::from(WireHostAddrType): unknown-type formula changed")
        kinds = {"IPV4": 0, "IPV6": 1, "Service": 2}
        for k in kinds:
            if k not in sizes or k not in back or k not in arms.values():
                raise E(f"WireHostAddrType::{k} missing in a table")
        rows = []
        for nib in range(16):
            if nib in arms:
                k = arms[nib]
                rows.append((kinds[k], 0, sizes[k]))
            else:
                rows.append((3, nib >> 2, ((nib & 3) + 1) * 4))
        body = "namespace ScionVerif.Generated.AddrType\n"
        body += "/-- nibble (index 0..15) -> (kind, id, size in bytes); kind 0 = IPv4, 1 = IPv6, 2 = Service, 3 = Unknown{id,size} -/\n"
        body += "def addrTable : List (Nat × Nat × Nat) := [" + ", ".join(f"({a}, {b}, {c})" for a, b, c in rows) + "]\n"
        for k, v in kinds.items():
            body += f"def NIBBLE_{k.upper()} : Nat := {back[k]}\n"
        vals = {"addrTable": rows, "nibbles": back}
        # path types
        prel = SP + "proto/dataplane_path/types.rs"
        psrc = api.strip_comments(api.read(prel))
        m = re.search(r"impl From<u8> for PathType\s*\{.*?match value\s*\{(.*?)\n\s{8}\}", psrc, flags=re.S)
        if not m:
            raise E("impl From<u8> for PathType not found")
        pt = {a.group(2): int(a.group(1)) for a in re.finditer(r"(\d+)\s*=>\s*PathType::(\w+)\s*,", m.group(1))}
        for k in ["Empty", "Scion", "OneHop", "Epic", "Colibri"]:
            if k not in pt:
                raise E(f"PathType::{k} not found")
            body += f"def PATH_{k.upper()} : Nat := {pt[k]}\n"
        if not re.search(r"other\s*=>\s*PathType::Other\(other\)", m.group(1)):
            raise E("PathType: catch-all arm not found")
        vals["pathTypes"] = pt
        # protocol numbers
        qrel = SP + "proto/payload.rs"
        qsrc = api.strip_comments(api.read(qrel))
        m = re.search(r"impl From<u8> for ProtocolNumber\s*\{.*?match value\s*\{(.*?)\n\s{8}\}", qsrc, flags=re.S)
        if not m:
            raise E("impl From<u8> for ProtocolNumber not found")
        pn = {a.group(2): int(a.group(1)) for a in re.finditer(r"(\d+)\s*=>\s*ProtocolNumber::(\w+)\s*,", m.group(1))}
        for k in ["Udp", "Scmp"]:
            if k not in pn:
                raise E(f"ProtocolNumber::{k} not found")
            body += f"def PROTO_{k.upper()} : Nat := {pn[k]}\n"
        vals["protocols"] = pn
        body += "end ScionVerif.Generated.AddrType\n"
        return api.write_lean("AddrType", body, [rel, prel, qrel]), vals
