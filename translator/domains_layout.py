"""Translator domains `Layout` and `AddrType` (C02, C03, reused by C08 C11 C12 C14).

Layout  : every `gen_bitrange_const!(NAME, start, width)` and every `const NAME: usize = …` of the
          inherent impls in sciparse/src/proto/**/layout.rs (+ SCMP_ERROR_MAX_PACKET_SIZE), the
          SCMP message-kind table (type code, fixed header size, variable-length?, field ranges).
Setters : every setter of every view type (`gen_field_write!` / `gen_field_read_and_write!` = safe,
          `gen_unsafe_field_write!` = unsafe, hand-written `pub [unsafe] fn set_*(&mut self, ..)` writing one
          layout range) with its resolved bit range, and every other `pub [unsafe] fn ..(&mut self ..)` of the
          view types (mutable sub-view / slice accessors, in-place transformations).  The Lean theorems
          `Access.generated_*` are decided over these tables, so a setter that changes between safe and
          unsafe, or a new `&mut self` function, re-checks (and may break) the proofs.
AddrType: `impl From<u8> for WireHostAddrType` (nibble -> kind/id/size), `WireHostAddrType::size`,
          `impl From<WireHostAddrType> for u8`, `PathType` / `ProtocolNumber` / `ScmpMessageType`
          `From<u8>` tables.
"""
import re

SP = "crates/libs/sciparse/src/"
LAYOUT_FILES = [
    SP + "proto/dataplane_path/standard/layout.rs",
    SP + "proto/dataplane_path/onehop/layout.rs",
    SP + "proto/header/layout.rs",
    SP + "proto/dataplane_path/layout.rs",
    SP + "proto/payload/udp/layout.rs",
    SP + "proto/payload/scmp/layout.rs",
]


def _cut_tests(src):
    i = src.find("#[cfg(test)]")
    return src if i < 0 else src[:i]


def _split_args(s):
    out, depth, cur = [], 0, ""
    for ch in s:
        if ch in "([":
            depth += 1
        elif ch in ")]":
            depth -= 1
        if ch == "," and depth == 0:
            out.append(cur.strip()); cur = ""
        else:
            cur += ch
    if cur.strip():
        out.append(cur.strip())
    return out


def register(api):
    E = api.ExtractError

    def evaluate(expr, cur, ranges, consts, what):
        e = " ".join(expr.split())
        e = re.sub(r"\bas\s+usize\b", "", e)

        def rng(m):
            t, n, f = m.group(1), m.group(2), m.group(3)
            t = cur if t == "Self" else t
            if (t, n) not in ranges:
                raise E(f"{what}: unknown range {t}::{n}")
            return str(ranges[(t, n)][0 if f == "start" else 1])

        e = re.sub(r"\b(\w+)::(\w+)\.(start|end)\b", rng, e)

        def cst(m):
            t, n = m.group(1), m.group(2)
            t = cur if t == "Self" else t
            if (t, n) not in consts:
                raise E(f"{what}: unknown const {t}::{n}")
            return str(consts[(t, n)])

        e = re.sub(r"\b(\w+)::([A-Z_][A-Z0-9_]*)\b", cst, e)
        e = re.sub(r"(\d)_(?=\d)", r"\1", e)
        e = e.replace("/", "//")
        if not re.fullmatch(r"[0-9\s+\-*/()]+", e):
            raise E(f"{what}: cannot evaluate {expr!r} (residue {e!r})")
        try:
            return int(eval(e, {"__builtins__": {}}, {}))
        except Exception as ex:
            raise E(f"{what}: cannot evaluate {expr!r}: {ex}")

    def scan_layouts():
        ranges, consts, order, variable = {}, {}, [], {}
        glob = {}
        for rel in LAYOUT_FILES:
            src = _cut_tests(api.strip_comments(api.read(rel)))
            m = re.search(r"pub const SCMP_ERROR_MAX_PACKET_SIZE\s*:\s*usize\s*=\s*(\d+)\s*;", src)
            if m:
                glob["SCMP_ERROR_MAX_PACKET_SIZE"] = int(m.group(1))
            impls = [(mm.start(), mm.group(1)) for mm in re.finditer(r"^impl\s+(\w+)\s*\{", src, flags=re.M)]
            items = []
            for mm in re.finditer(r"gen_bitrange_const!\s*\(", src):
                # find matching paren
                i, depth = mm.end(), 1
                while depth and i < len(src):
                    depth += src[i] == "("; depth -= src[i] == ")"; i += 1
                args = _split_args(src[mm.end():i - 1])
                if len(args) != 3:
                    raise E(f"{rel}: gen_bitrange_const! with {len(args)} args")
                items.append((mm.start(), "rng", args))
            for mm in re.finditer(r"^\s*(?:pub(?:\([a-z]+\))?\s+)?const\s+([A-Z_][A-Z0-9_]*)\s*:\s*usize\s*=\s*([^;]+);", src, flags=re.M):
                items.append((mm.start(), "const", [mm.group(1), mm.group(2)]))
            items.sort()
            for pos, kind, args in items:
                owner = None
                for ip, name in impls:
                    if ip < pos:
                        owner = name
                if owner is None:
                    if kind == "const":
                        continue  # module-level const handled above
                    raise E(f"{rel}: bit range {args[0]} outside an impl block")
                if owner not in order:
                    order.append(owner)
                if kind == "rng":
                    s = evaluate(args[1], owner, ranges, consts, f"{owner}::{args[0]}")
                    w = evaluate(args[2], owner, ranges, consts, f"{owner}::{args[0]}")
                    ranges[(owner, args[0])] = (s, s + w)
                else:
                    consts[(owner, args[0])] = evaluate(args[1], owner, ranges, consts, f"{owner}::{args[0]}")
            # variable-length SCMP layouts: try_from_slice stores buf.len()
            for mm in re.finditer(r"impl\s+(Scmp\w+Layout)\s*\{\s*#\[inline\]\s*pub fn try_from_slice\(buf: &\[u8\]\)[^{]*\{(.*?)\n    \}\n\}", src, flags=re.S):
                body = mm.group(2)
                if "payload_length: buf.len()" in body:
                    variable[mm.group(1)] = True
                elif re.search(r"Ok\(Self\s*\{\s*\}\)", body):
                    variable[mm.group(1)] = False
                else:
                    raise E(f"{mm.group(1)}::try_from_slice: unrecognised size rule")
                if "buf.len() < Self::HEADER_SIZE_BYTES" not in body:
                    raise E(f"{mm.group(1)}::try_from_slice: size check not found")
        return ranges, consts, order, variable, glob

    def lean_name(owner):
        return owner[:-6] if owner.endswith("Layout") else owner

    def scmp_types():
        rel = SP + "proto/payload/scmp/types.rs"
        src = api.strip_comments(api.read(rel))
        m = re.search(r"impl From<u8> for ScmpMessageType\s*\{.*?match value\s*\{(.*?)\n\s*\}\s*\n\s*\}", src, flags=re.S)
        if not m:
            raise E("impl From<u8> for ScmpMessageType not found")
        out = {}
        for a in re.finditer(r"(\d+)\s*=>\s*ScmpMessageType::(\w+)\s*,", m.group(1)):
            out[a.group(2)] = int(a.group(1))
        if not re.search(r"other\s*=>\s*ScmpMessageType::Unknown\(other\)", m.group(1)):
            raise E("ScmpMessageType: catch-all arm not found")
        return out, rel

    @api.domain
    def gen_Layout():
        ranges, consts, order, variable, glob = scan_layouts()
        need = ["CommonHeaderLayout", "AddressHeaderLayout", "StdPathMetaLayout", "InfoFieldLayout",
                "HopFieldLayout", "OneHopPathLayout", "UdpDatagramLayout", "ScionHeaderLayout",
                "ScionHeaderPathLayout", "ScmpMessageLayout"]
        for n in need:
            if n not in order:
                raise E(f"layout {n} not found")
        if "SCMP_ERROR_MAX_PACKET_SIZE" not in glob:
            raise E("SCMP_ERROR_MAX_PACKET_SIZE not found")
        types, trel = scmp_types()
        body = "import ScionVerif.Model.Bits\nnamespace ScionVerif.Generated.Layout\nopen ScionVerif\n"
        vals = {}
        for owner in order:
            ln = lean_name(owner)
            body += f"\nnamespace {ln}\n"
            for (o, n), (s, e) in ranges.items():
                if o == owner:
                    body += f"def {n} : BitRange := ⟨{s}, {e}⟩\n"
                    vals[f"{ln}.{n}"] = [s, e]
            for (o, n), v in consts.items():
                if o == owner:
                    body += f"def {n} : Nat := {v}\n"
                    vals[f"{ln}.{n}"] = v
            body += f"end {ln}\n"
        body += f"\ndef SCMP_ERROR_MAX_PACKET_SIZE : Nat := {glob['SCMP_ERROR_MAX_PACKET_SIZE']}\n"
        vals["SCMP_ERROR_MAX_PACKET_SIZE"] = glob["SCMP_ERROR_MAX_PACKET_SIZE"]
        # SCMP kind table
        body += ("\n/-- one SCMP message kind: name, type code (`none` = catch-all Unknown), fixed header size,\n"
                 "    `varLen` = the view extends to the end of the buffer, named header fields -/\n"
                 "structure ScmpKindRow where\n  name : String\n  code : Option Nat\n  headerSize : Nat\n"
                 "  varLen : Bool\n  fields : List (String × BitRange)\nderiving DecidableEq, Repr\n\n")
        rows = []
        kinds = [o for o in order if o.startswith("Scmp") and o != "ScmpMessageLayout"]
        for o in kinds:
            name = o[4:-6]
            key = "Unknown" if name == "UnknownMessage" else name
            if (o, "HEADER_SIZE_BYTES") not in consts:
                raise E(f"{o}::HEADER_SIZE_BYTES not found")
            if o not in variable:
                raise E(f"{o}::try_from_slice not found")
            if key != "Unknown" and key not in types:
                raise E(f"ScmpMessageType::{key} has no type code")
            code = "none" if key == "Unknown" else f"some {types[key]}"
            fl = ", ".join(f"(\"{n}\", ⟨{s}, {e}⟩)" for (oo, n), (s, e) in ranges.items() if oo == o)
            rows.append(f"  ⟨\"{key}\", {code}, {consts[(o, 'HEADER_SIZE_BYTES')]}, {'true' if variable[o] else 'false'}, [{fl}]⟩")
            vals[f"scmp.{key}"] = {"code": types.get(key), "header": consts[(o, "HEADER_SIZE_BYTES")], "variable": variable[o]}
        for k in types:
            if not any(("Scmp" + ("UnknownMessage" if k == "Unknown" else k) + "Layout") == o for o in kinds):
                raise E(f"ScmpMessageType::{k} has no layout")
        body += "def scmpKinds : List ScmpKindRow := [\n" + ",\n".join(rows) + "\n]\n"
        body += "end ScionVerif.Generated.Layout\n"
        return api.write_lean("Layout", body, LAYOUT_FILES + [trel]), vals


    VIEW_FILES = [
        SP + "proto/header/view.rs",
        SP + "proto/dataplane_path/standard/view.rs",
        SP + "proto/dataplane_path/standard/routing.rs",
        SP + "proto/dataplane_path/onehop/view.rs",
        SP + "proto/packet/view.rs",
        SP + "proto/payload/udp/view.rs",
        SP + "proto/payload/scmp/view.rs",
    ]

    def _match_brace(src, i):
        """index just after the brace block that opens at src[i] == '{'"""
        depth = 0
        while i < len(src):
            c = src[i]
            if c == "{":
                depth += 1
            elif c == "}":
                depth -= 1
                if depth == 0:
                    return i + 1
            i += 1
        raise E("unbalanced braces in a view file")

    def scan_views(ranges, consts):
        """-> (setters, mutfns): setters = [(view, fn, safe, range-expression, (start, stop))],
        mutfns = [(view, fn, safe)] for every other inherent `pub [unsafe] fn f(&mut self ..)`."""
        setters, mutfns = [], []

        def resolve(owner, rname, sh, what):
            if (owner, rname) not in ranges:
                raise E(f"{what}: unknown range {owner}::{rname}")
            s, e = ranges[(owner, rname)]
            expr = f"{owner}::{rname}"
            if sh:
                so, sn = sh
                if (so, sn) not in consts:
                    raise E(f"{what}: unknown shift constant {so}::{sn}")
                k = consts[(so, sn)]
                s, e = s + 8 * k, e + 8 * k
                expr += f".shift({so}::{sn})"
            return expr, (s, e)

        for rel in VIEW_FILES:
            src = _cut_tests(api.strip_comments(api.read(rel)))
            aliases = {m.group(1): m.group(2) for m in re.finditer(r"pub type (\w+)\s*=\s*(\w+)<(\w+)>\s*;", src)}
            for im in re.finditer(r"^impl(?:<[^>]*>)?\s+(\w+)(?:<[^>]*>)?\s*\{", src, flags=re.M):
                view = im.group(1)
                body = src[im.end() - 1:_match_brace(src, im.end() - 1)]
                # macro-generated setters
                for mm in re.finditer(r"\b(gen_field_write|gen_unsafe_field_write|gen_field_read_and_write)!\s*\(", body):
                    i, depth = mm.end(), 1
                    while depth and i < len(body):
                        depth += body[i] == "("; depth -= body[i] == ")"; i += 1
                    args = _split_args(body[mm.end():i - 1])
                    kind = mm.group(1)
                    want = 4 if kind == "gen_field_read_and_write" else 3
                    if len(args) != want:
                        raise E(f"{rel}: {kind}! in impl {view} with {len(args)} args")
                    name, rexpr = (args[1], args[2]) if want == 4 else (args[0], args[1])
                    rm = re.fullmatch(r"(\w+)::(\w+)", rexpr)
                    if not rm:
                        raise E(f"{rel}: {view}::{name}: range expression {rexpr!r} not understood")
                    expr, r = resolve(rm.group(1), rm.group(2), None, f"{view}::{name}")
                    setters.append((view, name, kind != "gen_unsafe_field_write", expr, r))
                # hand-written `&mut self` functions
                for fm in re.finditer(r"\bpub\s+(unsafe\s+)?fn\s+(\w+)\s*(?:<[^>(]*>)?\s*\(\s*&\s*(?:'\w+\s+)?mut\s+self\b", body):
                    name, safe = fm.group(2), fm.group(1) is None
                    j = body.find("{", fm.end())
                    fbody = body[j:_match_brace(body, j)]
                    rs = re.findall(r"\b(\w+Layout)::(\w+_RNG)\b(?:\s*\.shift\(\s*(\w+)::(\w+)\s*\))?", fbody)
                    if name.startswith("set_") and len(set(rs)) == 1:
                        o, n, so, sn = rs[0]
                        expr, r = resolve(o, n, (so, sn) if so else None, f"{view}::{name}")
                        setters.append((view, name, safe, expr, r))
                    else:
                        mutfns.append((view, name, safe))
            _ = aliases
        if not setters:
            raise E("no setter found in the view files")
        names = [(v, n) for v, n, *_ in setters] + [(v, n) for v, n, _ in mutfns]
        if len(names) != len(set(names)):
            dup = sorted({x for x in names if names.count(x) > 1})
            raise E(f"duplicate &mut self functions {dup}")
        return setters, mutfns

    @api.domain
    def gen_Setters():
        ranges, consts, _order, _variable, _glob = scan_layouts()
        setters, mutfns = scan_views(ranges, consts)
        for must in [("ScionHeaderView", "set_header_len"), ("StandardPathView", "set_seg0_len"),
                     ("ScmpPayloadView", "set_message_type"), ("UdpDatagramView", "set_length"),
                     ("ScionHeaderView", "set_traffic_class"), ("HopFieldView", "set_mac")]:
            if not any((v, n) == must for v, n, *_ in setters):
                raise E(f"setter {must[0]}::{must[1]} not found")
        for must in [("ScionHeaderView", "path_mut"), ("ScmpPayloadView", "message_mut"), ("ScionPacketView", "header_mut"),
                     ("ScionRawPacketView", "payload_mut"), ("StandardPathView", "try_reverse"),
                     ("StandardPathView", "advance_ingress"), ("StandardPathView", "advance_egress")]:
            if not any((v, n) == must for v, n, _ in mutfns):
                raise E(f"&mut self function {must[0]}::{must[1]} not found")
        body = "import ScionVerif.Model.Bits\nnamespace ScionVerif.Generated.Setters\nopen ScionVerif\n\n"
        body += ("/-- one field setter of a view type: Rust type, function, `safe` = not an `unsafe fn`, the layout range\n"
                 "    expression of the source, and its value (bits, relative to the start of the view) -/\n"
                 "structure SetterRow where\n  view : String\n  name : String\n  safe : Bool\n  expr : String\n  range : BitRange\n"
                 "deriving DecidableEq, Repr\n\n")
        body += "def setters : List SetterRow := [\n" + ",\n".join(
            f"  ⟨\"{v}\", \"{n}\", {'true' if s else 'false'}, \"{x}\", ⟨{r[0]}, {r[1]}⟩⟩" for v, n, s, x, r in setters) + "\n]\n\n"
        body += ("/-- every other inherent `pub [unsafe] fn f(&mut self, ..)` of the view types -/\n"
                 "structure MutFnRow where\n  view : String\n  name : String\n  safe : Bool\nderiving DecidableEq, Repr\n\n")
        body += "def mutFns : List MutFnRow := [\n" + ",\n".join(
            f"  ⟨\"{v}\", \"{n}\", {'true' if s else 'false'}⟩" for v, n, s in mutfns) + "\n]\n"
        body += "end ScionVerif.Generated.Setters\n"
        vals = {"setters": {f"{v}::{n}": {"safe": s, "range": list(r), "expr": x} for v, n, s, x, r in setters},
                "mut_fns": {f"{v}::{n}": {"safe": s} for v, n, s in mutfns}}
        return api.write_lean("Setters", body, VIEW_FILES + LAYOUT_FILES), vals

    @api.domain
    def gen_AddrType():
        rel = SP + "scion/address/host_addr.rs"
        src = api.strip_comments(api.read(rel))
        # nibble -> type
        m = re.search(r"impl From<u8> for WireHostAddrType\s*\{.*?match value\s*\{(.*?)\n\s{8}\}", src, flags=re.S)
        if not m:
            raise E("impl From<u8> for WireHostAddrType not found")
        arms = {}
        for a in re.finditer(r"(0b[01]+|\d+)\s*=>\s*WireHostAddrType::(\w+)\s*,", m.group(1)):
            arms[int(a.group(1), 0)] = a.group(2)
        rest = m.group(1)
        if not (re.search(r"let id = other >> 2;", rest) and re.search(r"let size = \(\(other & 0b11\) \+ 1\) \* 4;", rest)
                and re.search(r"WireHostAddrType::Unknown\s*\{\s*id,\s*size\s*\}", rest)):
            raise E("WireHostAddrType::from(u8): unknown-type formula changed")
        m2 = re.search(r"pub const fn size\(&self\) -> u8\s*\{\s*match self\s*\{(.*?)\}\s*\}", src, flags=re.S)
        if not m2:
            raise E("WireHostAddrType::size not found")
        sizes = {}
        for a in re.finditer(r"WireHostAddrType::(\w+)\s*=>\s*(\d+)\s*,", m2.group(1)):
            sizes[a.group(1)] = int(a.group(2))
        if not re.search(r"WireHostAddrType::Unknown\s*\{\s*size,\s*\.\.\s*\}\s*=>\s*\*size", m2.group(1)):
            raise E("WireHostAddrType::size: Unknown arm changed")
        m3 = re.search(r"impl From<WireHostAddrType> for u8\s*\{.*?match val\s*\{(.*?)\n\s{8}\}", src, flags=re.S)
        if not m3:
            raise E("impl From<WireHostAddrType> for u8 not found")
        back = {}
        for a in re.finditer(r"WireHostAddrType::(\w+)\s*=>\s*(0b[01]+|\d+)\s*,", m3.group(1)):
            back[a.group(1)] = int(a.group(2), 0)
        if not re.search(r"\(type_id << 2\) \| \(size / 4\)\.saturating_sub\(1\)", m3.group(1)):
            raise E("u8::from(WireHostAddrType): unknown-type formula changed")
        kinds = {"IPV4": 0, "IPV6": 1, "Service": 2}
        for k in kinds:
            if k not in sizes or k not in back or k not in arms.values():
                raise E(f"WireHostAddrType::{k} missing in a table")
        rows = []
        for nib in range(16):
            if nib in arms:
                k = arms[nib]
                rows.append((kinds[k], 0, sizes[k]))
            else:
                rows.append((3, nib >> 2, ((nib & 3) + 1) * 4))
        body = "namespace ScionVerif.Generated.AddrType\n"
        body += "/-- nibble (index 0..15) -> (kind, id, size in bytes); kind 0 = IPv4, 1 = IPv6, 2 = Service, 3 = Unknown{id,size} -/\n"
        body += "def addrTable : List (Nat × Nat × Nat) := [" + ", ".join(f"({a}, {b}, {c})" for a, b, c in rows) + "]\n"
        for k, v in kinds.items():
            body += f"def NIBBLE_{k.upper()} : Nat := {back[k]}\n"
        vals = {"addrTable": rows, "nibbles": back}
        # path types
        prel = SP + "proto/dataplane_path/types.rs"
        psrc = api.strip_comments(api.read(prel))
        m = re.search(r"impl From<u8> for PathType\s*\{.*?match value\s*\{(.*?)\n\s{8}\}", psrc, flags=re.S)
        if not m:
            raise E("impl From<u8> for PathType not found")
        pt = {a.group(2): int(a.group(1)) for a in re.finditer(r"(\d+)\s*=>\s*PathType::(\w+)\s*,", m.group(1))}
        for k in ["Empty", "Scion", "OneHop", "Epic", "Colibri"]:
            if k not in pt:
                raise E(f"PathType::{k} not found")
            body += f"def PATH_{k.upper()} : Nat := {pt[k]}\n"
        if not re.search(r"other\s*=>\s*PathType::Other\(other\)", m.group(1)):
            raise E("PathType: catch-all arm not found")
        vals["pathTypes"] = pt
        # protocol numbers
        qrel = SP + "proto/payload.rs"
        qsrc = api.strip_comments(api.read(qrel))
        m = re.search(r"impl From<u8> for ProtocolNumber\s*\{.*?match value\s*\{(.*?)\n\s{8}\}", qsrc, flags=re.S)
        if not m:
            raise E("impl From<u8> for ProtocolNumber not found")
        pn = {a.group(2): int(a.group(1)) for a in re.finditer(r"(\d+)\s*=>\s*ProtocolNumber::(\w+)\s*,", m.group(1))}
        for k in ["Udp", "Scmp"]:
            if k not in pn:
                raise E(f"ProtocolNumber::{k} not found")
            body += f"def PROTO_{k.upper()} : Nat := {pn[k]}\n"
        vals["protocols"] = pn
        body += "end ScionVerif.Generated.AddrType\n"
        return api.write_lean("AddrType", body, [rel, prel, qrel]), vals
