"""Translator domain `Signed` (property C18): the *data* of the signed-message layer and of the RPC
conversions, re-extracted from the Rust sources on every run.

* widths of the domain-side integer fields (`SegmentHopField`, `HopEntry`, `PeerEntry`, `SegmentInfo`,
  `AsEntry`, `PathMetadata`, `PathInterface`) – these are the bounds `try_into()` enforces in
  `segment/rpc.rs` / `path.rs` / `path/metadata.rs`;
* widths of the RPC-side (prost generated) fields the values are converted from – the range of an
  "arbitrary RPC message";
* the expected hop-field MAC length of `SegmentHopField::try_from_rpc`;
* the `SignatureAlgorithm` enum values accepted by `SignedMessage::validate`, the header's
  `associated_data_length` type and the integer casts applied to it in `sign` / `validate`;
* the `LinkType` encoding of `path/metadata.rs`;
* `NANOS_PER_SECOND` / `NANOS_MAX` of the vendored `prost-types` crate (`Duration::normalize`).
"""
import glob
import os
import re


def register(api):
    E = api.ExtractError

    def need(m, what):
        if not m:
            raise E(what + " not found")
        return m

    def struct_body(src, name, what=None):
        m = need(re.search(r"pub struct " + name + r"\s*\{", src), what or ("struct " + name))
        i = m.end() - 1
        depth, j = 0, i
        while j < len(src):
            if src[j] == "{":
                depth += 1
            elif src[j] == "}":
                depth -= 1
                if depth == 0:
                    return src[i + 1:j]
            j += 1
        raise E(f"struct {name}: unbalanced braces")

    SIGNED = {"i8": 8, "i16": 16, "i32": 32, "i64": 64}

    def field_bits(body, field, what, signed_ok=False):
        m = need(re.search(r"pub\s+" + field + r"\s*:\s*(\w+)\s*,", body), f"{what}.{field}")
        ty = m.group(1)
        if ty in api.INT_BITS:
            return api.INT_BITS[ty], False
        if signed_ok and ty in SIGNED:
            return SIGNED[ty], True
        raise E(f"{what}.{field}: unexpected integer type {ty}")

    @api.domain
    def gen_Signed():
        base = "crates/libs/sciparse/src/scion/"
        f_seg, f_rpc, f_sm = base + "segment.rs", base + "segment/rpc.rs", base + "signed_message.rs"
        f_path, f_meta = base + "path.rs", base + "path/metadata.rs"
        pb = "crates/libs/scion-protobuf/src/proto/"
        f_cp, f_cr, f_dm = pb + "proto.control_plane.v1.rs", pb + "proto.crypto.v1.rs", pb + "proto.daemon.v1.rs"
        vals = {}

        seg = api.strip_comments(api.read(f_seg))
        hf = struct_body(seg, "SegmentHopField")
        vals["HF_EXP_BITS"] = field_bits(hf, "expiration_units", "SegmentHopField")[0]
        vals["HF_INGRESS_BITS"] = field_bits(hf, "cons_ingress", "SegmentHopField")[0]
        vals["HF_EGRESS_BITS"] = field_bits(hf, "cons_egress", "SegmentHopField")[0]
        he = struct_body(seg, "HopEntry")
        vals["HE_INGRESS_MTU_BITS"] = field_bits(he, "ingress_mtu", "HopEntry")[0]
        pe = struct_body(seg, "PeerEntry")
        vals["PE_IF_BITS"] = field_bits(pe, "peer_interface", "PeerEntry")[0]
        vals["PE_MTU_BITS"] = field_bits(pe, "peer_mtu", "PeerEntry")[0]
        si = struct_body(seg, "SegmentInfo")
        vals["SI_TIMESTAMP_BITS"] = field_bits(si, "timestamp", "SegmentInfo")[0]
        vals["SI_SEGID_BITS"] = field_bits(si, "segment_id", "SegmentInfo")[0]
        ae = struct_body(seg, "AsEntry")
        vals["AS_MTU_BITS"] = field_bits(ae, "mtu", "AsEntry")[0]
        # the take_while form of the associated data (the model has both forms; the tie is that the code
        # still locates the entry by value equality)
        # How the entry's own position is located.  The closure of the `take_while` is *data*: it is classified
        # and handed to Lean (`ASSOC_STOP_KIND`: 1 = by value of the whole AsEntry, `e.entry != *self` – what
        # `Model/Signed.assocTW` mirrors; 2 = by local ISD-AS only; 0 = anything else), so that a changed
        # closure breaks the theorem `assoc_stop_by_value` (and the correspondence) instead of the extraction.
        m = need(re.search(r"fn associated_data\b(.*?)\n    pub fn ", seg, re.S), "AsEntry::associated_data")
        body_ad = m.group(1)
        m = need(re.search(r"\.take_while\(\s*(?:move\s*)?\|\s*(\w+)\s*\|\s*(.*?)\)\s*\.flat_map", body_ad, re.S),
                 "take_while(..).flat_map(..) in AsEntry::associated_data")
        var, cond = m.group(1), " ".join(m.group(2).split())
        if re.fullmatch(re.escape(var) + r"\.entry\s*!=\s*\*self", cond):
            vals["ASSOC_STOP_KIND"] = 1
        elif re.fullmatch(re.escape(var) + r"\.entry\.local\s*!=\s*(\*?self\.local|local)", cond):
            vals["ASSOC_STOP_KIND"] = 2
        else:
            vals["ASSOC_STOP_KIND"] = 0
        vals["ASSOC_STOP_EXPR"] = cond

        rpc = api.strip_comments(api.read(f_rpc))
        m = need(re.search(r"hop_field\.mac\.len\(\)\s*!=\s*(\d+)", rpc), "MAC length check in SegmentHopField::try_from_rpc")
        vals["MAC_LEN"] = int(m.group(1))
        m = need(re.search(r"hop_field\.mac\[\.\.(\d+)\]", rpc), "MAC slice in SegmentHopField::try_from_rpc")
        vals["MAC_SLICE"] = int(m.group(1))

        # Which bytes are "the segment header" of the signature chain on the receiving / sending side
        # (finding 4 of docs/review/comb-signed.md, fix c0ed6e0).  Classified, not pattern-required, so that a
        # regression breaks the theorems `info_kept_raw` / `info_sent_raw` (and the correspondence) rather than
        # the extraction:  SEG_INFO_KEPT: 1 = try_from_rpc stores the received `segment.segment_info` bytes in
        # `info.encoded`, 2 = it keeps the re-encoding built by SegmentInfo::new (the original code), 0 = other;
        # SEG_INFO_SENT: 1 = into_rpc sends `self.info.encoded`, 2 = it re-encodes (timestamp, segment id), 0 = other.
        m = need(re.search(r"impl SignedPathSegment\s*\{(.*?)\nimpl ", rpc, re.S), "impl SignedPathSegment in segment/rpc.rs")
        sps = m.group(1)
        m = need(re.search(r"pub fn try_from_rpc\b(.*)", sps, re.S), "SignedPathSegment::try_from_rpc")
        tfr = " ".join(m.group(1).split())
        if re.search(r"\.encoded\s*=\s*segment\.segment_info\s*;", tfr) or re.search(r"encoded\s*:\s*segment\.segment_info\b", tfr):
            vals["SEG_INFO_KEPT"] = 1
        elif re.search(r"info\s*:\s*segment_info\.try_into\(\)\?", tfr) and "encoded" not in tfr:
            vals["SEG_INFO_KEPT"] = 2
        else:
            vals["SEG_INFO_KEPT"] = 0
        m = need(re.search(r"pub fn into_rpc\b(.*?)pub fn try_from_rpc", sps, re.S), "SignedPathSegment::into_rpc")
        m = need(re.search(r"segment_info\s*:\s*(.*?),\s*as_entries", " ".join(m.group(1).split())), "segment_info field in SignedPathSegment::into_rpc")
        sent = m.group(1).strip()
        vals["SEG_INFO_SENT"] = 1 if sent == "self.info.encoded" else 2 if sent == "self.info.into_rpc().encode_to_vec()" else 0
        vals["SEG_INFO_SENT_EXPR"] = sent
        # SegmentInfo::new stores the prost encoding of (timestamp as i64, segment_id as u32)
        m = need(re.search(r"impl SegmentInfo\s*\{(.*?)\n\}", seg, re.S), "impl SegmentInfo")
        need(re.search(r"SegmentInformation\s*\{\s*timestamp:\s*timestamp as i64,\s*segment_id:\s*segment_id as u32,?\s*\}\s*\.encode_to_vec\(\)", m.group(1)),
             "SegmentInfo::new: encoded = SegmentInformation{timestamp, segment_id}.encode_to_vec()")
        # the associated data starts with info.encoded
        need(re.search(r"once\(path_segment\.info\.encoded\.as_slice\(\)\)\.chain\(entry_iter\)", body_ad), "associated_data: once(info.encoded).chain(entries)")

        meta = api.strip_comments(api.read(f_meta))
        pm = struct_body(meta, "PathMetadata")
        vals["PATH_MTU_BITS"] = field_bits(pm, "mtu", "PathMetadata")[0]
        vals["PATH_EXPIRATION_BITS"] = field_bits(pm, "expiration", "PathMetadata")[0]
        pi = struct_body(meta, "PathInterface")
        vals["PATH_IFID_BITS"] = field_bits(pi, "id", "PathInterface")[0]
        lt = need(re.search(r"pub enum LinkType\s*\{(.*?)\}", meta, re.S), "enum LinkType").group(1)
        for name in ["Unset", "Direct", "MultiHop", "OpenNet"]:
            m = need(re.search(name + r"\s*=\s*(\d+)", lt), "LinkType::" + name)
            vals["LINK_" + name.upper()] = int(m.group(1))
        m = need(re.search(r"Unknown\((\w+)\)", lt), "LinkType::Unknown")
        vals["LINK_UNKNOWN_BITS"] = api.INT_BITS[m.group(1)]

        # ISD-AS wildcard test used by ScionPath::try_from_rpc for empty raw paths
        asn = api.strip_comments(api.read(base + "identifier/asn.rs"))
        m = need(re.search(r"pub const BITS\s*:\s*u32\s*=\s*(\d+)\s*;", asn), "Asn::BITS")
        vals["ASN_BITS"] = int(m.group(1))
        m = need(re.search(r"pub const WILDCARD\s*:\s*Self\s*=\s*Asn::new\((\d+)\)", asn), "Asn::WILDCARD")
        vals["ASN_WILDCARD"] = int(m.group(1))
        isd = api.strip_comments(api.read(base + "identifier/isd.rs"))
        m = need(re.search(r"pub const WILDCARD\s*:\s*Self\s*=\s*Self\((\d+)\)", isd), "Isd::WILDCARD")
        vals["ISD_WILDCARD"] = int(m.group(1))
        ia = api.strip_comments(api.read(base + "identifier/isd_asn.rs"))
        need(re.search(r"self\.isd\(\)\.is_wildcard\(\)\s*\|\|\s*self\.asn\(\)\.is_wildcard\(\)", ia), "IsdAsn::is_wildcard (isd || asn)")
        need(re.search(r"self\.0\s*>>\s*Asn::BITS", ia), "IsdAsn::isd shift")

        # RPC side (prost generated)
        cp = api.strip_comments(api.read(f_cp))
        b = struct_body(cp, "HopField")
        vals["RPC_HF_INGRESS_BITS"] = field_bits(b, "ingress", "rpc HopField")[0]
        vals["RPC_HF_EGRESS_BITS"] = field_bits(b, "egress", "rpc HopField")[0]
        vals["RPC_HF_EXP_BITS"] = field_bits(b, "exp_time", "rpc HopField")[0]
        b = struct_body(cp, "HopEntry")
        vals["RPC_HE_INGRESS_MTU_BITS"] = field_bits(b, "ingress_mtu", "rpc HopEntry")[0]
        b = struct_body(cp, "PeerEntry")
        vals["RPC_PE_IF_BITS"] = field_bits(b, "peer_interface", "rpc PeerEntry")[0]
        vals["RPC_PE_MTU_BITS"] = field_bits(b, "peer_mtu", "rpc PeerEntry")[0]
        b = struct_body(cp, "SegmentInformation")
        bits, sgn = field_bits(b, "timestamp", "rpc SegmentInformation", signed_ok=True)
        if not sgn:
            raise E("rpc SegmentInformation.timestamp is no longer a signed integer")
        vals["RPC_SI_TIMESTAMP_BITS"] = bits
        vals["RPC_SI_SEGID_BITS"] = field_bits(b, "segment_id", "rpc SegmentInformation")[0]
        dm = api.strip_comments(api.read(f_dm))
        b = struct_body(dm, "Path")
        vals["RPC_PATH_MTU_BITS"] = field_bits(b, "mtu", "rpc Path")[0]
        b = struct_body(dm, "PathInterface")
        vals["RPC_PATH_IFID_BITS"] = field_bits(b, "id", "rpc PathInterface")[0]

        cr = api.strip_comments(api.read(f_cr))
        b = struct_body(cr, "Header")
        bits, sgn = field_bits(b, "associated_data_length", "crypto Header", signed_ok=True)
        if not sgn:
            raise E("crypto Header.associated_data_length is no longer a signed integer")
        vals["AD_LEN_BITS"] = bits
        en = need(re.search(r"pub enum SignatureAlgorithm\s*\{(.*?)\}", cr, re.S), "enum SignatureAlgorithm").group(1)
        for name, key in [("Unspecified", "ALG_UNSPECIFIED"), ("EcdsaWithSha256", "ALG_SHA256"),
                          ("EcdsaWithSha384", "ALG_SHA384"), ("EcdsaWithSha512", "ALG_SHA512")]:
            m = need(re.search(name + r"\s*=\s*(\d+)", en), "SignatureAlgorithm::" + name)
            vals[key] = int(m.group(1))
        n_variants = len(re.findall(r"\w+\s*=\s*\d+", en))
        vals["ALG_VARIANTS"] = n_variants

        sm = api.strip_comments(api.read(f_sm))
        # the casts applied to the associated data length
        m = need(re.search(r"associated_data_length:\s*associated_data\.0\s+as\s+(\w+)", sm), "sign: associated_data.0 as i32")
        if m.group(1) not in SIGNED or SIGNED[m.group(1)] != vals["AD_LEN_BITS"]:
            raise E("sign: cast of the associated data length does not match the header field type")
        m = need(re.search(r"header\.associated_data_length\s+as\s+(\w+)\s*!=\s*associated_data\.0", sm),
                 "validate: header.associated_data_length as usize != associated_data.0")
        if m.group(1) != "usize":
            raise E("validate: associated data length compared in an unexpected type " + m.group(1))
        vals["USIZE_BITS"] = api.INT_BITS["usize"]
        # the validation order (data: positions in the source text must be increasing)
        order = [r"HeaderAndBodyInternal::decode", r"Header::decode", r"key_provider\(", r"associated_data_length\s+as\s+usize\s*!=",
                 r"InvalidDigestAlgorithm\)", r"Signature::from_der", r"verify_prehash"]
        body = sm[sm.index("pub fn validate"):]
        pos = -1
        for pat in order:
            m = need(re.search(pat, body), "validate step " + pat)
            if m.start() <= pos:
                raise E("SignedMessage::validate: check order changed at " + pat)
            pos = m.start()
        vals["VALIDATE_STEPS"] = len(order)

        # vendored prost-types: Duration::normalize constants
        cands = sorted(glob.glob(os.path.expanduser("~/.cargo/registry/src/*/prost-types-*/src/lib.rs")))
        lock = api.read("Cargo.lock")
        m = need(re.search(r'name = "prost-types"\s*\nversion = "([^"]+)"', lock), "prost-types in Cargo.lock")
        ver = m.group(1)
        cands = [c for c in cands if f"prost-types-{ver}/" in c]
        if not cands:
            raise E(f"vendored prost-types-{ver} source not found")
        pt = api.strip_comments(open(cands[0], encoding="utf-8").read())
        consts = api.find_consts(pt)
        vals["NANOS_PER_SECOND"] = api.eval_const("NANOS_PER_SECOND", consts, {})
        vals["NANOS_MAX"] = api.eval_const("NANOS_MAX", consts, {})
        pbrs = api.strip_comments(open(os.path.join(os.path.dirname(cands[0]), "protobuf.rs"), encoding="utf-8").read())
        b = struct_body(pbrs, "Duration", "prost_types::Duration")
        for fld, key in [("seconds", "DUR_SECONDS_BITS"), ("nanos", "DUR_NANOS_BITS")]:
            bits, sgn = field_bits(b, fld, "prost_types::Duration", signed_ok=True)
            if not sgn:
                raise E(f"prost_types::Duration.{fld} is not a signed integer")
            vals[key] = bits
        b = struct_body(pbrs, "Timestamp", "prost_types::Timestamp")
        bits, sgn = field_bits(b, "seconds", "prost_types::Timestamp", signed_ok=True)
        if not sgn:
            raise E("prost_types::Timestamp.seconds is not a signed integer")
        vals["TS_SECONDS_BITS"] = bits
        # the fixed-size MAC array the slice is converted into
        tys = api.strip_comments(api.read("crates/libs/sciparse/src/proto/dataplane_path/standard/types.rs"))
        m = need(re.search(r"pub struct HopFieldMac\(pub \[u8;\s*(\d+)\]\)", tys), "HopFieldMac array length")
        vals["MAC_ARRAY_LEN"] = int(m.group(1))

        body = "namespace ScionVerif.Generated.Signed\n"
        for k, v in vals.items():
            if isinstance(v, str):
                body += f"-- {k}: {v}\n"
            else:
                body += f"def {k} : Nat := {v}\n"
        body += "end ScionVerif.Generated.Signed\n"
        srcs = [f_seg, f_rpc, f_sm, f_path, f_meta, f_cp, f_cr, f_dm, f"prost-types-{ver}/src/lib.rs"]
        return api.write_lean("Signed", body, srcs), vals
