"""Translator domain `Token` (C10): the verifier configuration of the SNAP control plane.

Extracted (every run, from /repo's working tree and the vendored jsonwebtoken source that Cargo.lock pins):
  * `build_validation()` in snap-control/src/server/token_verifier.rs: the algorithm passed to
    `Validation::new`, the audience list, the required spec claims (resolved through
    `AnyClaims::required_claims()` in snap-tokens/src/lib.rs) and every assignment to a `Validation`
    field (`validate_nbf`, `validate_exp`, `validate_aud`, `leeway`, `reject_tokens_expiring_in_less_than`,
    `set_issuer`, `sub`).  A statement in that body the translator does not understand is an ExtractError
    (the tie is broken, nothing is shown) - never a silent default;
  * `jsonwebtoken::Validation::new_impl` defaults (leeway, validate_exp, validate_nbf, validate_aud,
    reject_tokens_expiring_in_less_than, iss, sub, aud) and the `Algorithm` variant names;
  * the spec claims jsonwebtoken's `validate` knows how to require (the arms of its `match required_claim`);
  * snap-tokens v0/v1 `SnapTokenClaims`: field names and Rust types (what serde demands) and the
    `required_claims()` list of each version;
  * the granted lifetime: `Token::exp_time` of both claims versions (`UNIX_EPOCH + Duration::from_secs(self.exp)`
    -> nanoseconds per unit of `exp`) and, from snap-control/src/api/crpc.rs, the statements of
    `register_snaptun_identity_handler` that compute `lifetime` (`exp_time().duration_since(SystemTime::now())`,
    refused with InvalidArgument when negative, before anything is registered), that it is handed unchanged
    to the one `identity_registry.register(..)` call, and that the registration key is `snap_token.jti()`.
    Any other shape of those statements is an ExtractError;
  * snap-control/src/server/auth.rs: the literal of `auth_str.strip_prefix("Bearer ")` in `extract_bearer_token`
    (the rest of the header value is the token, verbatim) and the shape of `AuthMiddleware::call`
    (extract -> verify -> inner | 401);
  * token_verifier.rs: the fields (name, type) of `struct SnapTokenVerifier` and the receiver of `verify` - what one
    verifier instance can carry from one presentation of a token to the next (`verifierFields`, `verifyReceiver`).
"""
import re, os, glob


def register(api):
    E = api.ExtractError

    def lean_str(s):
        return '"' + s.replace("\\", "\\\\").replace('"', '\\"') + '"'

    def lean_list(xs, f=lean_str):
        return "[" + ", ".join(f(x) for x in xs) + "]"

    def lean_bool(b):
        return "true" if b else "false"

    def fn_body(src, header_re, what):
        """text between the braces of the first fn whose header matches header_re"""
        m = re.search(header_re, src)
        if not m:
            raise E(f"{what} not found")
        i = src.index("{", m.end() - 1)
        depth, j = 0, i
        while j < len(src):
            if src[j] == "{":
                depth += 1
            elif src[j] == "}":
                depth -= 1
                if depth == 0:
                    return src[i + 1:j]
            j += 1
        raise E(f"{what}: unbalanced braces")

    def str_list(txt, what):
        items = re.findall(r'"((?:[^"\\]|\\.)*)"', txt)
        rest = re.sub(r'"((?:[^"\\]|\\.)*)"', "", txt)
        if re.sub(r"[\s,]", "", rest):
            raise E(f"{what}: not a list of string literals: {txt!r}")
        return items

    def required_claims_of(src, impl_re, what):
        body = fn_body(src, impl_re, what)
        rc = fn_body(body, r"fn\s+required_claims\s*\(\s*\)\s*->\s*Vec<&'static str>\s*\{", what + " required_claims")
        m = re.fullmatch(r"\s*vec!\[(.*)\]\s*", rc, flags=re.S)
        if not m:
            raise E(f"{what} required_claims: body is not a vec![..] literal: {rc.strip()!r}")
        return str_list(m.group(1), what + " required_claims")

    def struct_fields(src, what):
        m = re.search(r"pub struct SnapTokenClaims\s*\{", src)
        if not m:
            raise E(f"{what}: struct SnapTokenClaims not found")
        body = fn_body(src, r"pub struct SnapTokenClaims\s*\{", what)
        if not re.search(r"#\[derive\([^)]*\bDeserialize\b[^)]*\)\]\s*pub struct SnapTokenClaims", src):
            raise E(f"{what}: SnapTokenClaims no longer derives Deserialize (hand-written impl is not modelled)")
        if "deny_unknown_fields" in src:
            raise E(f"{what}: deny_unknown_fields is not modelled")
        fields, flatten = [], False
        pending_attr = ""
        for line in body.split("\n"):
            line = line.strip()
            if not line:
                continue
            if line.startswith("#["):
                pending_attr += line
                continue
            fm = re.fullmatch(r"(?:pub(?:\([^)]*\))?\s+)?(\w+)\s*:\s*(.+?),?", line)
            if not fm:
                raise E(f"{what}: cannot parse struct line {line!r}")
            name, ty = fm.group(1), fm.group(2).strip()
            if "flatten" in pending_attr:
                if not ty.startswith("BTreeMap<String"):
                    raise E(f"{what}: flattened field {name} has unexpected type {ty}")
                flatten = True
            elif pending_attr:
                raise E(f"{what}: serde attribute {pending_attr!r} on field {name} is not modelled")
            else:
                fields.append((name, ty))
            pending_attr = ""
        return fields, flatten

    TY = {"u64": "u64", "usize": "u64", "String": "str"}

    @api.domain
    def gen_Token():
        rel_tv = "crates/snap/snap-control/src/server/token_verifier.rs"
        rel_lib = "crates/snap/snap-tokens/src/lib.rs"
        rel_v0 = "crates/snap/snap-tokens/src/v0.rs"
        rel_v1 = "crates/snap/snap-tokens/src/v1.rs"
        rel_lock = "Cargo.lock"

        # ---- jsonwebtoken version pinned by Cargo.lock, vendored source ------------------------------
        lock = api.read(rel_lock)
        m = re.search(r'name = "jsonwebtoken"\s*\nversion = "([^"]+)"', lock)
        if not m:
            raise E("jsonwebtoken not found in Cargo.lock")
        jwt_ver = m.group(1)
        cands = sorted(glob.glob(os.path.expanduser(f"~/.cargo/registry/src/*/jsonwebtoken-{jwt_ver}/src/validation.rs")))
        if not cands:
            raise E(f"vendored jsonwebtoken-{jwt_ver}/src/validation.rs not found under ~/.cargo/registry/src")
        jwt_dir = os.path.dirname(cands[0])
        with open(cands[0], encoding="utf-8") as f:
            vsrc = api.strip_comments(f.read())
        with open(os.path.join(jwt_dir, "algorithms.rs"), encoding="utf-8") as f:
            asrc = api.strip_comments(f.read())

        # defaults: body of `fn new_impl`
        nb = fn_body(vsrc, r"fn\s+new_impl\s*\([^)]*\)\s*->\s*Validation\s*\{", "Validation::new_impl")
        lit = fn_body(nb, r"Validation\s*\{", "Validation::new_impl struct literal")
        dflt = {}
        for fld, kind in [("leeway", "int"), ("reject_tokens_expiring_in_less_than", "int"),
                          ("validate_exp", "bool"), ("validate_nbf", "bool"), ("validate_aud", "bool"),
                          ("validate_signature", "bool"), ("iss", "none"), ("sub", "none"), ("aud", "none")]:
            mm = re.search(rf"\b{fld}\s*:\s*([^,\n]+),", lit)
            if not mm:
                raise E(f"Validation::new_impl: field {fld} not found")
            v = mm.group(1).strip()
            if kind == "int":
                if not re.fullmatch(r"\d[\d_]*", v):
                    raise E(f"Validation::new_impl: {fld} = {v!r} is not an integer literal")
                dflt[fld] = int(v.replace("_", ""))
            elif kind == "bool":
                if v not in ("true", "false"):
                    raise E(f"Validation::new_impl: {fld} = {v!r} is not a bool literal")
                dflt[fld] = (v == "true")
            else:
                if v != "None":
                    raise E(f"Validation::new_impl: {fld} = {v!r}, expected None")
                dflt[fld] = None
        if not dflt["validate_signature"]:
            raise E("Validation::new_impl: validate_signature defaults to false")
        # default required claims: required_claims.insert("exp".to_owned())
        dreq = re.findall(r'required_claims\.insert\(\s*"([^"]+)"\.to_owned\(\)\s*\)', nb)
        if not dreq:
            raise E("Validation::new_impl: default required claims not found")
        # which spec claims `validate` can require
        vb = fn_body(vsrc, r"pub\(crate\)\s+fn\s+validate\s*\(", "jsonwebtoken validate")
        mm = re.search(r"match\s+required_claim\.as_str\(\)\s*\{(.*?)_\s*=>\s*continue", vb, flags=re.S)
        if not mm:
            raise E("jsonwebtoken validate: required-claim match not found")
        checkable = re.findall(r'"(\w+)"\s*=>\s*matches!\(claims\.(\w+),\s*TryParse::Parsed\(_\)\)', mm.group(1))
        if not checkable or any(a != b for a, b in checkable):
            raise E(f"jsonwebtoken validate: unexpected required-claim arms {checkable}")
        checkable = [a for a, _ in checkable]
        # the comparison operators of the time window (strict / non-strict) are control flow: pinned by text
        for needle, what in [("exp - options.reject_tokens_expiring_in_less_than < now - options.leeway", "exp comparison"),
                             ("nbf > now + options.leeway", "nbf comparison")]:
            if needle not in vb:
                raise E(f"jsonwebtoken validate: {what} changed (expected `{needle}`)")
        # algorithm names
        eb = fn_body(asrc, r"pub enum Algorithm\s*\{", "enum Algorithm")
        algs = re.findall(r"^\s*([A-Za-z0-9]+)\s*,", re.sub(r"#\[[^\]]*\]", "", eb), flags=re.M)
        if "EdDSA" not in algs or len(algs) < 2:
            raise E(f"enum Algorithm: unexpected variants {algs}")

        # ---- build_validation ------------------------------------------------------------------------
        tv = api.strip_comments(api.read(rel_tv))
        bb = fn_body(tv, r"fn\s+build_validation\s*\(\s*\)\s*->\s*Validation\s*\{", "build_validation")
        stmts = [s.strip() for s in bb.split(";")]
        cfg = dict(dflt)
        cfg["algorithms"] = None
        cfg["required"] = list(dreq)
        var = None
        tail = None
        for s in stmts:
            if not s:
                continue
            mm = re.fullmatch(r"let\s+mut\s+(\w+)\s*=\s*Validation::new\(\s*Algorithm::(\w+)\s*\)", s)
            if mm:
                var = mm.group(1)
                cfg["algorithms"] = [mm.group(2)]
                continue
            if var is None:
                raise E(f"build_validation: statement before Validation::new: {s!r}")
            if s == var:
                tail = s
                continue
            mm = re.fullmatch(rf"{var}\.set_required_spec_claims\(\s*&\s*AnyClaims::required_claims\(\)\s*\)", s)
            if mm:
                lib = api.strip_comments(api.read(rel_lib))
                cfg["required"] = required_claims_of(lib, r"impl\s+Token\s+for\s+AnyClaims\s*\{", "AnyClaims")
                continue
            mm = re.fullmatch(rf"{var}\.set_required_spec_claims\(\s*&\s*\[(.*)\]\s*\)", s, flags=re.S)
            if mm:
                cfg["required"] = str_list(mm.group(1), "set_required_spec_claims")
                continue
            mm = re.fullmatch(rf"{var}\.set_audience\(\s*&\s*\[(.*)\]\s*\)", s, flags=re.S)
            if mm:
                cfg["aud"] = str_list(mm.group(1), "set_audience")
                continue
            mm = re.fullmatch(rf"{var}\.set_issuer\(\s*&\s*\[(.*)\]\s*\)", s, flags=re.S)
            if mm:
                cfg["iss"] = str_list(mm.group(1), "set_issuer")
                continue
            mm = re.fullmatch(rf"{var}\.(validate_exp|validate_nbf|validate_aud)\s*=\s*(true|false)", s)
            if mm:
                cfg[mm.group(1)] = (mm.group(2) == "true")
                continue
            mm = re.fullmatch(rf"{var}\.(leeway|reject_tokens_expiring_in_less_than)\s*=\s*(\d[\d_]*)", s)
            if mm:
                cfg[mm.group(1)] = int(mm.group(2).replace("_", ""))
                continue
            mm = re.fullmatch(rf'{var}\.sub\s*=\s*Some\(\s*"([^"]*)"\.(?:to_string|to_owned|into)\(\)\s*\)', s)
            if mm:
                cfg["sub"] = mm.group(1)
                continue
            raise E(f"build_validation: statement not understood by the translator: {s!r}")
        if cfg["algorithms"] is None or tail is None:
            raise E("build_validation: no `Validation::new(Algorithm::..)` / no tail expression")
        # the verifier must use build_validation() and decode::<AnyClaims>
        if not re.search(r"validation\s*:\s*build_validation\(\)", tv):
            raise E("SnapTokenVerifier::new no longer uses build_validation()")
        if not re.search(r"decode::<AnyClaims>\(\s*token\s*,\s*&key\s*,\s*&self\.validation\s*\)", tv):
            raise E("SnapTokenVerifier::verify no longer calls decode::<AnyClaims>(token, &key, &self.validation)")

        # ---- claims versions -------------------------------------------------------------------------
        v0 = api.strip_comments(api.read(rel_v0))
        v1 = api.strip_comments(api.read(rel_v1))
        f0, flat0 = struct_fields(v0, "v0")
        f1, flat1 = struct_fields(v1, "v1")
        r0 = required_claims_of(v0, r"impl\s+Token\s+for\s+SnapTokenClaims\s*\{", "v0 SnapTokenClaims")
        r1 = required_claims_of(v1, r"impl\s+Token\s+for\s+SnapTokenClaims\s*\{", "v1 SnapTokenClaims")

        def fty(ver, name, ty):
            if ty == "Pssid":
                return "pssidV0" if ver == 0 else "pssidV1"
            if ty in TY:
                return TY[ty]
            raise E(f"v{ver} field {name}: type {ty} is not modelled")

        lf0 = [(n, fty(0, n, t)) for n, t in f0]
        lf1 = [(n, fty(1, n, t)) for n, t in f1]
        # the version dispatch constant: `Some(1) =>` arm deserialises v1
        lib = api.strip_comments(api.read(rel_lib))
        mm = re.search(r"match\s+ver\.as_u64\(\)\s*\{\s*Some\((\d+)\)\s*=>\s*\{\s*let claims\s*:\s*v1::SnapTokenClaims", lib)
        if not mm:
            raise E("AnyClaims::deserialize: `Some(1) => v1::SnapTokenClaims` arm not found")
        v1_tag = int(mm.group(1))
        if not re.search(r'value\.get\("ver"\)', lib):
            raise E('AnyClaims::deserialize: value.get("ver") not found')

        # ---- granted lifetime ------------------------------------------------------------------------
        def exp_unit(src, ver):
            imp = fn_body(src, r"impl\s+Token\s+for\s+SnapTokenClaims\s*\{", f"v{ver} impl Token")
            b = " ".join(fn_body(imp, r"fn\s+exp_time\s*\(\s*&self\s*\)\s*->\s*SystemTime\s*\{", f"v{ver} exp_time").split())
            m = re.fullmatch(r"(?:SystemTime::)?UNIX_EPOCH \+ (?:std::time::)?Duration::from_(secs|millis|micros|nanos)\(self\.exp\)", b)
            if not m:
                raise E(f"v{ver} SnapTokenClaims::exp_time is not `UNIX_EPOCH + Duration::from_<unit>(self.exp)`: {b!r}")
            return {"secs": 10**9, "millis": 10**6, "micros": 10**3, "nanos": 1}[m.group(1)]
        u0, u1 = exp_unit(v0, 0), exp_unit(v1, 1)
        if u0 != u1:
            raise E(f"v0 and v1 exp_time use different units ({u0} / {u1} ns): the model has one")
        b = " ".join(fn_body(lib, r"impl\s+Token\s+for\s+AnyClaims\s*\{", "impl Token for AnyClaims").split())
        if not re.search(r"fn exp_time\(&self\) -> SystemTime \{ match self \{ Self::V1\(c\) => c\.exp_time\(\), Self::V0\(c\) => c\.exp_time\(\), \} \}", b):
            raise E("AnyClaims::exp_time does not delegate to the versions' exp_time")
        rel_crpc = "crates/snap/snap-control/src/api/crpc.rs"
        crpc = api.strip_comments(api.read(rel_crpc))
        m = re.search(r"\)\s*->\s*Result<ConnectRpc<RegisterSnapTunIdentityResponse>, CrpcError>\s*\{", crpc)
        if not m:
            raise E("register_snaptun_identity_handler: signature changed")
        hb = " ".join(fn_body(crpc[m.start():], r"\)\s*->\s*Result<ConnectRpc<RegisterSnapTunIdentityResponse>, CrpcError>\s*\{", "register_snaptun_identity_handler body").split())
        if not hb.startswith("let now = SystemTime::now(); let lifetime = snap_token.0.exp_time().duration_since(now).map_err(|_| { CrpcError::new( CrpcErrorCode::InvalidArgument, \"expiration time is in the past\".to_string(), ) })?;"):
            raise E("register_snaptun_identity_handler: does not start with `let now = SystemTime::now(); let lifetime = snap_token.0.exp_time().duration_since(now).map_err(.. InvalidArgument ..)?;`")
        if len(re.findall(r"\blifetime\b", hb)) != 2 or len(re.findall(r"\bnow\b", hb)) != 4:
            raise E("register_snaptun_identity_handler: `lifetime` / `now` are used in other places than their definition and the register call")
        regs = re.findall(r"\.register\(([^()]*(?:\([^()]*\)[^()]*)*)\)", hb)
        if len(regs) != 1:
            raise E(f"register_snaptun_identity_handler: expected exactly one .register(..) call, found {len(regs)}")
        args = [a.strip() for a in regs[0].split(",") if a.strip()]
        if args != ["Instant::now()", "&key", "*initiator_identity.as_bytes()", "psk_share", "lifetime", "&snap_token"]:
            raise E(f"register_snaptun_identity_handler: register arguments changed: {args}")
        if "let key = snap_token.jti();" not in hb or len(re.findall(r"\bkey\b", hb)) != 3:
            raise E("register_snaptun_identity_handler: the registration key is not `snap_token.jti()`")

        # ---- bearer extraction (AuthMiddleware) -----------------------------------------------------------
        rel_auth = "crates/snap/snap-control/src/server/auth.rs"
        auth = api.strip_comments(api.read(rel_auth))
        eb = " ".join(fn_body(auth, r"pub\s+fn\s+extract_bearer_token\s*\(", "extract_bearer_token").split())
        m = re.search(r'match auth_str\.strip_prefix\("((?:[^"\\]|\\.)*)"\) \{ Some\(token\) => Ok\(token\.to_string\(\)\), None => Err\(ExtractBearerTokenError::AuthHeaderNotBearer\), \}', eb)
        if not m:
            raise E(f"extract_bearer_token: the token is not `auth_str.strip_prefix(<literal>)` taken verbatim: {eb!r}")
        bearer_prefix = m.group(1)
        if "\\" in bearer_prefix:
            raise E("extract_bearer_token: escaped prefix literal is not modelled")
        if not re.search(r'req\.headers\(\)\.get\("authorization"\)', eb) or not re.search(r"let auth_str = match auth_header\.to_str\(\) \{ Ok\(str\) => str,", eb):
            raise E("extract_bearer_token: header lookup / to_str changed")
        call = " ".join(fn_body(auth, r"fn\s+call\s*\(\s*&mut self\s*,\s*mut request\s*:\s*Request<Body>\s*\)\s*->\s*Self::Future\s*\{", "AuthMiddleware::call").split())
        if not (re.search(r"let token = match extract_bearer_token\(&request\) \{ Ok\(token\) => token, Err\(err\) => \{ .*? return Box::pin\(async \{ Ok\(build_unauthorized_response\(err\)\) \}\); \} \};", call)
                and re.search(r"match verifier\.verify\(&token\)\.await \{ Ok\(token_claims\) => \{ request\.extensions_mut\(\)\.insert\(token_claims\); inner\.call\(request\)\.await \} Err\(err\) => \{ .*? Ok\(build_unauthorized_response\(err\)\) \} \}", call)):
            raise E("AuthMiddleware::call: not `extract_bearer_token -> verifier.verify(&token) -> inner.call | 401`")

        # ---- what one verifier instance consists of (token_verifier.rs) -----------------------------------
        # the fields of `struct SnapTokenVerifier` (name, type text) and the receiver of `verify`: the model treats an
        # instance as (key configuration, Validation) and `verify` as a function of (token, clock) - a field that can
        # carry something from one call to the next changes `verifierFields` and the theorem that pins it
        sb = fn_body(tv, r"pub struct SnapTokenVerifier\s*\{", "struct SnapTokenVerifier")
        ver_fields = []
        for line in sb.split("\n"):
            line = line.strip()
            if not line or line.startswith("#["):
                continue
            fm = re.fullmatch(r"(?:pub(?:\([^)]*\))?\s+)?(\w+)\s*:\s*(.+?),?", line)
            if not fm:
                raise E(f"struct SnapTokenVerifier: cannot parse field line {line!r}")
            ver_fields.append((fm.group(1), "".join(fm.group(2).split())))
        if not ver_fields:
            raise E("struct SnapTokenVerifier: no fields found")
        mv = re.search(r"pub\s+async\s+fn\s+verify\s*\(\s*(&\s*mut\s+self|&\s*self|mut\s+self|self)\s*,\s*token\s*:\s*&str\s*\)", tv)
        if not mv:
            raise E("SnapTokenVerifier::verify(<self>, token: &str) not found")
        verify_receiver = " ".join(mv.group(1).split()).replace("& ", "&")

        def opt_list(x):
            return "none" if x is None else "some " + lean_list(x)

        body = "namespace ScionVerif.Generated.Token\n"
        body += "/-- how serde must be able to read a claim of a versioned claims struct -/\n"
        body += "inductive FieldTy | u64 | str | pssidV0 | pssidV1\n  deriving DecidableEq, Repr\n\n"
        body += f"def jsonwebtokenVersion : String := {lean_str(jwt_ver)}\n"
        body += "-- jsonwebtoken::Validation as configured by build_validation() (defaults of Validation::new where not assigned)\n"
        body += f"def algorithms : List String := {lean_list(cfg['algorithms'])}\n"
        body += f"def requiredSpecClaims : List String := {lean_list(cfg['required'])}\n"
        body += f"def leeway : Nat := {cfg['leeway']}\n"
        body += f"def rejectExpiringIn : Nat := {cfg['reject_tokens_expiring_in_less_than']}\n"
        body += f"def validateExp : Bool := {lean_bool(cfg['validate_exp'])}\n"
        body += f"def validateNbf : Bool := {lean_bool(cfg['validate_nbf'])}\n"
        body += f"def validateAud : Bool := {lean_bool(cfg['validate_aud'])}\n"
        body += f"def audience : Option (List String) := {opt_list(cfg['aud'])}\n"
        body += f"def issuer : Option (List String) := {opt_list(cfg['iss'])}\n"
        body += f"def subject : Option String := {'none' if cfg['sub'] is None else 'some ' + lean_str(cfg['sub'])}\n"
        body += "-- jsonwebtoken: Algorithm variant names; spec claims `validate` is able to require\n"
        body += f"def knownAlgorithms : List String := {lean_list(algs)}\n"
        body += f"def checkableSpecClaims : List String := {lean_list(checkable)}\n"
        body += "-- snap-tokens: claims versions\n"
        body += f"def v1Tag : Nat := {v1_tag}\n"
        pair = lambda p: f"({lean_str(p[0])}, FieldTy.{p[1]})"
        body += f"def v0Fields : List (String × FieldTy) := {lean_list(lf0, pair)}\n"
        body += f"def v1Fields : List (String × FieldTy) := {lean_list(lf1, pair)}\n"
        body += f"def v0Required : List String := {lean_list(r0)}\n"
        body += f"def v1Required : List String := {lean_list(r1)}\n"
        body += "-- granted lifetime: Token::exp_time = UNIX_EPOCH + exp * expUnitNs ns (v0.rs, v1.rs);\n"
        body += "-- register_snaptun_identity_handler (crpc.rs): lifetime = exp_time().duration_since(SystemTime::now()), refused when\n"
        body += "-- negative, handed unchanged to the single identity_registry.register(Instant::now(), &jti, identity, psk, lifetime, claims)\n"
        body += f"def expUnitNs : Nat := {u0}\n"
        body += "def handlerLifetimeIsExpMinusNow : Bool := true\n"
        body += "def handlerRefusesPastExpiryBeforeRegister : Bool := true\n"
        body += "def handlerRegisterCalls : Nat := 1\n"
        body += "def handlerRegisterKeyIsJti : Bool := true\n"
        body += "-- AuthMiddleware (auth.rs): token = auth_str.strip_prefix(bearerPrefix) taken verbatim, then verifier.verify(&token); 401 otherwise\n"
        body += f"def bearerPrefix : String := {lean_str(bearer_prefix)}\n"
        body += "def middlewareVerifiesExtractedToken : Bool := true\n"
        body += "-- one verifier instance (token_verifier.rs): fields of `struct SnapTokenVerifier` (name, type), receiver of `verify`\n"
        spair = lambda p: f"({lean_str(p[0])}, {lean_str(p[1])})"
        body += f"def verifierFields : List (String × String) := {lean_list(ver_fields, spair)}\n"
        body += f"def verifyReceiver : String := {lean_str(verify_receiver)}\n"
        body += "end ScionVerif.Generated.Token\n"
        vals = {"jsonwebtoken": jwt_ver, "algorithms": cfg["algorithms"], "required_spec_claims": cfg["required"],
                "leeway": cfg["leeway"], "reject_tokens_expiring_in_less_than": cfg["reject_tokens_expiring_in_less_than"],
                "validate_exp": cfg["validate_exp"], "validate_nbf": cfg["validate_nbf"], "validate_aud": cfg["validate_aud"],
                "aud": cfg["aud"], "iss": cfg["iss"], "sub": cfg["sub"], "known_algorithms": algs,
                "checkable_spec_claims": checkable, "v1_tag": v1_tag, "v0_fields": lf0, "v1_fields": lf1,
                "v0_required": r0, "v1_required": r1, "v1_flatten_private_claims": flat1, "exp_unit_ns": u0,
                "handler_lifetime": "exp_time().duration_since(SystemTime::now())", "handler_register_calls": 1, "handler_key": "jti", "bearer_prefix": bearer_prefix,
                "verifier_fields": ver_fields, "verify_receiver": verify_receiver}
        srcs = [rel_tv, rel_lib, rel_v0, rel_v1, rel_crpc, rel_auth, f"jsonwebtoken-{jwt_ver}/src/validation.rs", f"jsonwebtoken-{jwt_ver}/src/algorithms.rs"]
        return api.write_lean("Token", body, srcs), vals
