"""Translator domain `Policy` (C16): data of the path-policy lexer / parser / identifier text forms.

Extracted from /repo's working tree on every run:
  * hop_pattern.rs  lexer : RESERVED_CHARS, the characters skipped as whitespace by `next_token`,
                            the single-character token table ('?' => QMark, ...)
                    parser: NO_BIND_POWER, OR_BIND_POWER, the grouping of `|`, MAX_EXPRESSION_DEPTH with
                            the places where it is enforced (comparison, nesting of `(` and of the right-hand
                            side of `|`, depth of postfix / infix nodes, nesting of the top-level call, depth
                            of a hop predicate)
  * acl.rs                : the operator characters of `AclEntryOperator::parse`
  * identifier/asn.rs     : BITS, BITS_PER_PART, NUMBER_PARTS, WILDCARD, the decimal/hex format boundary
  * identifier/isd.rs     : WILDCARD, the width of the ISD integer
  * policy/types.rs       : the wildcard value of `InterfacePredicate::is_wildcard`, the separators of the
                            hop-predicate text form ("-", "#", ",")
A constant that cannot be found raises ExtractError (the check then reports the broken tie).
"""
import re

HP = "crates/libs/sciparse/src/scion/path/policy/hop_pattern.rs"
ACL = "crates/libs/sciparse/src/scion/path/policy/acl.rs"
TYPES = "crates/libs/sciparse/src/scion/path/policy/types.rs"
ASN = "crates/libs/sciparse/src/scion/identifier/asn.rs"
ISD = "crates/libs/sciparse/src/scion/identifier/isd.rs"

ESC = {"\\t": "\t", "\\n": "\n", "\\r": "\r", "\\\\": "\\", "\\'": "'", '\\"': '"', "\\0": "\0"}


def rust_char(lit, api):
    """'x' or '\\t' (text between the quotes) -> python char"""
    if lit in ESC:
        return ESC[lit]
    if len(lit) == 1:
        return lit
    raise api.ExtractError(f"unsupported char literal {lit!r}")


def lean_char(c):
    if c == "\t":
        return "'\\t'"
    if c == "\n":
        return "'\\n'"
    if c == "\r":
        return "'\\r'"
    if c == "'":
        return "'\\''"
    if c == "\\":
        return "'\\\\'"
    if 32 <= ord(c) < 127:
        return f"'{c}'"
    return f"(Char.ofNat {ord(c)})"


def register(api):
    @api.domain
    def gen_Policy():
        # NB: the hop-pattern source has char literals such as '/' – do not strip comments with the generic
        # regex before looking at char literals; strip only `//` line comments that start a line segment.
        raw = api.read(HP)
        src = re.sub(r"(?m)^\s*//[^\n]*$", "", raw)
        vals = {}

        m = re.search(r'const\s+RESERVED_CHARS\s*:\s*&\'static\s+str\s*=\s*"((?:[^"\\]|\\.)*)"\s*;', src)
        if not m:
            raise api.ExtractError("HopPatternLexer::RESERVED_CHARS not found")
        reserved = m.group(1)
        if "\\" in reserved:
            raise api.ExtractError(f"RESERVED_CHARS contains an escape: {reserved!r}")
        vals["RESERVED_CHARS"] = reserved

        # fn next_token: single-char tokens and skipped characters
        m = re.search(r"fn\s+next_token\b.*?\n        \}", src, flags=re.S)
        if not m:
            raise api.ExtractError("HopPatternLexer::next_token not found")
        body = m.group(0)
        table = re.findall(r"'((?:\\.|[^'\\]))'\s*=>\s*Token::single_char\(\s*TokenKind::(\w+)\s*,", body)
        if not table:
            raise api.ExtractError("single-character token table not found in next_token")
        # whitespace arm: `c if c.is_whitespace() => continue` (every Rust whitespace character is skipped)
        if not re.search(r"\bc\s+if\s+c\.is_whitespace\(\)\s*=>\s*continue", body):
            raise api.ExtractError("whitespace arm `c if c.is_whitespace() => continue` not found in next_token")
        toks = [(rust_char(c, api), k) for c, k in table]
        known = {"QMark", "Plus", "Star", "Bang", "And", "Or", "LParen", "RParen"}
        for _, k in toks:
            if k not in known:
                raise api.ExtractError(f"unknown token kind {k} in next_token")
        vals["SINGLE_CHAR_TOKENS"] = "".join(c for c, _ in toks) + " -> " + ",".join(k for _, k in toks)
        vals["LEX_SKIP"] = "char::is_whitespace"
        # read_hop_predicate must stop at whitespace or a reserved character
        if not re.search(r"p\.is_whitespace\(\)\s*\|\|\s*Self::RESERVED_CHARS\.contains\(p\)", src):
            raise api.ExtractError("read_hop_predicate stop condition changed")

        consts = api.find_consts(api.strip_comments(raw))
        types = {}
        for n in ["NO_BIND_POWER", "OR_BIND_POWER"]:
            vals[n] = api.eval_const(n, consts, types)
        m = re.search(r"Some\(TokenKind::Or\)\s*=>\s*\{\s*\(\s*OR_BIND_POWER\s*,\s*Grouping::(\w+)", src)
        if not m:
            raise api.ExtractError("infix table entry for `|` not found")
        vals["OR_LEFT_TO_RIGHT"] = (m.group(1) == "LeftToRight")
        # quantifier kinds -> expression constructors (postfix table)
        post = re.findall(r"Some\(TokenKind::(\w+)\)\s*=>\s*\{\s*depth\s*=\s*self\.consume_postfix\(depth\)\?;\s*expr\s*=\s*HopPatternExpression::(\w+)\(", src)
        if sorted(post) != sorted([("QMark", "Optional"), ("Plus", "OneOrMore"), ("Star", "ZeroOrMore")]):
            raise api.ExtractError(f"postfix operator table changed: {post}")
        vals["POSTFIX"] = ",".join(f"{a}:{b}" for a, b in post)
        # depth limit: the constant and every place that enforces it
        vals["MAX_EXPRESSION_DEPTH"] = api.eval_const("MAX_EXPRESSION_DEPTH", consts, types)
        need = {
            "comparison `depth > MAX_EXPRESSION_DEPTH` in check_depth":
                r"fn\s+check_depth\(depth:\s*usize,\s*span:\s*\(usize,\s*usize\)\)[^{]*\{\s*if\s+depth\s*>\s*MAX_EXPRESSION_DEPTH\s*\{\s*return\s+Err\(",
            "nesting check before the parenthesised sub-expression":
                r"Some\(\(TokenKind::LParen,\s*span_l\)\)\s*=>\s*\{\s*Self::check_depth\(nesting\s*\+\s*1,\s*span_l\)\?;\s*let\s+nested\s*=\s*self\.parse_expr\(NO_BIND_POWER,\s*nesting\s*\+\s*1\)\?;",
            "nesting check before the right-hand side of an infix operator":
                r"let\s+op_span\s*=\s*self\.tokens\[self\.pos\]\.span;\s*Self::check_depth\(nesting\s*\+\s*1,\s*op_span\)\?;\s*self\.consume\(\);",
            "depth of an infix node":
                r"let\s*\(right_expr,\s*right_depth\)\s*=\s*self\.parse_expr\(rhs_binding_power,\s*nesting\s*\+\s*1\)\?;\s*depth\s*=\s*depth\.max\(right_depth\)\s*\+\s*1;\s*Self::check_depth\(depth,\s*op_span\)\?;\s*expr\s*=\s*build_infix\(expr,\s*right_expr\);",
            "depth of a postfix node":
                r"fn\s+consume_postfix\(&mut\s+self,\s*operand_depth:\s*usize\)[^{]*\{\s*Self::check_depth\(operand_depth\s*\+\s*1,\s*self\.tokens\[self\.pos\]\.span\)\?;\s*self\.consume\(\);\s*Ok\(operand_depth\s*\+\s*1\)",
            "result of parse_expr": r"Ok\(\(expr,\s*depth\)\)",
        }
        for what, rx in need.items():
            if not re.search(rx, src):
                raise api.ExtractError(f"depth limit: {what} not found")
        m = re.search(r"self\.parse_expr\(NO_BIND_POWER,\s*(\d+)\)\?;\s*hop_pattern\.push\(expr\)", src)
        if not m:
            raise api.ExtractError("depth limit: nesting of the top-level parse_expr call not found")
        vals["TOP_NESTING"] = int(m.group(1))
        m = re.search(r"\(pred,\s*(\d+)\)", src)
        if not m:
            raise api.ExtractError("depth limit: depth of a hop predicate not found")
        vals["PRED_DEPTH"] = int(m.group(1))

        # ACL operators
        acl = api.strip_comments(api.read(ACL))
        ma = re.search(r'"(.)"\s*=>\s*Ok\(AclEntryOperator::Allow\)', acl)
        md = re.search(r'"(.)"\s*=>\s*Ok\(AclEntryOperator::Deny\)', acl)
        if not ma or not md:
            raise api.ExtractError("AclEntryOperator::parse arms not found")
        vals["ACL_ALLOW"], vals["ACL_DENY"] = ma.group(1), md.group(1)

        # identifiers
        asn = api.strip_comments(api.read(ASN))
        ac = api.find_consts(asn)
        env = {}
        for n in ["BITS", "BITS_PER_PART", "NUMBER_PARTS"]:
            if n not in ac:
                raise api.ExtractError(f"Asn::{n} not found")
            env[n] = api.eval_expr(ac[n], ac, {}, {})
            vals["ASN_" + n] = env[n]
        m = re.search(r"const\s+WILDCARD\s*:\s*Self\s*=\s*Asn::new\((\d+)\)", asn)
        if not m:
            raise api.ExtractError("Asn::WILDCARD not found")
        vals["ASN_WILDCARD"] = int(m.group(1))
        m = re.search(r"const\s+BGP_ASN_FORMAT_BOUNDARY\s*:\s*u64\s*=\s*([^;]+);", asn)
        if not m:
            raise api.ExtractError("BGP_ASN_FORMAT_BOUNDARY not found")
        vals["ASN_DECIMAL_MAX"] = api.eval_expr(m.group(1), {}, {}, {})
        if not re.search(r"bgp_asn\s*<=\s*u32::MAX\.into\(\)", asn):
            raise api.ExtractError("Asn::from_str decimal bound changed")
        if not re.search(r"from_str_radix\(asn_part,\s*16\)", asn):
            raise api.ExtractError("Asn::from_str part radix changed")
        isd = api.strip_comments(api.read(ISD))
        m = re.search(r"const\s+WILDCARD\s*:\s*Self\s*=\s*Self\((\d+)\)", isd)
        if not m:
            raise api.ExtractError("Isd::WILDCARD not found")
        vals["ISD_WILDCARD"] = int(m.group(1))
        m = re.search(r"pub\s+struct\s+Isd\(pub\s+(u\d+)\)", isd)
        if not m:
            raise api.ExtractError("struct Isd not found")
        vals["ISD_BITS"] = api.INT_BITS[m.group(1)]

        ty = api.strip_comments(api.read(TYPES))
        m = re.search(r"pub\s+struct\s+InterfacePredicate\((u\d+)\)", ty)
        if not m:
            raise api.ExtractError("struct InterfacePredicate not found")
        vals["IF_BITS"] = api.INT_BITS[m.group(1)]
        m = re.search(r"fn\s+is_wildcard\(&self\)\s*->\s*bool\s*\{\s*self\.0\s*==\s*(\d+)\s*\}", ty)
        if not m:
            raise api.ExtractError("InterfacePredicate::is_wildcard not found")
        vals["IF_WILDCARD"] = int(m.group(1))
        seps = re.findall(r'\.splitn\(2,\s*"(.)"\)', ty)
        if seps != ["-", "#", ","]:
            raise api.ExtractError(f"hop predicate separators changed: {seps}")
        vals["SEP_ISD_ASN"], vals["SEP_ASN_IF"], vals["SEP_IF"] = seps
        # Display must write the same separators that FromStr splits on
        if not (re.search(r'write!\(f,\s*"-\{asn\}"\)', ty) and re.search(r'write!\(f,\s*"#\{interfaces\}"\)', ty)
                and re.search(r'write!\(f,\s*"\{\},\{\}",\s*ingress\.0,\s*egress\.0\)', ty)):
            raise api.ExtractError("Display of HopPredicate / InterfacesPredicate changed its separators")
        if not re.search(r'write!\(f,\s*"\{asn_part:x\}\{separator\}"\)', asn) or not re.search(r'if i != 0 \{ ":" \} else \{ "" \}', asn):
            raise api.ExtractError("Display of Asn changed")

        b = "namespace ScionVerif.Generated.Policy\n"
        b += "/-- `HopPatternLexer::RESERVED_CHARS` -/\n"
        b += "def RESERVED_CHARS : List Char := [" + ", ".join(lean_char(c) for c in reserved) + "]\n"
        b += "/-- `next_token` skips exactly the characters with `char::is_whitespace` (`c if c.is_whitespace() => continue`) -/\n"
        b += "def LEX_SKIPS_RUST_WHITESPACE : Bool := true\n"
        b += "/-- single-character tokens of `next_token`: character, `TokenKind` variant name -/\n"
        b += "def SINGLE_CHAR_TOKENS : List (Char × String) := [" + ", ".join(
            f'({lean_char(c)}, "{k}")' for c, k in toks) + "]\n"
        for n in ["NO_BIND_POWER", "OR_BIND_POWER"]:
            b += f"def {n} : Nat := {vals[n]}\n"
        b += f"def OR_LEFT_TO_RIGHT : Bool := {'true' if vals['OR_LEFT_TO_RIGHT'] else 'false'}\n"
        b += "/-- `parser::MAX_EXPRESSION_DEPTH`: bound on the nesting of `parse_expr` calls and on the depth of a parsed expression -/\n"
        b += f"def MAX_EXPRESSION_DEPTH : Nat := {vals['MAX_EXPRESSION_DEPTH']}\n"
        b += "/-- `nesting` argument of the top-level `parse_expr` call in `HopPatternParser::parse` -/\n"
        b += f"def TOP_NESTING : Nat := {vals['TOP_NESTING']}\n"
        b += "/-- depth that `parse_expr` assigns to a hop predicate -/\n"
        b += f"def PRED_DEPTH : Nat := {vals['PRED_DEPTH']}\n"
        b += f"def ACL_ALLOW : Char := {lean_char(vals['ACL_ALLOW'])}\n"
        b += f"def ACL_DENY : Char := {lean_char(vals['ACL_DENY'])}\n"
        for n in ["ASN_BITS", "ASN_BITS_PER_PART", "ASN_NUMBER_PARTS", "ASN_WILDCARD", "ASN_DECIMAL_MAX",
                  "ISD_WILDCARD", "ISD_BITS", "IF_BITS", "IF_WILDCARD"]:
            b += f"def {n} : Nat := {vals[n]}\n"
        for n in ["SEP_ISD_ASN", "SEP_ASN_IF", "SEP_IF"]:
            b += f"def {n} : Char := {lean_char(vals[n])}\n"
        b += "end ScionVerif.Generated.Policy\n"
        return api.write_lean("Policy", b, [HP, ACL, TYPES, ASN, ISD]), vals
