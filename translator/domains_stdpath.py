"""Translator domain `StdPath` (C11, C12): bit ranges and sizes of the standard-path meta header, info
field, hop field and of the one-hop path, the segment/hop limits, the flag bits and the expiry unit —
all re-read from the Rust source of /repo's working tree on every run."""
import re

STD_LAYOUT = "crates/libs/sciparse/src/proto/dataplane_path/standard/layout.rs"
STD_TYPES = "crates/libs/sciparse/src/proto/dataplane_path/standard/types.rs"
OH_LAYOUT = "crates/libs/sciparse/src/proto/dataplane_path/onehop/layout.rs"
HDR_LAYOUT = "crates/libs/sciparse/src/proto/header/layout.rs"
PATH_LAYOUT = "crates/libs/sciparse/src/proto/dataplane_path/layout.rs"


def impl_blocks(src, name):
    """concatenated bodies of every `impl <name> {…}` block (brace matched)"""
    out = []
    for m in re.finditer(r"\bimpl\s+" + re.escape(name) + r"\s*\{", src):
        i = m.end()
        depth = 1
        while i < len(src) and depth:
            c = src[i]
            if c == "{":
                depth += 1
            elif c == "}":
                depth -= 1
            i += 1
        out.append(src[m.end():i - 1])
    return "\n".join(out)


DP = "crates/libs/sciparse/src/proto/dataplane_path/"
EFFECT_FUNCTIONS = [
    ("EFFECTS_INGRESS", DP + "standard/routing.rs", "advance_ingress_with_validator"),
    ("EFFECTS_EGRESS", DP + "standard/routing.rs", "advance_egress_with_validator"),
    ("EFFECTS_VIEW_TRY_REVERSE", DP + "standard/view.rs", "try_reverse"),
    ("EFFECTS_MODEL_TRY_REVERSE", DP + "standard/model.rs", "try_reverse"),
    ("EFFECTS_ONEHOP_VIEW_TRY_REVERSE", DP + "onehop/view.rs", "try_reverse"),
    ("EFFECTS_ONEHOP_MODEL_TRY_REVERSE", DP + "onehop/model.rs", "try_reverse"),
    ("EFFECTS_SCIONPATH_TRY_REVERSE", "crates/libs/sciparse/src/scion/path.rs", "try_reverse"),
]

EFFECT_PATTERNS = [
    ("exit", r"\?"),
    ("exit", r"\breturn\s+Err\b"),
    ("panic", r"\.\s*expect\s*\("),
    ("panic", r"\.\s*unwrap\s*\(\s*\)"),
    ("panic", r"\bunreachable!\s*\("),
    ("panic", r"\bdebug_assert(?:_eq|_ne)?!\s*\("),
    ("panic", r"\bassert(?:_eq|_ne)?!\s*\("),
    ("panic", r"\bpanic!\s*\("),
    # writes through the receiver
    ("write:{1}", r"\bself\s*\.\s*(set_\w+)\s*\("),
    ("write:{1}", r"\bself\s*\.\s*(\w+_mut|mut_\w+)\s*\("),
    ("write:{1}", r"\bself\s*\.\s*((?:\w+\s*\.\s*)*\w+)\s*(?:\^|\+|-|\|)?=(?!=)"),
    ("write:{1}", r"\bself\s*\.\s*((?:\w+\s*\.\s*)*(?:reverse|swap|iter_mut|as_mut|push|clear|toggle|remove|insert))\s*\("),
    ("write:mem_swap", r"\bstd::mem::swap\s*\("),
    ("write:self", r"\*\s*self\s*=(?!=)"),
]


def fn_body(api, src, fn):
    m = re.search(r"\bfn\s+" + re.escape(fn) + r"\b", src)
    if not m:
        raise api.ExtractError(f"fn {fn} not found")
    i = src.index("{", m.end())
    depth, j = 1, i + 1
    while j < len(src) and depth:
        if src[j] == "{":
            depth += 1
        elif src[j] == "}":
            depth -= 1
        j += 1
    if depth:
        raise api.ExtractError(f"fn {fn}: unbalanced braces")
    return src[i + 1:j - 1]


def effects_of(api, path, fn):
    src = api.strip_comments(api.read(path))
    body = fn_body(api, src, fn)
    body = re.sub(r'"(?:[^"\\]|\\.)*"', '""', body)      # string literals may contain `?`
    if re.search(r"\b(?:loop|while)\b", body):
        raise api.ExtractError(f"fn {fn} contains a loop/while: source order of effects is no longer execution order")
    evs = []
    for tag, pat in EFFECT_PATTERNS:
        for m in re.finditer(pat, body):
            name = tag.replace("{1}", re.sub(r"\s+", "", m.group(1))) if "{1}" in tag else tag
            evs.append((m.start(), name))
    # `for` loops are allowed only after the last exit (they toggle / reverse fields)
    exits = [p for p, n in evs if n == "exit"]
    for m in re.finditer(r"\bfor\b", body):
        if exits and m.start() < max(exits):
            raise api.ExtractError(f"fn {fn}: a `for` loop precedes an early exit")
    evs.sort()
    out, last = [], None
    for pos, name in evs:
        if (pos, name) != last:
            out.append(name)
        last = (pos, name)
    if not out:
        raise api.ExtractError(f"fn {fn}: no effects found")
    return out


def register(api):
    def ranges_of(src, struct, want, extra_env=None):
        body = impl_blocks(src, struct)
        if not body:
            raise api.ExtractError(f"impl {struct} not found")
        consts = api.find_consts(body)
        env = dict(extra_env or {})
        found = {}
        for m in re.finditer(r"gen_bitrange_const!\(\s*([A-Z_0-9]+)\s*,\s*([^,]+?)\s*,\s*([^)]+?)\s*\)\s*;", body, flags=re.S):
            name, s_e, w_e = m.group(1), m.group(2), m.group(3)

            def ev(e):
                e = re.sub(r"\bSelf::([A-Z_0-9]+)\.end\b", lambda mm: str(found[mm.group(1)][0] + found[mm.group(1)][1])
                           if mm.group(1) in found else mm.group(0), e)
                e = re.sub(r"\bSelf::", "", e)
                return api.eval_expr(e, consts, {}, env)
            try:
                found[name] = (ev(s_e), ev(w_e))
            except KeyError as ex:
                raise api.ExtractError(f"{struct}::{name}: {ex}")
        for w in want:
            if w not in found:
                raise api.ExtractError(f"{struct}::{w} (gen_bitrange_const!) not found")
        return found, consts, env

    def size_bytes(found, consts, struct):
        # pub const SIZE_BYTES: usize = Self::TOTAL_RNG.end / 8;
        e = consts.get("SIZE_BYTES")
        if e is None:
            raise api.ExtractError(f"{struct}::SIZE_BYTES not found")
        m = re.fullmatch(r"Self::([A-Z_0-9]+)\.end\s*/\s*8", e)
        if not m or m.group(1) not in found:
            raise api.ExtractError(f"{struct}::SIZE_BYTES has unexpected form {e!r}")
        s, w = found[m.group(1)]
        return (s + w) // 8

    @api.domain
    def gen_StdPath():
        src = api.strip_comments(api.read(STD_LAYOUT))
        vals = {}
        lines = []

        def emit(k, v):
            vals[k] = v
            lines.append(f"def {k} : Nat := {v}")

        meta, mc, _ = ranges_of(src, "StdPathMetaLayout",
                                ["CURR_INFO_FIELD_RNG", "CURR_HOP_FIELD_RNG", "RSV_RNG", "SEG0_LEN_RNG", "SEG1_LEN_RNG",
                                 "SEG2_LEN_RNG", "TOTAL_RNG"])
        for n in ["CURR_INFO_FIELD", "CURR_HOP_FIELD", "RSV", "SEG0_LEN", "SEG1_LEN", "SEG2_LEN", "TOTAL"]:
            s, w = meta[n + "_RNG"]
            emit(f"META_{n}_START", s)
            emit(f"META_{n}_WIDTH", w)
        emit("META_SIZE_BYTES", size_bytes(meta, mc, "StdPathMetaLayout"))
        for n in ["MAX_SEGMENTS", "MAX_SEGMENT_HOPS", "MAX_TOTAL_HOPS"]:
            emit(n, api.eval_const(n, mc, {}))

        info, ic, _ = ranges_of(src, "InfoFieldLayout", ["FLAGS_RNG", "RSV_RNG", "SEGMENT_ID_RNG", "TIMESTAMP_RNG", "TOTAL_RNG"])
        for n in ["FLAGS", "RSV", "SEGMENT_ID", "TIMESTAMP", "TOTAL"]:
            s, w = info[n + "_RNG"]
            emit(f"INFO_{n}_START", s)
            emit(f"INFO_{n}_WIDTH", w)
        info_size = size_bytes(info, ic, "InfoFieldLayout")
        emit("INFO_SIZE_BYTES", info_size)

        hop, hc, _ = ranges_of(src, "HopFieldLayout", ["FLAGS_RNG", "EXP_TIME_RNG", "CONS_INGRESS_RNG", "CONS_EGRESS_RNG", "MAC_RNG", "TOTAL_RNG"])
        for n in ["FLAGS", "EXP_TIME", "CONS_INGRESS", "CONS_EGRESS", "MAC", "TOTAL"]:
            s, w = hop[n + "_RNG"]
            emit(f"HOP_{n}_START", s)
            emit(f"HOP_{n}_WIDTH", w)
        hop_size = size_bytes(hop, hc, "HopFieldLayout")
        emit("HOP_SIZE_BYTES", hop_size)

        # one-hop path layout: INFO_FIELD, HOP_FIELD_1, HOP_FIELD_2 (expressed through the sizes above)
        osrc = api.strip_comments(api.read(OH_LAYOUT))
        osrc = re.sub(r"\bInfoFieldLayout::SIZE_BYTES\b", str(info_size), osrc)
        osrc = re.sub(r"\bHopFieldLayout::SIZE_BYTES\b", str(hop_size), osrc)
        ob = impl_blocks(osrc, "OneHopPathLayout")
        oc = api.find_consts(ob)
        if "SIZE_BYTES" not in oc:
            raise api.ExtractError("OneHopPathLayout::SIZE_BYTES not found")
        oh_size = api.eval_expr(oc["SIZE_BYTES"], oc, {}, {})
        oh, _, _ = ranges_of(osrc, "OneHopPathLayout", ["INFO_FIELD", "HOP_FIELD_1", "HOP_FIELD_2", "TOTAL"],
                             {"SIZE_BYTES": oh_size})
        emit("ONEHOP_SIZE_BYTES", oh_size)
        for n in ["INFO_FIELD", "HOP_FIELD_1", "HOP_FIELD_2", "TOTAL"]:
            s, w = oh[n]
            emit(f"ONEHOP_{n}_START", s)
            emit(f"ONEHOP_{n}_WIDTH", w)

        # flag bits and the expiry unit
        tsrc = api.strip_comments(api.read(STD_TYPES))
        for n, k in [("CONS_DIR", "INFO_FLAG_CONS_DIR"), ("PEERING", "INFO_FLAG_PEERING"),
                     ("CONS_EGRESS_ROUTER_ALERT", "HOP_FLAG_CONS_EGRESS_ROUTER_ALERT"),
                     ("CONS_INGRESS_ROUTER_ALERT", "HOP_FLAG_CONS_INGRESS_ROUTER_ALERT")]:
            m = re.search(r"\bconst\s+" + n + r"\s*=\s*(0b[01_]+|0x[0-9a-fA-F_]+|\d+)\s*;", tsrc)
            if not m:
                raise api.ExtractError(f"flag {n} not found in types.rs")
            emit(k, int(m.group(1).replace("_", ""), 0))
        m = re.search(r"EXP_TIME_UNIT\s*:\s*Duration\s*=\s*Duration::new\(\s*([\d_]+)\s*,\s*([\d_]+)\s*\)", tsrc)
        if not m:
            raise api.ExtractError("EXP_TIME_UNIT not found")
        secs, nanos = int(m.group(1).replace("_", "")), int(m.group(2).replace("_", ""))
        if nanos % 1_000_000:
            raise api.ExtractError("EXP_TIME_UNIT is not a whole number of milliseconds")
        emit("EXP_TIME_UNIT_MS", secs * 1000 + nanos // 1_000_000)
        if not re.search(r"EXP_TIME_UNIT\.saturating_mul\(\s*exp_time as u32 \+ 1\s*\)", tsrc):
            raise api.ExtractError("exp_time_to_duration no longer is EXP_TIME_UNIT * (exp_time + 1)")

        # maximum encodable path size = max header - common header - min address header
        hsrc = api.strip_comments(api.read(HDR_LAYOUT))
        sh = api.find_consts(impl_blocks(hsrc, "ScionHeaderLayout"))
        ch, chc, _ = ranges_of(hsrc, "CommonHeaderLayout", ["TOTAL_RNG"])
        ah = api.find_consts(impl_blocks(hsrc, "AddressHeaderLayout"))
        psrc = api.strip_comments(api.read(PATH_LAYOUT))
        if not re.search(r"MAX_SIZE_BYTES\s*:\s*usize\s*=\s*ScionHeaderLayout::MAX_SIZE_BYTES\s*-\s*CommonHeaderLayout::SIZE_BYTES\s*-\s*AddressHeaderLayout::MIN_SIZE_BYTES", psrc):
            raise api.ExtractError("ScionHeaderPathLayout::MAX_SIZE_BYTES has unexpected form")
        emit("PATH_MAX_SIZE_BYTES", api.eval_const("MAX_SIZE_BYTES", sh, {}) - size_bytes(ch, chc, "CommonHeaderLayout")
             - api.eval_const("MIN_SIZE_BYTES", ah, {}))

        # ---- order of effects of the mutating functions (C11/C12 failure atomicity) -------------------
        # For every modelled `&mut self` function: the source order of its early exits (`?`, `return Err`), its
        # panic sites (`expect`, `unwrap`, `unreachable!`, `debug_assert!`, `panic!`, `assert!`) and its writes
        # through the receiver.  The bodies are loop-free w.r.t. these events (the only loops toggle/reverse
        # fields after the last exit), so source order = execution order on every path.
        for const, path, fn in EFFECT_FUNCTIONS:
            evs = effects_of(api, path, fn)
            vals[const] = evs
            lines.append(f"def {const} : List String := [" + ", ".join('"' + e + '"' for e in evs) + "]")

        body = "namespace ScionVerif.Generated.StdPath\n" + "\n".join(lines) + "\nend ScionVerif.Generated.StdPath\n"
        return api.write_lean("StdPath", body, [STD_LAYOUT, STD_TYPES, OH_LAYOUT, HDR_LAYOUT, PATH_LAYOUT]
                              + sorted({p for _, p, _ in EFFECT_FUNCTIONS})), vals
