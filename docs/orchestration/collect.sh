#!/usr/bin/env bash
# collect.sh ID NAME CRATE TEST [extra cargo args]
id=$1; name=$2; crate=$3; t=$4; shift 4; extra="$@"
mkdir -p /verif/seeded/$name && cp /tmp/seed${R:-2}-$id/seed-out/patch.diff /tmp/seed${R:-2}-$id/seed-out/meta.json /verif/seeded/$name/ && cp -r /tmp/seed${R:-2}-$id/seed-out/demo /verif/seeded/$name/
cd /tmp/seed${R:-2}-$id
a=$(CARGO_NET_OFFLINE=true cargo test -p $crate --offline $extra --test $t 2>&1 | grep "test result" | head -1)
git apply -R seed-out/patch.diff
b=$(CARGO_NET_OFFLINE=true cargo test -p $crate --offline $extra --test $t 2>&1 | grep "test result" | head -1)
git apply seed-out/patch.diff
c=$(CARGO_NET_OFFLINE=true cargo test -p $crate --offline --lib 2>&1 | grep "test result" | head -1)
echo "$name | with: $a | without: $b | lib with: $c"
python3 - "$name" "with patch: $a / without: $b / crate lib tests with patch: $c" <<'PY'
import json,sys
p=f'/verif/seeded/{sys.argv[1]}/meta.json'; m=json.load(open(p)); m['confirmed_by_main_session']=sys.argv[2]; json.dump(m,open(p,'w'),indent=1)
PY
cd /verif; git -C /repo worktree remove --force /tmp/seed${R:-2}-$id
