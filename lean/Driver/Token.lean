import Driver.Common
import ScionVerif.Model.Token
/-! line-protocol driver for the SNAP token verifier model (C10)

```
cfg                                             -> cfg <alg,..> <required,..> <leeway> <rejectIn> <exp> <nbf> <audOn> <aud|-> <iss|-> <sub|->
v <now> K<static> E<id,..> J-|J<hexkid>=<id>;.. A<hexalg> N|S<hexkid> B|G<id,..> PB|PJ|PN|PO <hexname>=<val> ...
                                                -> ok <ver> <exp> | err <label>
   (J: the served JWKS document in order, `~=<id>` = an entry without kid; the store content is `storeOfDocument`)
life <exp> <nowNs>                              -> some <ns> | none | panic
bearer <hex of the Authorization header value>  -> some <hex token> | none
uuid <hex> / pssid1 <hex>                       -> true | false
```
claim values: `n` null, `t`/`f` bool, `u<dec>` u64, `i` negative integer, `d<dec>` float that rounds to that
u64, `x` other float, `s<hex>` string, `a<hex>,<hex>..` array of strings (`a` = empty), `m` other array, `o` non-empty object, `e` empty object.
-/
open ScionVerif.Token Driver

def strOfHex (h : String) : Option String :=
  match parseHex h with
  | some bs => String.fromUTF8? (ByteArray.mk bs.toArray)
  | none => none

def natList (s : String) : Option (List Nat) :=
  if s.isEmpty then some [] else (s.splitOn ",").mapM (·.toNat?)

def errLabel : Err → String
  | .header => "header"
  | .unknownKid => "unknown_kid"
  | .invalidAlgorithm => "invalid_algorithm"
  | .invalidKeyFormat => "invalid_key_format"
  | .base64 => "base64"
  | .invalidSignature => "invalid_signature"
  | .json => "json"
  | .missingRequiredClaim => "missing_required_claim"
  | .invalidClaimFormat => "invalid_claim_format"
  | .invalidToken => "invalid_token"
  | .expired => "expired"
  | .immature => "immature"
  | .invalidSubject => "invalid_subject"
  | .invalidIssuer => "invalid_issuer"
  | .invalidAudience => "invalid_audience"
  | .panic => "panic"

def parseVal (s : String) : Option JVal :=
  match s.toList with
  | ['n'] => some .null
  | ['t'] => some (.bool true)
  | ['f'] => some (.bool false)
  | ['i'] => some (.num .neg)
  | ['x'] => some (.num (.float none))
  | ['m'] => some .arr
  | ['o'] => some (.obj false)
  | ['e'] => some (.obj true)
  | 'u' :: r => (String.ofList r).toNat?.map (fun n => .num (.u64 n))
  | 'd' :: r => (String.ofList r).toNat?.map (fun n => .num (.float (some n)))
  | 's' :: r => (strOfHex (String.ofList r)).map .str
  | 'a' :: r =>
    if r.isEmpty then some (.strs [])
    else ((String.ofList r).splitOn ",").mapM strOfHex |>.map .strs
  | _ => none

def parseClaim (w : String) : Option (String × JVal) :=
  match w.splitOn "=" with
  | [k, v] => do
    let k ← strOfHex k
    let v ← parseVal v
    pure (k, v)
  | _ => none

def parseJwks (s : String) : Option (Option (List (String × KeyId))) :=
  if s == "-" then some none
  else if s.isEmpty then some (some [])
  else
    ((s.splitOn ";").mapM (fun (e : String) =>
      match e.splitOn "=" with
      | [k, v] => do
        let k ← (if k == "~" then some none else (strOfHex k).map some)
        let v ← v.toNat?
        pure (k, v)
      | _ => none)).map (fun doc => some (storeOfDocument doc))

def parsePayload (kind : String) (claims : List String) : Option Payload :=
  match kind, claims with
  | "PB", [] => some .badB64
  | "PJ", [] => some .badJson
  | "PN", [] => some .nonObj
  | "PO", cs => (cs.mapM parseClaim).map .obj
  | _, _ => none

def dropPrefix (c : Char) (s : String) : Option String :=
  match s.toList with
  | c' :: r => if c == c' then some (String.ofList r) else none
  | [] => none

def doVerify (now keyW edW jwksW algW kidW sigW payW : String) (claims : List String) : Option String := do
  let now ← now.toNat?
  let static ← (← dropPrefix 'K' keyW).toNat?
  let eds ← natList (← dropPrefix 'E' edW)
  let jwks ← parseJwks (← dropPrefix 'J' jwksW)
  let alg ← strOfHex (← dropPrefix 'A' algW)
  let kid ← (if kidW == "N" then some none else (dropPrefix 'S' kidW).bind (fun h => (strOfHex h).map some))
  let (sigB64, oks) ← (if sigW == "B" then some (false, []) else
    (dropPrefix 'G' sigW).bind (fun l => (natList l).map (fun l => (true, l))))
  let payload ← parsePayload payW claims
  let keys : Keys := { static := static, jwks := jwks, edKey := fun k => eds.contains k }
  let t : ParsedToken := { alg := alg, kid := kid, sigB64 := sigB64, sigOkUnder := fun k => oks.contains k, payload := payload }
  match verify generatedValidation keys t now with
  | .ok c => pure s!"ok {c.ver} {c.exp}"
  | .error e => pure s!"err {errLabel e}"

def optList (l : Option (List String)) : String :=
  match l with
  | none => "-"
  | some xs => "[" ++ ",".intercalate xs ++ "]"

def step (st : Unit) : List String → Unit × String
  | ["cfg"] =>
    let c := generatedValidation
    (st, s!"cfg {",".intercalate c.algorithms} {",".intercalate c.requiredSpecClaims} {c.leeway} {c.rejectExpiringIn} {c.validateExp} {c.validateNbf} {c.validateAud} {optList c.aud} {optList c.iss} {optList (c.sub.map (fun s => [s]))}")
  | "v" :: now :: keyW :: edW :: jwksW :: algW :: kidW :: sigW :: payW :: claims =>
    match doVerify now keyW edW jwksW algW kidW sigW payW claims with
    | some r => (st, r)
    | none => (st, "bad-op")
  | ["life", e, n] =>
    match e.toNat?, n.toNat? with
    | some e, some n =>
      match lifetime e n with
      | .granted d => (st, s!"some {d}")
      | .past => (st, "none")
      | .panic => (st, "panic")
    | _, _ => (st, "bad-op")
  | ["bearer", h] =>
    match strOfHex h with
    | some v =>
      match extractBearer v.toList with
      | some t => (st, "some " ++ toHex (String.ofList t).toUTF8.toList)
      | none => (st, "none")
    | none => (st, "bad-op")
  | ["uuid", h] =>
    match strOfHex h with
    | some s => (st, toString (uuidOk s))
    | none => (st, "bad-op")
  | ["pssid1", h] =>
    match strOfHex h with
    | some s => (st, toString (pssidV1Ok s))
    | none => (st, "bad-op")
  | _ => (st, "bad-op")

def main : IO Unit := Driver.run () step
