import Driver.Common
import ScionVerif.Model.PathSet
/-!
Line-protocol driver for the path-manager model (C05/C06/C07).

Tokens: a path is `fp:expiry:src:dst:ifaces:dpFirst:dpLast:verdicts` (`n` = none; ifaces = `n`, `e` (empty)
or `ia.id,ia.id,…`; `verdicts` = one `0`/`1` per attached policy in attachment order - what that single
policy says about this path, evaluated by the harness policy by policy - or `-` when no policy is attached;
the model's strategy predicate is `allowedAll` of these policies); path lists are
`;`-separated (`-` = empty); score maps are `fp=score,…` (`-` = empty, score = signed integer in units
of 2^-149); fingerprint lists are `fp,fp,…`.

Requests
  init t0 src dst maxCached refetchInterval minRefetchDelay minExpiryThreshold maxIdle issueCacheSize
       issueBroadcastSize dedupWindow swapThreshold backoffMax        → `ok valid=<0|1>`
  maintain now (ok <paths> | enp | eot) sc0 sc1 ord backoff           → state line
  report (xid ia if | icd ia in out | du routing (n|ia,in) | ptb | pp | fhu ia if) id ts → state line
  deliver now sc                                                       → state line
  send now                                                             → `cached=… path=… | state line`
  matches (if ia (n|in) out | fh ia if | lh ia if | fp x) path        → true | false
  hops path                                                            → none | ia.in.out,…
  backoff minD maxD fNum fDen jitter attempt                           → lo hi
-/
open ScionVerif.PathMgr ScionVerif.Generated.PathMgr Driver

structure DSt where
  env : Env := { cfg := defaultCfg, src := 0, dst := 0, allowed := fun _ => false }
  /-- per-policy verdicts of every path seen so far -/
  verdictTab : List (Path × List Bool) := []
  /-- number of attached policies (width of the verdict tokens) -/
  nPol : Nat := 0
  st : St := { nextRefetch := 0, nextIdle := 0 }
  ready : Bool := false

def optNat (s : String) : Option (Option Nat) :=
  if s == "n" then some none else s.toNat?.map some

def parseIface (s : String) : Option Iface :=
  match s.splitOn "." with
  | [a, b] => match a.toNat?, b.toNat? with
    | some x, some y => some ⟨x, y⟩
    | _, _ => none
  | _ => none

def allSome {α : Type} : List (Option α) → Option (List α)
  | [] => some []
  | none :: _ => none
  | some x :: xs => (allSome xs).map (x :: ·)

def parseIfaces (s : String) : Option (Option (List Iface)) :=
  if s == "n" then some none
  else if s == "e" then some (some [])
  else (allSome ((s.splitOn ",").map parseIface)).map some

def parseVerdicts (s : String) : Option (List Bool) :=
  if s == "-" then some []
  else if s.isEmpty then none
  else allSome (s.toList.map (fun c => if c == '1' then some true else if c == '0' then some false else none))

/-- path token → (path, per-policy verdicts) -/
def parsePath (s : String) : Option (Path × List Bool) :=
  match s.splitOn ":" with
  | [fp, ex, src, dst, ifs, f, l, a] =>
    match fp.toNat?, optNat ex, src.toNat?, dst.toNat?, parseIfaces ifs, optNat f, optNat l with
    | some fp, some ex, some src, some dst, some ifs, some f, some l =>
      (parseVerdicts a).map (fun v => (⟨fp, ex, src, dst, ifs, f, l⟩, v))
    | _, _, _, _, _, _, _ => none
  | _ => none

def parsePaths (s : String) : Option (List (Path × List Bool)) :=
  if s == "-" then some [] else allSome ((s.splitOn ";").map parsePath)

def parseInt (s : String) : Option Int :=
  if s.startsWith "-" then (s.drop 1).toNat?.map (fun n => -(n : Int)) else s.toNat?.map (fun n => (n : Int))

def parseScores (s : String) : Option (List (Nat × Int)) :=
  if s == "-" then some []
  else allSome ((s.splitOn ",").map (fun kv => match kv.splitOn "=" with
    | [k, v] => match k.toNat?, parseInt v with
      | some k, some v => some (k, v)
      | _, _ => none
    | _ => none))

def parseFps (s : String) : Option (List Nat) :=
  if s == "-" then some [] else allSome ((s.splitOn ",").map (·.toNat?))

def scoreFn (m : List (Nat × Int)) : Nat → Int := fun fp => ((m.find? (·.1 == fp)).map (·.2)).getD 0

def covers (m : List (Nat × Int)) (fps : List Nat) : Bool := fps.all (fun f => m.any (·.1 == f))

def fpExp (p : Path) : String :=
  s!"{p.fp}/" ++ (match p.expiry with | some e => toString e | none => "n")

def errStr : Option FetchErr → String
  | none => "n" | some .noPaths => "np" | some .other => "ot"

def b01 (b : Bool) : String := if b then "1" else "0"

def stateLine (s : St) : String :=
  let cached := if s.cached.isEmpty then "-" else ",".intercalate (s.cached.map fpExp)
  let act := match s.active with | some a => fpExp a | none => "n"
  s!"st {cached} a={act} nr={s.nextRefetch} ni={s.nextIdle} f={s.failed} init={b01 s.initialized} " ++
  s!"err={errStr s.err} ex={b01 s.exited} bad={b01 s.bad} pend={s.pending.length} " ++
  s!"ic={s.im.cache.length} if={s.im.fifo.length} used={b01 s.used}"

def handoutStr : Option Path → String
  | none => "none" | some p => "path:" ++ fpExp p

def pathResStr : PathRes → String
  | .ok p => "ok:" ++ fpExp p
  | .err .noPaths => "err:np" | .err .other => "err:ot" | .wait => "wait"

def parseTarget : List String → Option Target
  | ["if", ia, ing, eg] => match ia.toNat?, optNat ing, eg.toNat? with
    | some ia, some ing, some eg => some (.interface ia ing eg)
    | _, _, _ => none
  | ["fh", ia, i] => match ia.toNat?, i.toNat? with
    | some ia, some i => some (.firstHop ia i)
    | _, _ => none
  | ["lh", ia, i] => match ia.toNat?, i.toNat? with
    | some ia, some i => some (.lastHop ia i)
    | _, _ => none
  | ["fp", x] => x.toNat?.map .fullPath
  | _ => none

def parseKind : List String → Option Kind
  | ["xid", ia, i] => match ia.toNat?, i.toNat? with
    | some ia, some i => some (.extIfDown ia i)
    | _, _ => none
  | ["icd", ia, g, e] => match ia.toNat?, g.toNat?, e.toNat? with
    | some ia, some g, some e => some (.intConnDown ia g e)
    | _, _, _ => none
  | ["du", r, p] =>
    let routing := r == "1"
    if r != "0" && r != "1" then none
    else if p == "n" then some (.destUnreachable routing none)
    else match p.splitOn "," with
      | [a, b] => match a.toNat?, b.toNat? with
        | some a, some b => some (.destUnreachable routing (some (a, b)))
        | _, _ => none
      | _ => none
  | ["ptb"] => some .packetTooBig
  | ["pp"] => some .parameterProblem
  | ["fhu", ia, i] => match ia.toNat?, i.toNat? with
    | some ia, some i => some (.firstHopUnreachable ia i)
    | _, _ => none
  | _ => none

def hopsStr : Option (List Hop) → String
  | none => "none"
  | some hs => if hs.isEmpty then "-" else ",".intercalate (hs.map (fun h => s!"{h.ia}.{h.ingress}.{h.egress}"))

/-- the `i`-th attached policy as a predicate: its recorded verdict (a path never seen is rejected) -/
def policyOf (tab : List (Path × List Bool)) (i : Nat) : Path → Bool :=
  fun p => match tab.find? (·.1 == p) with
    | some e => e.2.getD i false
    | none => false

/-- records the verdicts; the strategy predicate is the conjunction of the attached policies.
    `none`: the tokens of one history do not all carry the same number of verdicts -/
def withAllowed (d : DSt) (ps : List (Path × List Bool)) : Option DSt :=
  let n := match d.verdictTab, ps with
    | e :: _, _ => e.2.length
    | [], pb :: _ => pb.2.length
    | [], [] => d.nPol
  if ps.any (fun pb => pb.2.length != n) then none else
  let tab := ps.foldl (fun t pb => if t.any (·.1 == pb.1) then t else pb :: t) d.verdictTab
  some { d with verdictTab := tab, nPol := n,
                env := { d.env with allowed := allowedAll ((List.range n).map (policyOf tab)) } }

def doMaintain (d : DSt) (now : Nat) (resp : Resp) (flags : List (Path × List Bool)) (sc0 sc1 : List (Nat × Int))
    (ord : List Nat) (backoff : Nat) : DSt × String :=
  let cachedFps := d.st.cached.map (·.fp)
  match withAllowed d flags with
  | none => (d, "bad-op verdict-width")
  | some d =>
  -- scores are needed for every cached entry and for every fetched path that can become a candidate
  let cand := match fetchFiltered d.env now resp with
    | .ok f => f.map (·.fp)
    | .error _ => []
  if !(covers sc0 cachedFps && covers sc1 cachedFps && covers sc1 cand) then
    (d, "bad-op missing-score")
  else
    let st := step d.env d.st (.maintain now resp (scoreFn sc0) (scoreFn sc1) ord backoff)
    ({ d with st := st }, stateLine st)

def dstep (d : DSt) : List String → DSt × String
  | ["init", t0, src, dst, mc, ri, mrd, thr, mi, ics, ibs, dw, sw, bm] =>
    match t0.toNat?, src.toNat?, dst.toNat?, mc.toNat?, ri.toNat?, mrd.toNat?, thr.toNat?, mi.toNat?,
          ics.toNat?, ibs.toNat?, dw.toNat?, parseInt sw, bm.toNat? with
    | some t0, some src, some dst, some mc, some ri, some mrd, some thr, some mi, some ics, some ibs,
      some dw, some sw, some bm =>
      let cfg : Cfg := { maxCached := mc, refetchInterval := ri, minRefetchDelay := mrd,
                         minExpiryThreshold := thr, maxIdle := mi, issueCacheSize := ics,
                         issueBroadcastSize := ibs, dedupWindow := dw, swapThreshold := sw,
                         backoffMax := bm }
      let env : Env := { cfg := cfg, src := src, dst := dst, allowed := fun _ => false }
      ({ env := env, verdictTab := [], nPol := 0, st := init env t0, ready := true }, s!"ok valid={b01 (validate cfg)}")
    | _, _, _, _, _, _, _, _, _, _, _, _, _ => (d, "bad-op")
  | ["maintain", now, "ok", ps, sc0, sc1, ord, bo] =>
    if !d.ready then (d, "bad-op not-init") else
    match now.toNat?, parsePaths ps, parseScores sc0, parseScores sc1, parseFps ord, bo.toNat? with
    | some now, some ps, some sc0, some sc1, some ord, some bo =>
      doMaintain d now (.ok (ps.map (·.1))) ps sc0 sc1 ord bo
    | _, _, _, _, _, _ => (d, "bad-op")
  | ["maintain", now, e, sc0, sc1, ord, bo] =>
    if !d.ready then (d, "bad-op not-init") else
    match now.toNat?, parseScores sc0, parseScores sc1, parseFps ord, bo.toNat? with
    | some now, some sc0, some sc1, some ord, some bo =>
      if e == "enp" then doMaintain d now .errNoPaths [] sc0 sc1 ord bo
      else if e == "eot" then doMaintain d now .errOther [] sc0 sc1 ord bo
      else (d, "bad-op")
    | _, _, _, _, _ => (d, "bad-op")
  | "report" :: rest =>
    if !d.ready then (d, "bad-op not-init") else
    match rest.reverse with
    | ts :: id :: krev =>
      match parseKind krev.reverse, id.toNat?, ts.toNat? with
      | some k, some id, some ts =>
        let st := step d.env d.st (.report k id ts)
        ({ d with st := st }, stateLine st)
      | _, _, _ => (d, "bad-op")
    | _ => (d, "bad-op")
  | ["deliver", now, sc] =>
    if !d.ready then (d, "bad-op not-init") else
    match now.toNat?, parseScores sc with
    | some now, some sc =>
      if !covers sc (d.st.cached.map (·.fp)) then (d, "bad-op missing-score") else
      let st := step d.env d.st (.deliver now (scoreFn sc))
      ({ d with st := st }, stateLine st)
    | _, _ => (d, "bad-op")
  | ["send", now] =>
    if !d.ready then (d, "bad-op not-init") else
    match now.toNat? with
    | some now =>
      let st := step d.env d.st (.send now)
      ({ d with st := st },
       s!"cached={handoutStr (sendCached st now)} path={pathResStr (sendPath st now)} | {stateLine st}")
    | none => (d, "bad-op")
  | "matches" :: rest =>
    match rest.reverse with
    | p :: trev =>
      match parseTarget trev.reverse, parsePath p with
      | some t, some (p, _) => (d, if t.matchesPath p then "true" else "false")
      | _, _ => (d, "bad-op")
    | _ => (d, "bad-op")
  | ["hops", p] =>
    match parsePath p with
    | some (p, _) => (d, hopsStr p.hops)
    | none => (d, "bad-op")
  | ["backoff", minD, maxD, fNum, fDen, jit, att] =>
    match minD.toNat?, maxD.toNat?, fNum.toNat?, fDen.toNat?, jit.toNat?, att.toNat? with
    | some minD, some maxD, some fNum, some fDen, some jit, some att =>
      (d, s!"{backoffIdeal minD maxD fNum fDen jit att 0 1} {backoffIdeal minD maxD fNum fDen jit att 1 1}")
    | _, _, _, _, _, _ => (d, "bad-op")
  | _ => (d, "bad-op")

def main : IO Unit := Driver.run ({} : DSt) dstep
