/-!
Shared helpers of the line-protocol drivers (core-only).
One request per line on stdin, one response per line on stdout; byte strings are lowercase hex,
`-` is the empty byte string; anything the driver does not understand is answered `bad-op`.
-/
namespace Driver

def hexDigit (c : Char) : Option Nat :=
  if '0' ≤ c ∧ c ≤ '9' then some (c.toNat - '0'.toNat)
  else if 'a' ≤ c ∧ c ≤ 'f' then some (c.toNat - 'a'.toNat + 10)
  else if 'A' ≤ c ∧ c ≤ 'F' then some (c.toNat - 'A'.toNat + 10)
  else none

def parseHexAux : List Char → List UInt8 → Option (List UInt8)
  | [], acc => some acc.reverse
  | [_], _ => none
  | a :: b :: rest, acc =>
    match hexDigit a, hexDigit b with
    | some x, some y => parseHexAux rest (UInt8.ofNat (x * 16 + y) :: acc)
    | _, _ => none

def parseHex (s : String) : Option (List UInt8) :=
  if s == "-" then some [] else parseHexAux s.toList []

def hexChar (n : Nat) : Char := if n < 10 then Char.ofNat (48 + n) else Char.ofNat (87 + n)

def toHex (bs : List UInt8) : String :=
  if bs.isEmpty then "-" else
  String.ofList (bs.foldr (fun b acc => hexChar (b.toNat / 16) :: hexChar (b.toNat % 16) :: acc) [])

def words (line : String) : List String :=
  (line.trimAscii.toString.splitOn " ").filter (· ≠ "")

partial def loop {σ : Type} (h : IO.FS.Stream) (out : IO.FS.Stream) (st : σ)
    (step : σ → List String → σ × String) : IO Unit := do
  let line ← h.getLine
  if line.isEmpty then return ()
  let (st', resp) := step st (words line)
  out.putStrLn resp
  out.flush
  loop h out st' step

def run {σ : Type} (init : σ) (step : σ → List String → σ × String) : IO Unit := do
  loop (← IO.getStdin) (← IO.getStdout) init step

end Driver
