import Driver.Common
import ScionVerif.Model.SnapFilter
import ScionVerif.Spec.SnapFilter
/-!
line-protocol driver for the SNAP ingress filter model (C08)

```
check <hex datagram> <peer>            -> dispatch <viewlen> | malformed <class> | badsrc <viewlen> <ptr> | badpath <viewlen> <pt> | panic
step  <hex datagram> <peer> <local>    -> dispatch <hex view> | reply <hex packet> | encode-error | none | panic
spec  <hex datagram> <peer>            -> accept <packetlen> | malformed | badsrc | badpath      (independent procedure)
const                                  -> the generated constants the harness cross-checks
```
`<peer>`, `<local>` = `4:<8 hex digits>` or `6:<32 hex digits>` (any even number of digits is accepted and modelled).
-/
open ScionVerif.SnapFilter ScionVerif.Generated.SnapFilter Driver

def parseIp (s : String) : Option Ip :=
  match s.splitOn ":" with
  | ["4", h] => (parseHex h).map Ip.v4
  | ["6", h] => (parseHex h).map Ip.v6
  | _ => none

def whereLabel : Where → String
  | .commonHeader => "CommonHeader"
  | .addressHeader => "AddressHeader"
  | .pathMeta => "PathMeta"
  | .path => "path"
  | .totalHeader => "TotalHeader"

def errLabel : ParseErr → String
  | .tooSmall w r a => s!"too_small:{whereLabel w}:{r}:{a}"
  | .unsupportedVersion => "UnsupportedVersion"
  | .invalidHeaderLength => "InvalidHeaderLength"

def verdictStr : Verdict → String
  | .dispatch v => s!"dispatch {v.length}"
  | .malformed e => s!"malformed {errLabel e}"
  | .badSource v off => s!"badsrc {v.length} {off}"
  | .badPathType v pt => s!"badpath {v.length} {pt}"
  | .panic => "panic"

def outcomeStr (o : Outcome) : String :=
  if o.panicked then "panic"
  else if o.encodeFailed then "encode-error"
  else match o.dispatched, o.replies with
    | [v], [] => s!"dispatch {toHex v}"
    | [], [r] => s!"reply {toHex r}"
    | [], [] => "none"
    | _, _ => "multiple"

def toPeer : Ip → ScionVerif.Spec.SnapFilter.Peer
  | .v4 o => .v4 o
  | .v6 o => .v6 o

def specStr (d : List UInt8) (p : Ip) : String :=
  match ScionVerif.Spec.SnapFilter.classify d (toPeer p) with
  | .accept => s!"accept {ScionVerif.Spec.SnapFilter.packetLen d}"
  | .malformed => "malformed"
  | .badSource => "badsrc"
  | .badPathType => "badpath"

def step (st : Unit) : List String → Unit × String
  | ["check", hx, p] => match parseHex hx, parseIp p with
    | some d, some ip => (st, verdictStr (inboundCheck d ip))
    | _, _ => (st, "bad-op")
  | ["step", hx, p, l] => match parseHex hx, parseIp p, parseIp l with
    | some d, some ip, some loc => (st, outcomeStr (gatewayStep d ip loc))
    | _, _, _ => (st, "bad-op")
  | ["spec", hx, p] => match parseHex hx, parseIp p with
    | some d, some ip => (st, specStr d ip)
    | _, _ => (st, "bad-op")
  | ["const"] => (st, s!"buf {PACKET_BUF_SIZE} max {ScionVerif.Generated.Scmp.SCMP_ERROR_MAX_PACKET_SIZE} maxhdr {MAX_HEADER_SIZE} common {COMMON_SIZE}")
  | _ => (st, "bad-op")

def main : IO Unit := Driver.run () step
