import Driver.Common
import ScionVerif.Model.AesCmac
import ScionVerif.Model.SimPacket
/-! line-protocol driver for the data-plane models (C13, C01): `sim` = model of pocketscion, `ref` = reference router -/
open ScionVerif.Router ScionVerif.Generated.Router Driver

structure St where
  topo : Topo := { ases := [], links := [] }

def macf : MacF := fun key beta ts exp ci ce => ScionVerif.AesCmac.hopMac key beta ts exp ci ce

def nats (ws : List String) : Option (List Nat) := ws.mapM (·.toNat?)

def takeInfos : Nat → List Nat → Option (List Info × List Nat)
  | 0, r => some ([], r)
  | n + 1, c :: p :: s :: t :: r => do
    let (is, r') ← takeInfos n r
    some ({ consDir := c != 0, peer := p != 0, segId := s, ts := t } :: is, r')
  | _, _ => none

def takeHops : Nat → List Nat → Option (List Hop × List Nat)
  | 0, r => some ([], r)
  | n + 1, a :: b :: e :: ci :: ce :: m :: r => do
    let (hs, r') ← takeHops n r
    some ({ inAlert := a != 0, egAlert := b != 0, exp := e, consIngress := ci, consEgress := ce, mac := m } :: hs, r')
  | _, _ => none

def parsePath (ns : List Nat) : Option Path :=
  match ns with
  | ci :: ch :: s0 :: s1 :: s2 :: nI :: nH :: rest => do
    let (is, r1) ← takeInfos nI rest
    let (hs, r2) ← takeHops nH r1
    if r2.isEmpty then some { currInf := ci, currHf := ch, seg0 := s0, seg1 := s1, seg2 := s2, infos := is, hops := hs } else none
  | _ => none

def b2n (b : Bool) : Nat := if b then 1 else 0

/-- packet of any path kind: `std <path>` | `ohp <info 4> <hop0 6> <hop1 6>` | `empty` | `unsupported` -/
def parsePkt : List String → Option Pkt
  | "std" :: rest => (nats rest).bind parsePath |>.map Pkt.std
  | "ohp" :: rest =>
    match nats rest with
    | some [c, pr, s, t, a0, b0, e0, ci0, ce0, m0, a1, b1, e1, ci1, ce1, m1] =>
      some (.oneHop ⟨⟨c != 0, pr != 0, s, t⟩, ⟨a0 != 0, b0 != 0, e0, ci0, ce0, m0⟩, ⟨a1 != 0, b1 != 0, e1, ci1, ce1, m1⟩⟩)
    | _ => none
  | ["empty"] => some .empty
  | ["unsupported"] => some .unsupported
  | _ => none

def showPath (p : Path) : String :=
  let is := p.infos.map (fun i => s!" {b2n i.consDir} {b2n i.peer} {i.segId} {i.ts}")
  let hs := p.hops.map (fun h => s!" {b2n h.inAlert} {b2n h.egAlert} {h.exp} {h.consIngress} {h.consEgress} {h.mac}")
  s!"{p.currInf} {p.currHf} {p.seg0} {p.seg1} {p.seg2} {p.infos.length} {p.hops.length}" ++ String.join is ++ String.join hs

def showHop (h : Hop) : String := s!" {b2n h.inAlert} {b2n h.egAlert} {h.exp} {h.consIngress} {h.consEgress} {h.mac}"
def showPkt : Pkt → String
  | .std p => "std " ++ showPath p
  | .oneHop o => s!"ohp {b2n o.info.consDir} {b2n o.info.peer} {o.info.segId} {o.info.ts}" ++ showHop o.hop0 ++ showHop o.hop1
  | .empty => "empty"
  | .unsupported => "unsupported"

def showErr : VErr → String
  | .ppConsIngress => "pp_cons_ingress" | .ppConsEgress => "pp_cons_egress" | .invalidPath => "invalid_path"
  | .pathExpired => "path_expired" | .invalidMac => "invalid_mac" | .invalidSegChange => "invalid_seg_change"
  | .erroneousHeader => "erroneous_header" | .ifDown i => s!"if_down:{i}" | .nonLocalDelivery => "non_local_delivery"

def showAction : Action → String
  | .forwardNext e => s!"next {e}" | .forwardLocal => "local" | .ingressScmp i => s!"iscmp {i}"
  | .egressScmp i => s!"escmp {i}" | .scmpError e => s!"err {showErr e}" | .drop => "drop"

def showVerdict : Verdict → String
  | .delivered a => s!"delivered {a}" | .scmp a e => s!"scmp {a} {showErr e}"
  | .scmpRequest a i eg => s!"scmpreq {a} {i} {b2n eg}" | .external a e x xi => s!"external {a} {e} {x} {xi}"
  | .dropped a => s!"dropped {a}" | .simError a => s!"simerror {a}"

def parseRole : String → Option LinkRole
  | "core" => some .core | "child" => some .child | "parent" => some .parent | "peer" => some .peer | _ => none

def step (st : St) : List String → St × String
  | ["topo-reset"] => ({ topo := { ases := [], links := [] } }, "ok")
  | ["as", ia, core, ext, key] =>
    match ia.toNat?, core.toNat?, ext.toNat?, parseHex key with
    | some ia, some c, some e, some k =>
      ({ topo := { st.topo with ases := st.topo.ases ++ [{ ia, core := c != 0, external := e != 0, key := k }] } }, "ok")
    | _, _, _, _ => (st, "bad-op")
  | ["link", o, i, role, pa, pi, up] =>
    match o.toNat?, i.toNat?, parseRole role, pa.toNat?, pi.toNat?, up.toNat? with
    | some o, some i, some r, some pa, some pi, some up =>
      ({ topo := { st.topo with links := st.topo.links ++ [{ owner := o, ifId := i, role := r, peerAs := pa, peerIf := pi, up := up != 0 }] } }, "ok")
    | _, _, _, _, _, _ => (st, "bad-op")
  | "route" :: which :: rest =>
    match nats rest with
    | some (localAs :: dstAs :: ing :: now :: ign :: pn) =>
      match parsePath pn, st.topo.asInfo localAs with
      | some p, some a =>
        let r := if which == "sim" then routeStd macf localAs dstAs p ing now a.key (st.topo.lookup localAs) (ign != 0)
                 else Ref.process macf localAs dstAs p ing now a.key (st.topo.lookup localAs) (ign != 0)
        if which == "sim" || which == "ref" then (st, s!"{showAction r.2} ; {showPath r.1}") else (st, "bad-op")
      | _, _ => (st, "bad-op")
    | _ => (st, "bad-op")
  | "walk" :: which :: rest =>
    match nats rest with
    | some (startAs :: ing :: dstAs :: now :: ign :: pn) =>
      match parsePath pn with
      | some p =>
        let fuel := p.hopCount + 2
        let r := if which == "sim" then walk macf st.topo dstAs now (ign != 0) fuel startAs ing p 0
                 else Ref.walk macf st.topo dstAs now (ign != 0) fuel startAs ing p 0
        if which == "sim" || which == "ref" then
          match r with
          | some (v, _, n) => (st, s!"{showVerdict v} steps {n}")
          | none => (st, "out-of-fuel")
        else (st, "bad-op")
      | none => (st, "bad-op")
    | _ => (st, "bad-op")
  | "routep" :: which :: localAs :: dstAs :: ing :: now :: ign :: pk =>
    match nats [localAs, dstAs, ing, now, ign], parsePkt pk with
    | some [localAs, dstAs, ing, now, ign], some k =>
      match st.topo.asInfo localAs with
      | some a =>
        let r := if which == "sim" then routePkt macf localAs dstAs k ing now a.key (st.topo.lookup localAs) (ign != 0)
                 else Ref.processPkt macf localAs dstAs k ing now a.key (st.topo.lookup localAs) (ign != 0)
        if which == "sim" || which == "ref" then (st, s!"{showAction r.2} ; {showPkt r.1}") else (st, "bad-op")
      | none => (st, "bad-op")
    | _, _ => (st, "bad-op")
  | "walkp" :: which :: startAs :: ing :: dstAs :: now :: ign :: pk =>
    match nats [startAs, ing, dstAs, now, ign], parsePkt pk with
    | some [startAs, ing, dstAs, now, ign], some k =>
      let fuel := (match k with | .std p => p.hopCount | _ => 2) + 2
      let r := if which == "sim" then walkP macf st.topo dstAs now (ign != 0) fuel startAs ing k 0
               else Ref.walkP macf st.topo dstAs now (ign != 0) fuel startAs ing k 0
      if which == "sim" || which == "ref" then
        match r with
        | some (v, _, n) => (st, s!"{showVerdict v} steps {n}")
        | none => (st, "out-of-fuel")
      else (st, "bad-op")
    | _, _ => (st, "bad-op")
  | "reverse" :: pn =>
    match (nats pn).bind parsePath with
    | some p => (st, showPath (reversePath p))
    | none => (st, "bad-op")
  | ["mac", key, beta, ts, exp, ci, ce] =>
    match parseHex key, nats [beta, ts, exp, ci, ce] with
    | some k, some [b, t, e, i, g] => (st, toString (macf k b t e i g))
    | _, _ => (st, "bad-op")
  | _ => (st, "bad-op")

def main : IO Unit := Driver.run ({} : St) step
