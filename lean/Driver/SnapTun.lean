import Driver.Common
import ScionVerif.Model.TunServerEntry
/-! line-protocol driver for the identity registry + SNAP tunnel server model (C09)

requests (one per line):
  new                                   reset to the empty system
  at <d> <request…>                     restore the state reached after the first d requests of the current
                                        path (DFS with shared prefixes), apply the request, remember the result
  reg <key> <id> <life> | adv <d> | purge | tick
  in <addr> init <signer|-> <claimed> <ts> <hs>
  in <addr> data <signer|-> <hs> <src-addr> <ridx> <ctr> <payload-hex>
  in <addr> other | in <addr> junk
  out <addr> <payload-hex>
  inp <addr> …  |  outp <addr> <payload-hex>   the same operation through the compatibility wrappers
                                        `handle_incoming_packet` / `handle_outgoing_packet` (`stepVia .plain`)
  entrypoints                           the `pub fn`s of `impl SnapTunServer` as regenerated from the source, with the
                                        role the model gives each (`?` = the model has no function for it)
response: `<outcome> | t=<now> tun=<addr:peer,…> a=<key:id,…> s=<id:expiry,…> auth=<verdicts for ids 0..3>`
-/
open ScionVerif.SnapTun Driver

abbrev S := Sys GoWg.Tunn

structure St where
  cur : S := {}
  stack : Array S := #[{}]

def nat? (s : String) : Option Nat := s.toNat?

def optId? (s : String) : Option (Option Nat) :=
  if s == "-" then some none else (s.toNat?).map some

def payload? (s : String) : Option Payload := (parseHex s).map (·.map (·.toNat))

def hexP (p : Payload) : String := toHex (p.map UInt8.ofNat)

def errName : WgErr → String
  | .unexpectedPacket => "UnexpectedPacket"
  | .invalidPacket => "InvalidPacket"
  | .tunn c =>
    if c == GoWg.eWrongKey then "WrongKey"
    else if c == GoWg.eInvalidAeadTag then "InvalidAeadTag"
    else if c == GoWg.eWrongTimestamp then "WrongTai64nTimestamp"
    else if c == GoWg.eWrongIndex then "WrongIndex"
    else if c == GoWg.eNoCurrentSession then "NoCurrentSession"
    else if c == GoWg.eDuplicateCounter then "DuplicateCounter"
    else if c == GoWg.eWrongPacketType then "WrongPacketType"
    else s!"Tunn{c}"

def netStr : GoWg.Net → String
  | .resp _ idx => s!"resp:{idx}"
  | .init => "init"
  | .data _ p => s!"data:{hexP p}"

def joinOr (xs : List String) : String := if xs.isEmpty then "-" else ",".intercalate xs

def resStr : InRes GoWg.Net Unit → String
  | .forwarded p _ => s!"fwd:{hexP p}"
  | .result .done => "done"
  | .result (.err e) => s!"err:{errName e}"
  | .result (.writeToNetwork _) => "wtn"
  | .result (.writeToTunnel p) => s!"wtt:{hexP p}"

def outStr : Out GoWg.Net → String
  | .registered true => "reg new"
  | .registered false => "reg old"
  | .unit => "ok"
  | .incoming net res _ => s!"in res={resStr res} net={joinOr (net.map netStr)}"
  | .outgoing none _ => "out none"
  | .outgoing (some (n, _)) _ => s!"out some:{match n with | some x => netStr x | none => "none"}"
  | .ticked net => s!"tick {joinOr (net.map (fun p => s!"{p.1}:{netStr p.2}"))}"

def voutStr : VOut GoWg.Net → String
  | .session o => outStr o
  | .incomingPlain net r => s!"inp res={resStr (.result r)} net={joinOr (net.map netStr)}"
  | .outgoingPlain none => "outp none"
  | .outgoingPlain (some n) => s!"outp some:{netStr n}"

def roleStr : Role → String
  | .construct => "construct"
  | .incoming => "incoming"
  | .outgoing => "outgoing"
  | .timers => "timers"
  | .readOnlyHook => "hook"

def entryPointsStr : String :=
  " ".intercalate (ScionVerif.Generated.SnapTun.SERVER_PUB_FNS.map (fun n =>
    s!"{n}={match entryPoints.lookup n with | some r => roleStr r | none => "?"}"))

def sortPairs (l : List (Nat × Nat)) : List (Nat × Nat) := l.mergeSort (fun a b => a.1 ≤ b.1)

def stateStr (s : S) : String :=
  let tun := sortPairs (s.srv.tunnels.map (fun p => (p.1, p.2.peerStatic)))
  let pr (l : List (Nat × Nat)) := joinOr (l.map (fun p => s!"{p.1}:{p.2}"))
  let auth := String.join ((List.range 4).map (fun i => if s.reg.hasAuthorization s.now i then "1" else "0"))
  s!"t={s.now} tun={pr tun} a={pr (sortPairs s.reg.assoc)} s={pr (sortPairs s.reg.sess)} auth={auth}"

def parseOp : List String → Option (Op GoWg.Pkt)
  | ["reg", k, i, l] => do some (.register (← nat? k) (← nat? i) (← nat? l))
  | ["adv", d] => do some (.advance (← nat? d))
  | ["purge"] => some .purge
  | ["tick"] => some .tick
  | ["in", a, "init", sg, c, ts, hs] => do
      some (.incoming (← nat? a) (.init (← optId? sg) (← nat? c) (← nat? ts) (← nat? hs)))
  | ["in", a, "data", sg, hs, src, ridx, ctr, pl] => do
      some (.incoming (← nat? a)
        (.data (← optId? sg) (← nat? hs) (← nat? src) (← nat? ridx) (← nat? ctr) (← payload? pl)))
  | ["in", a, "other"] => do some (.incoming (← nat? a) .other)
  | ["in", a, "junk"] => do some (.incoming (← nat? a) .junk)
  | ["out", a, pl] => do some (.outgoing (← nat? a) (← payload? pl))
  | _ => none

def apply (s : S) (ws : List String) : Option (S × String) :=
  let (via, ws) : Via × List String := match ws with
    | "inp" :: rest => (.plain, "in" :: rest)
    | "outp" :: rest => (.plain, "out" :: rest)
    | ws => (.session, ws)
  match parseOp ws with
  | some op =>
    let (s', o) := stepVia GoWg.wg s via op
    some (s', s!"{voutStr o} | {stateStr s'}")
  | none => none

def stepD (st : St) : List String → St × String
  | ["new"] => ({}, "ok")
  | ["entrypoints"] => (st, entryPointsStr)
  | "at" :: d :: rest =>
    match d.toNat? with
    | some d =>
      if h : d < st.stack.size then
        match apply st.stack[d] rest with
        | some (s', r) => ({ cur := s', stack := (st.stack.extract 0 (d + 1)).push s' }, r)
        | none => (st, "bad-op")
      else (st, "bad-op")
    | none => (st, "bad-op")
  | ws =>
    match apply st.cur ws with
    | some (s', r) => ({ cur := s', stack := st.stack.push s' }, r)
    | none => (st, "bad-op")

def main : IO Unit := Driver.run ({} : St) stepD
