import Driver.Common
import ScionVerif.Model.AddrText
/-! line-protocol driver for the address / identifier text model (C15)

`p <kind> <hex of the UTF-8 string>`  →  `ok <canonical value>` | `err` | `panic`
`s <kind> <value …>`                  →  `<hex of the UTF-8 displayed form>`
primitives: `wslist` (all white-space code points), `digits <radix>` (all `cp:value`), `consts`.
kinds: isd asn ia svc host ip ip4 ip6 addr addrsvc addrv4 addrv6 ipaddr sock socksvc sockv4 sockv6 ipsock
       legacysock txt.   host values: `4:<u32>` `6:<u128>` `s:<u16>`.
`r <rr> …` (record level of the TXT resolver; one token per TXT resource record: its character-strings as hex
joined by `,`, `-` = empty character-string, `0` = a record without character-strings)
                                      →  `ok <addr;addr;…>` | `novalid <hex raw> …` | `panic`
`u <hex>` (strict UTF-8 decoding as the driver does it) → `ok <code points>` | `err`
-/
open ScionVerif.AddrText Driver

def C : HostCodec := stdCodec

def decodeStr (hx : String) : Option Str :=
  match parseHex hx with
  | some bs => (String.fromUTF8? (ByteArray.mk bs.toArray)).map String.toList
  | none => none

def encodeStr (s : Str) : String := toHex (String.ofList s).toUTF8.toList

def hostStr : Host → String
  | .v4 a => s!"4:{a}"
  | .v6 a => s!"6:{a}"
  | .svc v => s!"s:{v}"

def parseHostArg (w : String) : Option Host :=
  match w.splitOn ":" with
  | ["4", n] => n.toNat?.map Host.v4
  | ["6", n] => n.toNat?.map Host.v6
  | ["s", n] => n.toNat?.map Host.svc
  | _ => none

def resStr {α : Type} (f : α → String) : Res α → String
  | .ok v => "ok " ++ f v
  | .err => "err"
  | .panic => "panic"

def optStr {α : Type} (f : α → String) : Option α → String
  | some v => "ok " ++ f v
  | none => "err"

def addrStr (a : ScionAddr) : String := s!"{a.ia} {hostStr a.host}"
def sockStr (a : SocketAddr) : String := s!"{a.ia} {hostStr a.host} {a.port}"

def natStr (n : Nat) : String := toString n

def sockT {α : Type} (f : α → Host) (r : Res ((Nat × α) × Nat)) : String :=
  resStr (fun (x : (Nat × α) × Nat) => sockStr ⟨x.1.1, f x.1.2, x.2⟩) r

def addrT {α : Type} (f : α → Host) (r : Res (Nat × α)) : String :=
  resStr (fun (x : Nat × α) => addrStr ⟨x.1, f x.2⟩) r

def doParse (kind : String) (s : Str) : Option String :=
  match kind with
  | "isd" => some (optStr natStr (parseIsd s))
  | "asn" => some (optStr natStr (parseAsn s))
  | "ia" => some (resStr natStr (parseIsdAsn s))
  | "svc" => some (optStr natStr (parseSvc s))
  | "host" => some (optStr hostStr (parseHost C s))
  | "ip" => some (optStr hostStr (parseIp C s))
  | "ip4" => some (optStr natStr (C.parse4 s))
  | "ip6" => some (optStr natStr (C.parse6 s))
  | "addr" => some (resStr addrStr (parseScionAddr C s))
  | "addrsvc" => some (addrT Host.svc (parseScionAddrT parseSvc s))
  | "addrv4" => some (addrT Host.v4 (parseScionAddrT C.parse4 s))
  | "addrv6" => some (addrT Host.v6 (parseScionAddrT C.parse6 s))
  | "ipaddr" => some (resStr addrStr (parseScionIpAddr C s))
  | "sock" => some (resStr sockStr (parseSocketAddr C s))
  | "socksvc" => some (sockT Host.svc (parseSocketT (parseScionAddrT parseSvc) s))
  | "sockv4" => some (sockT Host.v4 (parseSocketT (parseScionAddrT C.parse4) s))
  | "sockv6" => some (sockT Host.v6 (parseSocketT (parseScionAddrT C.parse6) s))
  | "ipsock" => some (resStr sockStr (parseSocketIpAddr C s))
  | "legacysock" =>
    -- the pre-repair `ScionSocketAddr::from_str` (service, IPv4, IPv6)
    some (match parseSocketLegacyT (parseScionAddrT parseSvc) s with
      | .ok x => sockT Host.svc (.ok x)
      | .panic => "panic"
      | .err =>
        match parseSocketLegacyT (parseScionAddrT C.parse4) s with
        | .ok x => sockT Host.v4 (.ok x)
        | .panic => "panic"
        | .err => sockT Host.v6 (parseSocketLegacyT (parseScionAddrT C.parse6) s))
  | "txt" => some (resStr (fun l => ";".intercalate (l.map addrStr)) (parseTxt C s))
  | _ => none

def parseAddrArgs : List String → Option (List ScionAddr)
  | [] => some []
  | ia :: h :: rest =>
    match ia.toNat?, parseHostArg h, parseAddrArgs rest with
    | some ia, some h, some more => some (⟨ia, h⟩ :: more)
    | _, _, _ => none
  | _ => none

def doShow : List String → Option Str
  | ["isd", n] => n.toNat?.map showIsd
  | ["asn", n] => n.toNat?.map showAsn
  | ["ia", n] => n.toNat?.map showIsdAsn
  | ["svc", n] => n.toNat?.map showSvc
  | ["ip4", n] => n.toNat?.map C.show4
  | ["ip6", n] => n.toNat?.map C.show6
  | ["host", h] => (parseHostArg h).map (showHost C)
  | ["addr", ia, h] =>
    match ia.toNat?, parseHostArg h with
    | some ia, some h => some (showScionAddr C ⟨ia, h⟩)
    | _, _ => none
  | ["sock", ia, h, p] =>
    match ia.toNat?, parseHostArg h, p.toNat? with
    | some ia, some h, some p => some (showSocketAddr C ⟨ia, h, p⟩)
    | _, _, _ => none
  | "txt" :: rest => (parseAddrArgs rest).map (showTxt C)
  | _ => none

/-- `String::from_utf8` of the record level: Lean's own strict UTF-8 validator (validated against std's by
    the harness on every record it sends) -/
def U : Utf8Codec where
  decode bs := (String.fromUTF8? (ByteArray.mk (bs.map UInt8.ofNat).toArray)).map String.toList
  encode s := (String.ofList s).toUTF8.toList.map UInt8.toNat

def parseRR (tok : String) : Option TxtRR :=
  if tok == "0" then some [] else
  (tok.splitOn ",").foldr (fun h acc =>
    match parseHex h, acc with
    | some bs, some rest => some (bs.map UInt8.toNat :: rest)
    | _, _ => none) (some [])

def parseRRs : List String → Option (List TxtRR)
  | [] => some []
  | t :: rest =>
    match parseRR t, parseRRs rest with
    | some rr, some more => some (rr :: more)
    | _, _ => none

def resolvedStr : TxtResolved → String
  | .ok l => "ok " ++ ";".intercalate (l.map addrStr)
  | .noValid inv => " ".intercalate ("novalid" :: inv.map encodeStr)
  | .panic => "panic"

/-- all scalar values (no surrogates) satisfying `p`, as decimal code points -/
def scanChars (f : Char → Option String) : String :=
  let out := Nat.fold 0x110000 (fun n _ acc =>
    if 0xD800 ≤ n ∧ n ≤ 0xDFFF then acc else
    match f (Char.ofNat n) with
    | some s => s :: acc
    | none => acc) ([] : List String)
  " ".intercalate out.reverse

open ScionVerif.Generated.Addr in
def constsLine : String :=
  let tab := fun (t : List (Str × Nat)) => ",".intercalate (t.map (fun p => s!"{String.ofList p.1}={p.2}"))
  s!"ISD_BITS={ISD_BITS} ASN_BITS={ASN_BITS} ASN_MAX={ASN_MAX} ASN_DISPLAY_DECIMAL_MAX={ASN_DISPLAY_DECIMAL_MAX} " ++
  s!"ASN_PARSE_DECIMAL_MAX={ASN_PARSE_DECIMAL_MAX} IA_BITS={IA_BITS} SVC_BITS={SVC_BITS} SVC_MULTICAST_FLAG={SVC_MULTICAST_FLAG} " ++
  s!"PORT_BITS={PORT_BITS} SHOW={tab SVC_SHOW_NAMES} PARSE={tab SVC_PARSE_NAMES} TXT_PREFIX={String.ofList TXT_PREFIX} " ++
  s!"TXT_INVALID_UTF8_RAW={String.ofList TXT_INVALID_UTF8_RAW} TXT_UTF8_STRICT={TXT_UTF8_STRICT}"

def step (st : Unit) : List String → Unit × String
  | ["p", kind, hx] =>
    match decodeStr hx with
    | some s => (st, (doParse kind s).getD "bad-op")
    | none => (st, "bad-op")
  | ["wslist"] => (st, scanChars (fun c => if isWhitespace c then some (toString c.toNat) else none))
  | ["digits", r] =>
    match r.toNat? with
    | some r => (st, scanChars (fun c => (digitVal r c).map (fun d => s!"{c.toNat}:{d}")))
    | none => (st, "bad-op")
  | ["consts"] => (st, constsLine)
  | "r" :: toks =>
    match parseRRs toks with
    | some rrs => (st, resolvedStr (resolveTxtRRs C U rrs))
    | none => (st, "bad-op")
  | ["u", hx] =>
    match parseHex hx with
    | some bs =>
      (st, match U.decode (bs.map UInt8.toNat) with
        | some s => " ".intercalate ("ok" :: s.map (fun c => toString c.toNat))
        | none => "err")
    | none => (st, "bad-op")
  | "s" :: args =>
    match doShow args with
    | some s => (st, encodeStr s)
    | none => (st, "bad-op")
  | _ => (st, "bad-op")

def main : IO Unit := Driver.run () step
