import Driver.Common
/-! stub: replaced by the owner of this driver -/
def main : IO Unit := Driver.run () (fun s _ => (s, "bad-op"))
